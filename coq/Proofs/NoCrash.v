(** C02: evaluation never crashes (the model's [Crash] outcome: a panic of the real code). *)
From Coq Require Import String.
From Cel.Model Require Import Eval.
From Cel.Proofs Require Import EvalBase.
From Coq Require Import Lia.

Definition nocrash {A} (o : outcome A) : Prop := forall s, o <> Crash s.

Lemma nocrash_ok {A} (a : A) : nocrash (Ok a). Proof. intros s; discriminate. Qed.
Lemma nocrash_err {A} c : @nocrash A (Err c). Proof. intros s; discriminate. Qed.
#[export] Hint Resolve nocrash_ok nocrash_err : nocrash.

(** ** The value operators never crash, on any pair of values *)
Lemma chk_nocrash z : nocrash (chk_i64 z) /\ nocrash (chk_u64 z) /\ nocrash (chk_dur z) /\
                      forall o, nocrash (chk_ts z o).
Proof.
  unfold chk_i64, chk_u64, chk_dur, chk_ts. repeat split; intros;
    repeat match goal with |- context [if ?b then _ else _] => destruct b end; auto with nocrash.
Qed.

Ltac crush :=
  repeat match goal with
         | |- nocrash (if ?b then _ else _) => destruct b
         | |- nocrash (match ?x with _ => _ end) => destruct x
         | |- nocrash (chk_i64 _) => apply chk_nocrash
         | |- nocrash (chk_u64 _) => apply chk_nocrash
         | |- nocrash (chk_dur _) => apply chk_nocrash
         | |- nocrash (chk_ts _ _) => apply chk_nocrash
         end; auto with nocrash.

Lemma binop_nocrash a b :
  nocrash (v_add a b) /\ nocrash (v_sub a b) /\ nocrash (v_mul a b) /\ nocrash (v_div a b) /\
  nocrash (v_rem a b).
Proof. repeat split; destruct a, b; cbn [v_add v_sub v_mul v_div v_rem]; crush. Qed.

Lemma rel_nocrash a b : nocrash (v_lt a b) /\ nocrash (v_le a b) /\ nocrash (v_gt a b) /\ nocrash (v_ge a b).
Proof. unfold v_lt, v_le, v_gt, v_ge. repeat split; crush. Qed.

Lemma neg_nocrash a : nocrash (v_neg a).
Proof. destruct a; cbn [v_neg]; crush. Qed.

Lemma index_nocrash a b : nocrash (v_index a b).
Proof. destruct a, b; cbn [v_index]; crush. Qed.

Lemma in_nocrash a b : nocrash (v_in a b).
Proof. destruct a, b; cbn [v_in]; crush. Qed.

Lemma strict_binop_nocrash o a b : o <> BOr -> o <> BAnd -> nocrash (strict_binop o a b).
Proof.
  intros H1 H2. destruct o; cbn [strict_binop]; try congruence; auto with nocrash;
    try apply binop_nocrash; try apply rel_nocrash; try apply in_nocrash; apply index_nocrash.
Qed.

Lemma unop_nocrash o v : nocrash (v_unop o v).
Proof. destruct o; cbn [v_unop]; [auto with nocrash|apply neg_nocrash|destruct v; auto with nocrash]. Qed.

Lemma member_nocrash c v f : nocrash (member c v f).
Proof. unfold member. crush. Qed.

Lemma lookup_nocrash c x : nocrash (lookup c x).
Proof. unfold lookup. crush. Qed.

(** ** Built-ins *)
Lemma fold_pick_nocrash k l : forall acc, nocrash (fold_pick k acc l).
Proof. induction l as [|x l IH]; intros acc; cbn [fold_pick]; [auto with nocrash|]. destruct (v_cmp acc x); [apply IH|auto with nocrash]. Qed.

Lemma pick_nocrash k args : nocrash (v_pick k args).
Proof.
  unfold v_pick, pick_list.
  destruct args as [|a [|b r]]; auto with nocrash.
  - destruct a; auto with nocrash. destruct l; [auto with nocrash|apply fold_pick_nocrash].
  - destruct a; apply fold_pick_nocrash.
Qed.

Lemma b_nocrash v a : nocrash (b_size v) /\ nocrash (b_contains v a) /\ nocrash (b_string v) /\
                      nocrash (b_int v) /\ nocrash (b_uint v) /\ nocrash (b_double v).
Proof.
  unfold b_size, b_contains, b_string, b_int, b_uint, b_double, ferr.
  repeat split; destruct v; crush.
Qed.

(** What the extractors hand to a function body, per parameter. *)
Definition shape (p : extractor) (v : value) : Prop :=
  match p with
  | XThis t | XArg t => has_vty t v = true
  | XThisOpt t | XArgOpt t => has_vty t v = true \/ v = VNull
  | XArgs => exists l, v = VList l
  | XIdent => exists s, v = VStr s
  | XExpr => v = VNull
  end.

Lemma from_value_shape t opt v x : from_value t opt v = Ok x ->
  x = v /\ (has_vty t v = true \/ (opt = true /\ v = VNull)).
Proof.
  unfold from_value. destruct (has_vty t v) eqn:E; [intros [= <-]; auto|].
  destruct opt; [|discriminate]. destruct v; try discriminate. intros [= <-]. auto.
Qed.

(** The Arguments extractor resolves every argument in order. *)
Fixpoint all_args (rs' : list result) (vs : list value) (lg : list event)
  : (list value * list event) + (outcome (list value) * list event) :=
  match rs' with
  | [] => inl (vs, lg)
  | (r, l) :: rs'' =>
      match r with
      | Ok v => all_args rs'' (v :: vs) (lg ++ l)
      | Err c => inr (Err c, lg ++ l)
      | Crash s => inr (Crash s, lg ++ l)
      end
  end.

Lemma all_args_inr rs' : forall vs lg e, all_args rs' vs lg = inr e -> forall xs l, e <> (Ok xs, l).
Proof.
  induction rs' as [|[r l0] rs' IHr]; intros vs lg e0 He; [discriminate|].
  cbn [all_args] in He.
  destruct r; [exact (IHr _ _ _ He)|injection He as <-; discriminate|injection He as <-; discriminate].
Qed.

Lemma extract_xargs ps this rs es idx acc log :
  extract (XArgs :: ps) this rs es idx acc log =
  match all_args rs [] log with
  | inl (vs, lg) => extract ps this rs es idx (VList (rev' vs) :: acc) lg
  | inr e => e
  end.
Proof.
  cbn [extract].
  match goal with
  | |- ?F rs [] log = _ =>
      assert (G : forall rs' vs lg,
                 F rs' vs lg = match all_args rs' vs lg with
                               | inl (vs', lg') => extract ps this rs es idx (VList (rev' vs') :: acc) lg'
                               | inr e => e
                               end)
  end.
  { induction rs' as [|[r l0] rs' IHr]; intros vs lg; [reflexivity|].
    cbn [all_args]. destruct r; [apply IHr|reflexivity|reflexivity]. }
  apply G.
Qed.

Lemma extract_shape ps : forall this rs es idx acc log xs l,
  extract ps this rs es idx acc log = (Ok xs, l) ->
  exists ys, xs = rev acc ++ ys /\ Forall2 shape ps ys.
Proof.
  induction ps as [|p ps IH]; intros this rs es idx acc log xs l H.
  - cbn [extract] in H. injection H as <- _. exists []. split; [unfold rev'; rewrite <- rev_alt; now rewrite app_nil_r|constructor].
  - cbn [extract] in H.
    assert (Pos : forall t opt missing,
      match nth_error rs idx with
      | None => (Err missing, log)
      | Some (r, l0) =>
          match r with
          | Ok v => match from_value t opt v with
                    | Ok x => extract ps this rs es (S idx) (x :: acc) (log ++ l0)
                    | Err c => (Err c, log ++ l0)
                    | Crash s => (Crash s, log ++ l0)
                    end
          | Err c => (Err c, log ++ l0)
          | Crash s => (Crash s, log ++ l0)
          end
      end = (Ok xs, l) ->
      exists y, (has_vty t y = true \/ (opt = true /\ y = VNull)) /\
                exists ys', xs = rev (y :: acc) ++ ys' /\ Forall2 shape ps ys').
    { intros t opt missing Hp. destruct (nth_error rs idx) as [[r l0]|]; [|discriminate].
      destruct r as [v| |]; try discriminate.
      destruct (from_value t opt v) as [x| |] eqn:Ef; try discriminate.
      apply from_value_shape in Ef as [-> Hv]. destruct (IH _ _ _ _ _ _ _ _ Hp) as (ys' & E & F).
      exists v. split; [assumption|]. exists ys'. split; assumption. }
    assert (Recv : forall t opt,
      match this with
      | Some v => match from_value t opt v with
                  | Ok x => extract ps this rs es idx (x :: acc) log
                  | Err c => (Err c, log)
                  | Crash s => (Crash s, log)
                  end
      | None =>
          match nth_error rs idx with
          | None => (Err EArgCount, log)
          | Some (r, l0) =>
              match r with
              | Ok v => match from_value t opt v with
                        | Ok x => extract ps this rs es (S idx) (x :: acc) (log ++ l0)
                        | Err c => (Err c, log ++ l0)
                        | Crash s => (Crash s, log ++ l0)
                        end
              | Err c => (Err c, log ++ l0)
              | Crash s => (Crash s, log ++ l0)
              end
          end
      end = (Ok xs, l) ->
      exists y, (has_vty t y = true \/ (opt = true /\ y = VNull)) /\
                exists ys', xs = rev (y :: acc) ++ ys' /\ Forall2 shape ps ys').
    { intros t opt Hp. destruct this as [v|]; [|exact (Pos t opt EArgCount Hp)].
      destruct (from_value t opt v) as [x| |] eqn:Ef; try discriminate.
      apply from_value_shape in Ef as [-> Hv]. destruct (IH _ _ _ _ _ _ _ _ Hp) as (ys' & E & F).
      exists v. split; [assumption|]. exists ys'. split; assumption. }
    destruct p as [t|t|t|t| | |].
    + destruct (Recv t false H) as (y & Hy & ys' & E & F). exists (y :: ys'). split.
      * rewrite E. cbn [rev]. now rewrite <- app_assoc.
      * constructor; [|assumption]. cbn. destruct Hy as [Hy|[Hy _]]; [assumption|discriminate].
    + destruct (Recv t true H) as (y & Hy & ys' & E & F). exists (y :: ys'). split.
      * rewrite E. cbn [rev]. now rewrite <- app_assoc.
      * constructor; [|assumption]. cbn. destruct Hy as [Hy|[_ Hy]]; auto.
    + destruct (Pos t false EArgCount H) as (y & Hy & ys' & E & F). exists (y :: ys'). split.
      * rewrite E. cbn [rev]. now rewrite <- app_assoc.
      * constructor; [|assumption]. cbn. destruct Hy as [Hy|[Hy _]]; [assumption|discriminate].
    + destruct (Pos t true EArgCount H) as (y & Hy & ys' & E & F). exists (y :: ys'). split.
      * rewrite E. cbn [rev]. now rewrite <- app_assoc.
      * constructor; [|assumption]. cbn. destruct Hy as [Hy|[_ Hy]]; auto.
    + (* XArgs *)
      change (extract (XArgs :: ps) this rs es idx acc log = (Ok xs, l)) in H.
      rewrite extract_xargs in H.
      destruct (all_args rs [] log) as [[vs lg]|e] eqn:Ea.
      * destruct (IH _ _ _ _ _ _ _ _ H) as (ys' & E & F). exists (VList (rev' vs) :: ys'). split.
        -- rewrite E. cbn [rev]. now rewrite <- app_assoc.
        -- constructor; [cbn; eauto|assumption].
      * exfalso. exact (all_args_inr _ _ _ _ Ea xs l H).
    + destruct (nth_error es idx) as [[]|]; try discriminate.
      destruct (IH _ _ _ _ _ _ _ _ H) as (ys' & E & F). exists (VStr x :: ys'). split.
      * rewrite E. cbn [rev]. now rewrite <- app_assoc.
      * constructor; [cbn; eauto|assumption].
    + destruct (nth_error es idx); try discriminate.
      destruct (IH _ _ _ _ _ _ _ _ H) as (ys' & E & F). exists (VNull :: ys'). split.
      * rewrite E. cbn [rev]. now rewrite <- app_assoc.
      * constructor; [reflexivity|assumption].
Qed.

Lemma extract_nocrash ps : forall this rs es idx acc log,
  Forall (fun r => nocrash (fst r)) rs ->
  nocrash (fst (extract ps this rs es idx acc log)).
Proof.
  induction ps as [|p ps IH]; intros this rs es idx acc log Hrs; cbn [extract]; [cbn; auto with nocrash|].
  assert (Hn : forall i r l0, nth_error rs i = Some (r, l0) -> nocrash r).
  { intros i r l0 Hi. apply nth_error_In in Hi. rewrite Forall_forall in Hrs. exact (Hrs _ Hi). }
  assert (Hfv : forall t opt v, nocrash (from_value t opt v)).
  { intros t opt v. unfold from_value. destruct (has_vty t v); [auto with nocrash|].
    destruct opt; [destruct v|]; auto with nocrash. }
  assert (Pos : forall t opt missing,
    nocrash (fst match nth_error rs idx with
                 | None => (Err missing, log)
                 | Some (r, l0) =>
                     match r with
                     | Ok v => match from_value t opt v with
                               | Ok x => extract ps this rs es (S idx) (x :: acc) (log ++ l0)
                               | Err c => (Err c, log ++ l0)
                               | Crash s => (Crash s, log ++ l0)
                               end
                     | Err c => (Err c, log ++ l0)
                     | Crash s => (Crash s, log ++ l0)
                     end
                 end)).
  { intros t opt missing. destruct (nth_error rs idx) as [[r l0]|] eqn:E; [|cbn; auto with nocrash].
    pose proof (Hn _ _ _ E) as Hr. destruct r as [v|c|s]; [|cbn; auto with nocrash|exfalso; exact (Hr s eq_refl)].
    pose proof (Hfv t opt v) as Hf. destruct (from_value t opt v) as [x|c|s];
      [apply IH; assumption|cbn; auto with nocrash|exfalso; exact (Hf s eq_refl)]. }
  assert (Recv : forall t opt,
    nocrash (fst match this with
                 | Some v => match from_value t opt v with
                             | Ok x => extract ps this rs es idx (x :: acc) log
                             | Err c => (Err c, log)
                             | Crash s => (Crash s, log)
                             end
                 | None =>
                     match nth_error rs idx with
                     | None => (Err EArgCount, log)
                     | Some (r, l0) =>
                         match r with
                         | Ok v => match from_value t opt v with
                                   | Ok x => extract ps this rs es (S idx) (x :: acc) (log ++ l0)
                                   | Err c => (Err c, log ++ l0)
                                   | Crash s => (Crash s, log ++ l0)
                                   end
                         | Err c => (Err c, log ++ l0)
                         | Crash s => (Crash s, log ++ l0)
                         end
                     end
                 end)).
  { intros t opt. destruct this as [v|]; [|apply (Pos t opt EArgCount)].
    pose proof (Hfv t opt v) as Hf. destruct (from_value t opt v) as [x|c|s];
      [apply IH; assumption|cbn; auto with nocrash|exfalso; exact (Hf s eq_refl)]. }
  destruct p as [t|t|t|t| | |]; try apply Recv; try apply Pos.
  - change (nocrash (fst (extract (XArgs :: ps) this rs es idx acc log))).
    rewrite extract_xargs.
    destruct (all_args rs [] log) as [[vs lg]|e] eqn:Ea; [apply IH; assumption|].
    clear -Ea Hrs. revert Ea. generalize (@nil value) as vs. generalize log as lg.
    induction rs as [|[r l0] rs IHr]; intros lg vs Ea; [discriminate|].
    inversion Hrs as [|? ? Hr Hrest]; subst. cbn [fst] in Hr. cbn [all_args] in Ea.
    destruct r as [v|c|s]; [exact (IHr Hrest _ _ Ea)|injection Ea as <-; cbn; auto with nocrash|exfalso; exact (Hr s eq_refl)].
  - destruct (nth_error es idx) as [[]|]; try (apply IH; assumption); cbn; auto with nocrash.
  - destruct (nth_error es idx); [apply IH; assumption|cbn; auto with nocrash].
Qed.

(** ** Function definitions whose extractor signature fits their body *)
Definition builtin_params (b : builtin) : list extractor :=
  match b with
  | FContains => [XThis TyValue; XArg TyValue]
  | FSize | FString | FDouble | FInt | FUint => [XThis TyValue]
  | FMax | FMin => [XArgs]
  | FStartsWith | FEndsWith | FMatches => [XThis TyStr; XArg TyStr]
  | FBytes | FDuration | FTimestamp => [XArg TyStr]
  | _ => [XThis TyTs]
  end.

Definition fdef_ok (d : fdef) : Prop :=
  match body d with
  | FBuiltin b => params d = builtin_params b
  | FHost _ => True
  end.

Definition wf_ctx (c : ctx) : Prop := Forall (fun nd => fdef_ok (snd nd)) (funs c).

Lemma default_ctx_wf : wf_ctx default_ctx.
Proof. unfold wf_ctx, default_ctx, default_funs; cbn [funs]. repeat constructor. Qed.

Lemma wf_define c x v : wf_ctx c -> wf_ctx (define c x v).
Proof. exact (fun H => H). Qed.
Lemma wf_push c : wf_ctx c -> wf_ctx (push c).
Proof. exact (fun H => H). Qed.
Lemma wf_add_host c f ps h : wf_ctx c -> wf_ctx (add_function c f {| params := ps; body := FHost h |}).
Proof. intros H. constructor; [exact I|exact H]. Qed.

Lemma get_function_ok c f d : wf_ctx c -> get_function c f = Some d -> fdef_ok d.
Proof.
  unfold wf_ctx, get_function. induction (funs c) as [|[n d'] l IH]; cbn [str_assoc]; [discriminate|].
  intros H. inversion H as [|? ? H1 H2]; subst. destruct (str_eqb f n); [intros [= <-]; exact H1|now apply IH].
Qed.

Lemma run_builtin_nocrash b ys : Forall2 shape (builtin_params b) ys -> nocrash (run_builtin b ys).
Proof.
  intros H. destruct b; cbn [builtin_params] in H;
    repeat match goal with
           | H : Forall2 _ (_ :: _) _ |- _ => inversion H; subst; clear H
           | H : Forall2 _ [] _ |- _ => inversion H; subst; clear H
           end;
    repeat match goal with
           | H : shape _ _ |- _ => cbn [shape] in H
           | H : exists _, _ |- _ => destruct H as [? ->]
           end;
    cbn [run_builtin];
    try (apply (b_nocrash _ VNull)); try apply b_nocrash; try apply pick_nocrash.
  all: repeat match goal with
              | H : has_vty TyStr ?v = true |- _ => destruct v; try discriminate H; clear H
              | H : has_vty TyTs ?v = true |- _ => destruct v; try discriminate H; clear H
              end; cbn [run_builtin]; crush.
  all: unfold ferr; auto with nocrash.
Qed.

Lemma run_host_nocrash h xs : nocrash (run_host h xs).
Proof.
  destruct h; cbn [run_host]; auto with nocrash.
  destruct xs as [|x xs]; [auto with nocrash|].
  assert (G : forall l (o : outcome value), nocrash o ->
              nocrash (fold_left (fun acc y => let! a := acc in v_add a y) l o)).
  { induction l as [|y l IH]; intros o Ho; cbn [fold_left]; [exact Ho|].
    apply IH. destruct o as [a|c|s]; cbn [obind]; [apply binop_nocrash|auto with nocrash|exfalso; exact (Ho s eq_refl)]. }
  apply G. auto with nocrash.
Qed.

Lemma call_fn_nocrash name d this rs es log0 : fdef_ok d ->
  Forall (fun r => nocrash (fst r)) rs ->
  nocrash (fst (call_fn name d this rs es log0)).
Proof.
  intros Hd Hrs. unfold call_fn.
  pose proof (extract_nocrash (params d) this rs es 0 [] log0 Hrs) as He.
  destruct (extract (params d) this rs es 0 [] log0) as [[xs|c|s] l] eqn:E; cbn [fst] in *;
    [|auto with nocrash|exfalso; exact (He s eq_refl)].
  unfold fdef_ok in Hd. destruct (body d) as [b|h]; cbn [fst].
  - destruct (extract_shape _ _ _ _ _ _ _ _ _ E) as (ys & -> & F). cbn [rev app].
    rewrite Hd in F. now apply run_builtin_nocrash.
  - apply run_host_nocrash.
Qed.

(** ** The evaluator *)
Fixpoint no_unspec (e : expr) : Prop :=
  match e with
  | EUnspec => False
  | ELit _ | EIdent _ => True
  | ECall _ t args =>
      match t with Some t' => no_unspec t' | None => True end /\
      (fix go (l : list expr) : Prop := match l with [] => True | a :: l' => no_unspec a /\ go l' end) args
  | ESelect o _ _ => no_unspec o
  | EList es => (fix go (l : list expr) : Prop := match l with [] => True | a :: l' => no_unspec a /\ go l' end) es
  | EMap es => (fix go (l : list (expr * expr)) : Prop :=
                  match l with [] => True | (k, v) :: l' => no_unspec k /\ no_unspec v /\ go l' end) es
  | EStruct _ fs => (fix go (l : list (str * expr)) : Prop :=
                       match l with [] => True | (_, v) :: l' => no_unspec v /\ go l' end) fs
  | EComp r _ _ i c s res => no_unspec r /\ no_unspec i /\ no_unspec c /\ no_unspec s /\ no_unspec res
  end.

Lemma rbind_nocrash r k : nocrash (fst r) -> (forall v, nocrash (fst (k v))) -> nocrash (fst (rbind r k)).
Proof.
  intros Hr Hk. destruct r as [[v|c|s] l]; cbn [rbind fst] in *;
    [|auto with nocrash|exact Hr]. specialize (Hk v). destruct (k v). exact Hk.
Qed.

Lemma call_dispatch_nocrash c f rt rs args : wf_ctx c ->
  (match rt with Some r => nocrash (fst r) | None => True end) ->
  Forall (fun r => nocrash (fst r)) rs ->
  nocrash (fst (call_dispatch c f rt rs args)).
Proof.
  intros Hc Ht Hrs.
  assert (G : nocrash (fst (call_general c f rt rs args))).
  { unfold call_general. destruct (get_function c f) as [d|] eqn:E; [|cbn; auto with nocrash].
    pose proof (get_function_ok c f d Hc E) as Hd.
    destruct rt as [[[tv|x|s] lt]|]; cbn [fst] in *;
      [now apply call_fn_nocrash|auto with nocrash|exact Ht|now apply call_fn_nocrash]. }
  unfold call_dispatch.
  destruct rs as [|r1 [|r2 [|r3 [|r4 rs']]]]; try exact G.
  - inversion Hrs as [|? ? H1 _]; subst.
    destruct (unop_of_name f); [|exact G]. apply rbind_nocrash; [exact H1|]. intros v. cbn. apply unop_nocrash.
  - inversion Hrs as [|? ? H1 Hr]; subst. inversion Hr as [|? ? H2 _]; subst.
    destruct (binop_of_name f) as [o|]; [|exact G].
    assert (S : forall o', o' <> BOr -> o' <> BAnd ->
                nocrash (fst (rbind r1 (fun l => rbind r2 (fun r => ret (strict_binop o' l r)))))).
    { intros o' N1 N2. apply rbind_nocrash; [exact H1|]. intros l. apply rbind_nocrash; [exact H2|].
      intros r. cbn. now apply strict_binop_nocrash. }
    destruct o; try (apply S; discriminate).
    + apply rbind_nocrash; [exact H1|]. intros l. destruct (to_bool l); [cbn; auto with nocrash|exact H2].
    + apply rbind_nocrash; [exact H1|]. intros l. destruct (to_bool l); [|cbn; auto with nocrash].
      apply rbind_nocrash; [exact H2|]. intros r. cbn. auto with nocrash.
  - inversion Hrs as [|? ? H1 Hr]; subst. inversion Hr as [|? ? H2 Hr']; subst.
    inversion Hr' as [|? ? H3 _]; subst.
    destruct (str_eqb f op_conditional); [|exact G].
    apply rbind_nocrash; [exact H1|]. intros vc. destruct (to_bool vc); assumption.
Qed.

Lemma list_go_nocrash ev l : Forall (fun a => nocrash (fst (ev a))) l ->
  forall acc log, nocrash (fst (list_go ev l acc log)).
Proof.
  induction 1 as [|a l Ha _ IH]; intros acc log; cbn [list_go]; [cbn; auto with nocrash|].
  destruct (ev a) as [[v|x|s] la]; cbn [fst] in *; [apply IH|auto with nocrash|exact Ha].
Qed.

Lemma map_go_nocrash ev l :
  Forall (fun kv => nocrash (fst (ev (fst kv))) /\ nocrash (fst (ev (snd kv)))) l ->
  forall m log, nocrash (fst (map_go ev l m log)).
Proof.
  induction 1 as [|[k v] l [Hk Hv] _ IH]; intros m log; cbn [map_go]; [cbn; auto with nocrash|].
  cbn [fst snd] in *. destruct (ev k) as [[kv|x|s] lk]; cbn [fst] in *; [|auto with nocrash|exact Hk].
  destruct (key_of_value kv); [|cbn; auto with nocrash].
  destruct (ev v) as [[vv|x|s] lv]; cbn [fst] in *; [apply IH|auto with nocrash|exact Hv].
Qed.

Lemma comp_loop_nocrash iv av cond step res :
  (forall c, wf_ctx c -> nocrash (fst (eval c cond))) ->
  (forall c, wf_ctx c -> nocrash (fst (eval c step))) ->
  (forall c, wf_ctx c -> nocrash (fst (eval c res))) ->
  forall its c log, wf_ctx c -> nocrash (fst (comp_loop eval iv av cond step res its c log)).
Proof.
  intros Hc Hs Hr. induction its as [|it rest IH]; intros c log Hw; cbn [comp_loop].
  - specialize (Hr c Hw). destruct (eval c res). exact Hr.
  - specialize (Hc c Hw). destruct (eval c cond) as [[vc|x|s] lc]; cbn [fst] in *; [|auto with nocrash|exact Hc].
    destruct (to_bool vc).
    + specialize (Hs (define c iv it) Hw).
      destruct (eval (define c iv it) step) as [[va|x|s] ls]; cbn [fst] in *; [apply IH; exact Hw|auto with nocrash|exact Hs].
    + specialize (Hr c Hw). destruct (eval c res). exact Hr.
Qed.

Theorem eval_nocrash e : forall c, wf_ctx c -> no_unspec e -> nocrash (fst (eval c e)).
Proof.
  induction e using expr_ind'; intros c Hw Hn.
  - destruct Hn.
  - cbn. auto with nocrash.
  - rewrite eval_ident. cbn. apply lookup_nocrash.
  - rewrite eval_call. cbn [no_unspec] in Hn. destruct Hn as [Ht Ha].
    apply call_dispatch_nocrash; [exact Hw| |].
    + destruct target as [t|]; cbn [option_map]; [|exact I]. now apply (H t).
    + clear Ht H. induction args as [|a args IHa]; cbn [map]; [constructor|].
      destruct Ha as [Ha1 Ha2]. inversion H0 as [|? ? P1 P2]; subst.
      constructor; [now apply P1|now apply IHa].
  - rewrite eval_select. apply rbind_nocrash; [now apply IHe|].
    intros v. destruct t; cbn; [auto with nocrash|apply member_nocrash].
  - rewrite eval_list. apply list_go_nocrash. cbn [no_unspec] in Hn.
    induction es as [|a es IHes]; [constructor|]. destruct Hn as [Hn1 Hn2].
    inversion H as [|? ? P1 P2]; subst. constructor; [now apply P1|now apply IHes].
  - rewrite eval_map. apply map_go_nocrash. cbn [no_unspec] in Hn.
    induction es as [|[k v] es IHes]; [constructor|]. destruct Hn as (Hn1 & Hn2 & Hn3).
    inversion H as [|? ? [P1 P1'] P2]; subst. cbn [fst snd] in *.
    constructor; [split; [now apply P1|now apply P1']|now apply IHes].
  - cbn. auto with nocrash.
  - rewrite eval_comp. cbn [no_unspec] in Hn. destruct Hn as (N1 & N2 & N3 & N4 & N5).
    apply rbind_nocrash; [now apply IHe2|]. intros vi.
    apply rbind_nocrash; [now apply IHe1|]. intros vr.
    destruct (range_items vr) as [items|]; [|cbn; auto with nocrash].
    apply comp_loop_nocrash; auto.
Qed.
