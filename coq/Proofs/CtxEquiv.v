(** Evaluation depends on the context only through its function registry and its lookup
    function (weakening / shadowing lemma). *)
From Coq Require Import String.
From Cel.Model Require Import Eval.
From Cel.Proofs Require Import EvalBase.

Definition ctx_equiv (c1 c2 : ctx) : Prop :=
  funs c1 = funs c2 /\ forall x, lookup c1 x = lookup c2 x.

Lemma ctx_equiv_refl c : ctx_equiv c c.
Proof. split; reflexivity. Qed.

Lemma lookup_scopes_define_same c x v :
  lookup (define c x v) x = Ok v.
Proof.
  unfold lookup, define; cbn [scopes]. destruct (scopes c) as [|s ss]; cbn [lookup_scopes str_assoc].
  - assert (E : str_eqb x x = true) by (induction x as [|a x IH]; cbn; [reflexivity|now rewrite N.eqb_refl, IH]).
    now rewrite E.
  - assert (E : str_eqb x x = true) by (induction x as [|a x IH]; cbn; [reflexivity|now rewrite N.eqb_refl, IH]).
    now rewrite E.
Qed.

Lemma lookup_define_other c x v y : str_eqb y x = false ->
  lookup (define c x v) y = lookup c y.
Proof.
  intros E. unfold lookup, define; cbn [scopes].
  destruct (scopes c) as [|s ss]; cbn [lookup_scopes str_assoc]; rewrite E; reflexivity.
Qed.

Lemma lookup_define c x v y :
  lookup (define c x v) y = if str_eqb y x then Ok v else lookup c y.
Proof.
  destruct (str_eqb y x) eqn:E.
  - assert (y = x).
    { clear -E. revert x E; induction y as [|a y IH]; intros [|b x]; cbn; try discriminate; auto.
      rewrite andb_true_iff, N.eqb_eq. intros [-> H]. f_equal. auto. }
    subst. apply lookup_scopes_define_same.
  - now apply lookup_define_other.
Qed.

Lemma lookup_push c y : lookup (push c) y = lookup c y.
Proof. reflexivity. Qed.

Lemma equiv_define c1 c2 x v : ctx_equiv c1 c2 -> ctx_equiv (define c1 x v) (define c2 x v).
Proof.
  intros [Hf Hl]. split; [exact Hf|]. intros y. rewrite !lookup_define. now rewrite Hl.
Qed.

Lemma equiv_push c1 c2 : ctx_equiv c1 c2 -> ctx_equiv (push c1) (push c2).
Proof. intros [Hf Hl]. split; [exact Hf|]. intros y. rewrite !lookup_push. apply Hl. Qed.

Lemma call_dispatch_equiv c1 c2 f rt rs args : funs c1 = funs c2 ->
  call_dispatch c1 f rt rs args = call_dispatch c2 f rt rs args.
Proof.
  intros Hf. unfold call_dispatch, call_general, get_function. now rewrite Hf.
Qed.

Lemma list_go_ext ev1 ev2 l : Forall (fun a => ev1 a = ev2 a) l ->
  forall acc log, list_go ev1 l acc log = list_go ev2 l acc log.
Proof.
  induction 1 as [|a l Ha _ IH]; intros acc log; cbn [list_go]; [reflexivity|].
  rewrite Ha. destruct (ev2 a) as [[v|x|s] la]; auto.
Qed.

Lemma map_go_ext ev1 ev2 l :
  Forall (fun kv => ev1 (fst kv) = ev2 (fst kv) /\ ev1 (snd kv) = ev2 (snd kv)) l ->
  forall m log, map_go ev1 l m log = map_go ev2 l m log.
Proof.
  induction 1 as [|[k v] l [Hk Hv] _ IH]; intros m log; cbn [map_go]; [reflexivity|].
  cbn [fst snd] in *. rewrite Hk. destruct (ev2 k) as [[kv|x|s] lk]; auto.
  destruct (key_of_value kv); auto. rewrite Hv. destruct (ev2 v) as [[vv|x|s] lv]; auto.
Qed.

Lemma comp_loop_equiv iv av cond step res :
  (forall c1 c2, ctx_equiv c1 c2 -> eval c1 cond = eval c2 cond) ->
  (forall c1 c2, ctx_equiv c1 c2 -> eval c1 step = eval c2 step) ->
  (forall c1 c2, ctx_equiv c1 c2 -> eval c1 res = eval c2 res) ->
  forall its c1 c2 log, ctx_equiv c1 c2 ->
  comp_loop eval iv av cond step res its c1 log = comp_loop eval iv av cond step res its c2 log.
Proof.
  intros Hc Hs Hr. induction its as [|it rest IH]; intros c1 c2 log E; cbn [comp_loop].
  - now rewrite (Hr c1 c2 E).
  - rewrite (Hc c1 c2 E). destruct (eval c2 cond) as [[vc|x|s] lc]; auto.
    destruct (to_bool vc).
    + rewrite (Hs (define c1 iv it) (define c2 iv it)) by now apply equiv_define.
      destruct (eval (define c2 iv it) step) as [[va|x|s] ls]; auto.
      apply IH. now repeat apply equiv_define.
    + now rewrite (Hr c1 c2 E).
Qed.

Theorem eval_equiv e : forall c1 c2, ctx_equiv c1 c2 -> eval c1 e = eval c2 e.
Proof.
  induction e using expr_ind'; intros c1 c2 E; pose proof E as [Hf Hl].
  - reflexivity.
  - reflexivity.
  - rewrite !eval_ident. now rewrite Hl.
  - rewrite !eval_call.
    assert (Ha : map (eval c1) args = map (eval c2) args).
    { apply map_ext_in. intros a Ha. rewrite Forall_forall in H0. now apply H0. }
    assert (Ht : option_map (eval c1) target = option_map (eval c2) target).
    { destruct target as [t|]; cbn; [|reflexivity]. f_equal. now apply (H t). }
    rewrite Ha, Ht. now apply call_dispatch_equiv.
  - rewrite !eval_select. rewrite (IHe c1 c2 E).
    destruct (eval c2 e) as [[v|x|s] l]; cbn [rbind]; auto.
    destruct t; [reflexivity|]. unfold member, has_function, get_function. now rewrite Hf.
  - rewrite !eval_list. apply list_go_ext. eapply Forall_impl; [|exact H]. cbn. auto.
  - rewrite !eval_map. apply map_go_ext. eapply Forall_impl; [|exact H]. cbn.
    intros [k v] [H1 H2]. split; auto.
  - reflexivity.
  - rewrite !eval_comp. rewrite (IHe2 c1 c2 E).
    destruct (eval c2 e2) as [[vi|x|s] li]; cbn [rbind]; auto.
    rewrite (IHe1 c1 c2 E). destruct (eval c2 e1) as [[vr|x|s] lr]; cbn [rbind]; auto.
    destruct (range_items vr) as [items|]; [|reflexivity].
    rewrite (comp_loop_equiv iv av e3 e4 e5 IHe3 IHe4 IHe5 items
               (define (push c1) av vi) (define (push c2) av vi) []); [reflexivity|].
    apply equiv_define. now apply equiv_push.
Qed.
