(** C09: [==] is symmetric on all values (maps holding each key once, as a HashMap does), and
    therefore [!=] is too.  For numbers of different kinds both directions go through the same
    exact comparison; lists compare element by element; for maps the proof is the counting
    argument: same size, keys pairwise distinct, every entry of the left found in the right -
    then every entry of the right is found in the left. *)
From Coq Require Import String Ascii.
From Cel.Model Require Import Compare.
From Cel.Proofs Require Import CompareProofs SerdeProofs JsonProofs.
From Coq Require Import Lia ZArith.
Open Scope Z_scope.

(** Every map inside the value holds each key once. *)
Fixpoint nodup_maps (v : value) : Prop :=
  match v with
  | VList l => (fix go (l : list value) : Prop :=
                  match l with [] => True | x :: l' => nodup_maps x /\ go l' end) l
  | VMap m => NoDup (map fst m) /\
              (fix go (m : list (key * value)) : Prop :=
                 match m with [] => True | (_, x) :: m' => nodup_maps x /\ go m' end) m
  | VFun _ (Some x) => nodup_maps x
  | _ => True
  end.

Lemma nodup_list l : nodup_maps (VList l) <-> Forall nodup_maps l.
Proof.
  cbn [nodup_maps]. induction l as [|x l IH].
  - split; [constructor|trivial].
  - rewrite IH. split; [intros [H1 H2]; constructor; assumption|inversion 1; auto].
Qed.

Lemma nodup_map m : nodup_maps (VMap m) <-> NoDup (map fst m) /\ Forall (fun kv => nodup_maps (snd kv)) m.
Proof.
  cbn [nodup_maps].
  assert (G : (fix go (m : list (key * value)) : Prop :=
                 match m with [] => True | (_, x) :: m' => nodup_maps x /\ go m' end) m
              <-> Forall (fun kv => nodup_maps (snd kv)) m).
  { induction m as [|[k x] m IH].
    - split; [constructor|trivial].
    - rewrite IH. split; [intros [H1 H2]; constructor; assumption|inversion 1; auto]. }
  rewrite G. tauto.
Qed.

Lemma feq_sym x y : feq x y = feq y x.
Proof. unfold feq. rewrite (fcmp_antisym x y). destruct (fcmp x y) as [[]|]; reflexivity. Qed.

Lemma str_eqb_sym a b : str_eqb a b = str_eqb b a.
Proof.
  destruct (str_eqb a b) eqn:E1, (str_eqb b a) eqn:E2; try reflexivity.
  - apply str_eqb_eq in E1; subst. assert (H : str_eqb b b = true) by now apply str_eqb_eq. congruence.
  - apply str_eqb_eq in E2; subst. assert (H : str_eqb a a = true) by now apply str_eqb_eq. congruence.
Qed.

Lemma list_eqb_N_sym a b : list_eqb N.eqb a b = list_eqb N.eqb b a.
Proof.
  destruct (list_eqb N.eqb a b) eqn:E1, (list_eqb N.eqb b a) eqn:E2; try reflexivity.
  - apply list_eqb_N_eq in E1; subst. assert (H : list_eqb N.eqb b b = true) by now apply list_eqb_N_eq. congruence.
  - apply list_eqb_N_eq in E2; subst. assert (H : list_eqb N.eqb a a = true) by now apply list_eqb_N_eq. congruence.
Qed.

Lemma bool_eqb_sym a b : Bool.eqb a b = Bool.eqb b a.
Proof. destruct a, b; reflexivity. Qed.

(** association lists with pairwise distinct keys *)
Lemma assoc_get_in {B} k (m : list (key * B)) v : assoc_get k m = Some v -> In (k, v) m.
Proof.
  induction m as [|[k' v'] m IH]; cbn [assoc_get]; [discriminate|].
  destruct (key_eqb k k') eqn:E.
  - intros [= ->]. apply key_eqb_eq in E; subst. now left.
  - intros H. right. auto.
Qed.

Lemma in_assoc_get {B} k (m : list (key * B)) v : NoDup (map fst m) -> In (k, v) m -> assoc_get k m = Some v.
Proof.
  induction m as [|[k' v'] m IH]; cbn [assoc_get map fst]; [intros _ []|].
  intros Hnd [H|H].
  - injection H as -> ->. now rewrite key_eqb_refl.
  - inversion Hnd as [|? ? Hni Hnd']; subst.
    destruct (key_eqb k k') eqn:E.
    + apply key_eqb_eq in E; subst. exfalso. apply Hni. change k' with (fst (k', v)). now apply in_map.
    + auto.
Qed.

Definition sym_at (v : value) : Prop :=
  forall b, nodup_maps v -> nodup_maps b -> v_eq v b = v_eq b v.

(** one direction of the map case, with symmetry available for the entries of either side *)
Lemma map_eq_flip (a b : list (key * value)) :
  NoDup (map fst a) -> NoDup (map fst b) ->
  (forall k v w, In (k, v) a -> In (k, w) b -> v_eq v w = true -> v_eq w v = true) ->
  v_eq (VMap a) (VMap b) = true -> v_eq (VMap b) (VMap a) = true.
Proof.
  intros Na Nb Hs H. apply v_eq_map in H. destruct H as [Hlen Hall]. apply v_eq_map.
  split; [now symmetry|].
  rewrite Forall_forall in Hall.
  assert (Hincl : incl (map fst a) (map fst b)).
  { intros k Hk. apply in_map_iff in Hk. destruct Hk as [[k' v] [<- Hin]].
    destruct (Hall _ Hin) as [v' [Hg _]]. cbn [fst] in Hg |- *. apply assoc_get_in in Hg.
    apply in_map_iff. exists (k', v'). split; [reflexivity|exact Hg]. }
  assert (Hincl' : incl (map fst b) (map fst a)).
  { apply NoDup_length_incl; [exact Na| |exact Hincl]. rewrite !map_length. rewrite Hlen. apply le_n. }
  apply Forall_forall. intros [k w] Hin. cbn [fst snd].
  assert (Hk : In k (map fst a)).
  { apply Hincl'. apply in_map_iff. exists (k, w). split; [reflexivity|exact Hin]. }
  apply in_map_iff in Hk. destruct Hk as [[k' v] [Hkk Hina]]. cbn in Hkk; subst k'.
  exists v. split; [now apply in_assoc_get|].
  destruct (Hall _ Hina) as [v' [Hg He]]. cbn [fst snd] in Hg, He.
  rewrite (in_assoc_get k b w Nb Hin) in Hg. injection Hg as <-.
  eapply Hs; eassumption.
Qed.

Lemma v_eq_sym_all : forall a, sym_at a.
Proof.
  induction a using value_ind'; unfold sym_at.
  - (* lists *)
    intros b Ha Hb. destruct b; try reflexivity.
    apply nodup_list in Ha. apply nodup_list in Hb. rename l0 into lb. cbn [v_eq].
    revert lb Hb. induction l as [|x l IH]; intros [|y lb] Hb; try reflexivity.
    inversion H as [|? ? Hx Hl]; subst. inversion Ha as [|? ? Hax Hal]; subst.
    inversion Hb as [|? ? Hby Hbl]; subst.
    rewrite (Hx y Hax Hby). f_equal. now apply IH.
  - (* maps *)
    intros b Ha Hb. destruct b; try reflexivity. rename m0 into mb.
    apply nodup_map in Ha. destruct Ha as [Na Va]. apply nodup_map in Hb. destruct Hb as [Nb Vb].
    rewrite Forall_forall in H, Va, Vb.
    assert (S1 : forall k v w, In (k, v) m -> In (k, w) mb -> v_eq v w = true -> v_eq w v = true).
    { intros k v w Hi Hj He. pose proof (H _ Hi w (Va _ Hi) (Vb _ Hj)) as E. cbn [snd] in E.
      rewrite <- E. exact He. }
    assert (S2 : forall k w v, In (k, w) mb -> In (k, v) m -> v_eq w v = true -> v_eq v w = true).
    { intros k w v Hj Hi He. pose proof (H _ Hi w (Va _ Hi) (Vb _ Hj)) as E. cbn [snd] in E.
      rewrite E. exact He. }
    destruct (v_eq (VMap m) (VMap mb)) eqn:E1, (v_eq (VMap mb) (VMap m)) eqn:E2; try reflexivity.
    + rewrite (map_eq_flip m mb Na Nb S1 E1) in E2. discriminate.
    + rewrite (map_eq_flip mb m Nb Na S2 E2) in E1. discriminate.
  - (* function values *)
    intros b Ha Hb. destruct b as [| |n' r'| | | | | | | | |]; try reflexivity. cbn [v_eq]. rewrite str_eqb_sym. f_equal.
    destruct r as [x|], r' as [y|]; try reflexivity.
    apply (H x eq_refl y); assumption.
  - (* leaves *)
    intros b _ _. destruct a; try contradiction; destruct b; cbn [v_eq]; try reflexivity;
      try apply Z.eqb_sym; try apply feq_sym; try apply str_eqb_sym; try apply list_eqb_N_sym;
      try apply bool_eqb_sym.
Qed.

Theorem v_eq_sym a b : nodup_maps a -> nodup_maps b -> v_eq a b = v_eq b a.
Proof. apply v_eq_sym_all. Qed.

Corollary v_ne_sym a b : nodup_maps a -> nodup_maps b -> v_ne a b = v_ne b a.
Proof. intros Ha Hb. unfold v_ne. now rewrite v_eq_sym. Qed.

(** The hypothesis is needed: a list of pairs that repeats a key is "equal" to a shorter... no -
    to a map of the same length in one direction only. *)
Lemma v_eq_sym_needs_nodup :
  exists a b, v_eq a b = true /\ v_eq b a = false.
Proof.
  exists (VMap [(KInt 1, VInt 0); (KInt 1, VInt 0)]), (VMap [(KInt 1, VInt 0); (KInt 2, VInt 0)]).
  split; reflexivity.
Qed.
