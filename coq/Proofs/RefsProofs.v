(** C19: reported references cover every name a program can look up. *)
From Coq Require Import String.
From Cel.Model Require Import Eval Refs.
From Cel.Proofs Require Import EvalBase NoCrash.
From Coq Require Import Lia.

(** [okish Ge o]: if [o] is an error, its class satisfies [Ge]. *)
Definition okish {A} (Ge : errclass -> Prop) (o : outcome A) : Prop :=
  match o with Err c => Ge c | _ => True end.

(** Error classes other than "undeclared reference". *)
Definition plain (c : errclass) : Prop := match c with EUndeclared _ => False | _ => True end.

Lemma okish_weaken {A} (G1 G2 : errclass -> Prop) (o : outcome A) :
  (forall c, G1 c -> G2 c) -> okish G1 o -> okish G2 o.
Proof. destruct o; cbn; auto. Qed.

(** ** The primitive operations never produce "undeclared reference" *)
Ltac pl :=
  repeat match goal with
         | |- okish plain (if ?b then _ else _) => destruct b
         | |- okish plain (match ?x with _ => _ end) => destruct x
         end; cbn; auto.

Lemma chk_plain z o : okish plain (chk_i64 z) /\ okish plain (chk_u64 z) /\ okish plain (chk_dur z) /\ okish plain (chk_ts z o).
Proof. unfold chk_i64, chk_u64, chk_dur, chk_ts. repeat split; pl. Qed.

Lemma arith_plain a b :
  okish plain (v_add a b) /\ okish plain (v_sub a b) /\ okish plain (v_mul a b) /\
  okish plain (v_div a b) /\ okish plain (v_rem a b) /\ okish plain (v_neg a).
Proof.
  repeat split; destruct a, b; cbn [v_add v_sub v_mul v_div v_rem v_neg];
    unfold chk_i64, chk_u64, chk_dur, chk_ts; pl.
Qed.

Lemma strict_binop_plain o a b : okish plain (strict_binop o a b).
Proof.
  destruct o; cbn [strict_binop]; try (cbn; exact I); try apply arith_plain.
  all: try (unfold v_lt, v_le, v_gt, v_ge; pl).
  - destruct a, b; cbn [v_in]; pl.
  - destruct a, b; cbn [v_index]; pl.
Qed.

Lemma unop_plain o v : okish plain (v_unop o v).
Proof. destruct o; cbn [v_unop]; try exact I; [apply (arith_plain v VNull)|destruct v; exact I]. Qed.

Lemma member_plain c v f : okish plain (member c v f).
Proof. unfold member. pl. Qed.

Lemma fold_pick_plain k l : forall acc, okish plain (fold_pick k acc l).
Proof. induction l as [|x l IH]; intros acc; cbn [fold_pick]; [exact I|]. destruct (v_cmp acc x); [apply IH|exact I]. Qed.

Lemma b_plain v a : okish plain (b_size v) /\ okish plain (b_contains v a) /\ okish plain (b_string v) /\
                      okish plain (b_int v) /\ okish plain (b_uint v) /\ okish plain (b_double v).
Proof.
  unfold b_size, b_contains, b_string, b_int, b_uint, b_double, ferr.
  repeat split; destruct v; pl.
Qed.

Lemma pick_plain k args : okish plain (v_pick k args).
Proof.
  unfold v_pick, pick_list.
  destruct args as [|a [|b r]]; try exact I.
  - destruct a; try exact I. destruct l; [exact I|apply fold_pick_plain].
  - destruct a; apply fold_pick_plain.
Qed.

Lemma run_builtin_plain b xs : okish plain (run_builtin b xs).
Proof.
  destruct xs as [|x1 [|x2 [|x3 xs]]]; destruct b; cbn [run_builtin]; try exact I;
    try apply b_plain; try (apply (b_plain x1 VNull));
    try (destruct x1; try exact I; apply pick_plain);
    try (destruct x1; try exact I; destruct x2; try exact I; pl).
  all: try (destruct x1; try exact I; unfold ferr; pl).
  all: try exact VNull.
Qed.

Lemma run_host_plain h xs : okish plain (run_host h xs).
Proof.
  destruct h; cbn [run_host]; try exact I.
  destruct xs as [|x xs]; [exact I|].
  assert (G : forall l (o : outcome value), okish plain o ->
              okish plain (fold_left (fun acc y => let! a := acc in v_add a y) l o)).
  { induction l as [|y l IH]; intros o Ho; cbn [fold_left]; [exact Ho|].
    apply IH. destruct o as [a|c|s]; cbn [obind]; [apply arith_plain|exact Ho|exact I]. }
  apply G. exact I.
Qed.

(** ** Extractors propagate only the errors of the argument results *)
Lemma extract_okish (Ge : errclass -> Prop) ps :
  Ge EArgCount -> Ge EInvalid ->
  forall this rs es idx acc log,
  Forall (fun r => okish Ge (fst r)) rs ->
  okish Ge (fst (extract ps this rs es idx acc log)).
Proof.
  intros G1 G2. induction ps as [|p ps IH]; intros this rs es idx acc log Hrs; cbn [extract]; [exact I|].
  assert (Hn : forall i r l0, nth_error rs i = Some (r, l0) -> okish Ge r).
  { intros i r l0 Hi. apply nth_error_In in Hi. rewrite Forall_forall in Hrs. exact (Hrs _ Hi). }
  assert (Hfv : forall t opt v, okish Ge (from_value t opt v)).
  { intros t opt v. unfold from_value. destruct (has_vty t v); [exact I|].
    destruct opt; [destruct v|]; cbn; auto. }
  assert (Pos : forall t opt,
    okish Ge (fst match nth_error rs idx with
                  | None => (Err EArgCount, log)
                  | Some (r, l0) =>
                      match r with
                      | Ok v => match from_value t opt v with
                                | Ok x => extract ps this rs es (S idx) (x :: acc) (log ++ l0)
                                | Err c => (Err c, log ++ l0)
                                | Crash s => (Crash s, log ++ l0)
                                end
                      | Err c => (Err c, log ++ l0)
                      | Crash s => (Crash s, log ++ l0)
                      end
                  end)).
  { intros t opt. destruct (nth_error rs idx) as [[r l0]|] eqn:E; [|exact G1].
    pose proof (Hn _ _ _ E) as Hr. destruct r as [v|c|s]; [|exact Hr|exact I].
    pose proof (Hfv t opt v) as Hf. destruct (from_value t opt v) as [x|c|s]; [apply IH; assumption|exact Hf|exact I]. }
  assert (Recv : forall t opt,
    okish Ge (fst match this with
                  | Some v => match from_value t opt v with
                              | Ok x => extract ps this rs es idx (x :: acc) log
                              | Err c => (Err c, log)
                              | Crash s => (Crash s, log)
                              end
                  | None =>
                      match nth_error rs idx with
                      | None => (Err EArgCount, log)
                      | Some (r, l0) =>
                          match r with
                          | Ok v => match from_value t opt v with
                                    | Ok x => extract ps this rs es (S idx) (x :: acc) (log ++ l0)
                                    | Err c => (Err c, log ++ l0)
                                    | Crash s => (Crash s, log ++ l0)
                                    end
                          | Err c => (Err c, log ++ l0)
                          | Crash s => (Crash s, log ++ l0)
                          end
                      end
                  end)).
  { intros t opt. destruct this as [v|]; [|apply Pos].
    pose proof (Hfv t opt v) as Hf. destruct (from_value t opt v) as [x|c|s]; [apply IH; assumption|exact Hf|exact I]. }
  destruct p as [t|t|t|t| | |]; try apply Recv; try apply Pos.
  - change (okish Ge (fst (extract (XArgs :: ps) this rs es idx acc log))).
    rewrite extract_xargs.
    destruct (all_args rs [] log) as [[vs lg]|e] eqn:Ea; [apply IH; assumption|].
    clear -Ea Hrs. revert Ea. generalize (@nil value) as vs. generalize log as lg.
    induction rs as [|[r l0] rs IHr]; intros lg vs Ea; [discriminate|].
    inversion Hrs as [|? ? Hr Hrest]; subst. cbn [fst] in Hr. cbn [all_args] in Ea.
    destruct r as [v|c|s]; [exact (IHr Hrest _ _ Ea)|injection Ea as <-; exact Hr|injection Ea as <-; exact I].
  - destruct (nth_error es idx) as [[]|]; try (apply IH; assumption); cbn; auto.
  - destruct (nth_error es idx); [apply IH; assumption|exact G1].
Qed.

Lemma call_fn_okish (Ge : errclass -> Prop) name d this rs es log0 :
  (forall c, plain c -> Ge c) ->
  Forall (fun r => okish Ge (fst r)) rs ->
  okish Ge (fst (call_fn name d this rs es log0)).
Proof.
  intros Hp Hrs. unfold call_fn.
  pose proof (extract_okish Ge (params d) (Hp EArgCount I) (Hp EInvalid I) this rs es 0 [] log0 Hrs) as He.
  destruct (extract (params d) this rs es 0 [] log0) as [[xs|c|s] l]; cbn [fst] in *; [|exact He|exact I].
  destruct (body d) as [b|h]; cbn [fst].
  - eapply okish_weaken; [exact Hp|apply run_builtin_plain].
  - eapply okish_weaken; [exact Hp|apply run_host_plain].
Qed.

Lemma rbind_okish (Ge : errclass -> Prop) r k : okish Ge (fst r) -> (forall v, okish Ge (fst (k v))) -> okish Ge (fst (rbind r k)).
Proof.
  intros Hr Hk. destruct r as [[v|c|s] l]; cbn [rbind fst] in *; [|exact Hr|exact I].
  specialize (Hk v). destruct (k v). exact Hk.
Qed.

Lemma call_dispatch_okish (Ge : errclass -> Prop) c f rt rs args :
  (forall x, plain x -> Ge x) -> Ge (EUndeclared f) ->
  (match rt with Some r => okish Ge (fst r) | None => True end) ->
  Forall (fun r => okish Ge (fst r)) rs ->
  okish Ge (fst (call_dispatch c f rt rs args)).
Proof.
  intros Hp Hf Ht Hrs.
  assert (G : okish Ge (fst (call_general c f rt rs args))).
  { unfold call_general. destruct (get_function c f) as [d|]; [|exact Hf].
    destruct rt as [[[tv|x|s] lt]|]; cbn [fst] in *;
      [now apply call_fn_okish|exact Ht|exact I|now apply call_fn_okish]. }
  assert (W : forall A (o : outcome A), okish plain o -> okish Ge o) by (intros; eapply okish_weaken; eauto).
  unfold call_dispatch.
  destruct rs as [|r1 [|r2 [|r3 [|r4 rs']]]]; try exact G.
  - inversion Hrs as [|? ? H1 _]; subst.
    destruct (unop_of_name f); [|exact G]. apply rbind_okish; [exact H1|]. intros v. cbn. apply W, unop_plain.
  - inversion Hrs as [|? ? H1 Hr]; subst. inversion Hr as [|? ? H2 _]; subst.
    destruct (binop_of_name f) as [o|]; [|exact G].
    assert (S : forall o', okish Ge (fst (rbind r1 (fun l => rbind r2 (fun r => ret (strict_binop o' l r)))))).
    { intros o'. apply rbind_okish; [exact H1|]. intros l. apply rbind_okish; [exact H2|].
      intros r. cbn. apply W, strict_binop_plain. }
    destruct o; try apply S.
    + apply rbind_okish; [exact H1|]. intros l. destruct (to_bool l); [exact I|exact H2].
    + apply rbind_okish; [exact H1|]. intros l. destruct (to_bool l); [|exact I].
      apply rbind_okish; [exact H2|]. intros r. exact I.
  - inversion Hrs as [|? ? H1 Hr]; subst. inversion Hr as [|? ? H2 Hr']; subst.
    inversion Hr' as [|? ? H3 _]; subst.
    destruct (str_eqb f op_conditional); [|exact G].
    apply rbind_okish; [exact H1|]. intros vc. destruct (to_bool vc); assumption.
Qed.

Lemma list_go_okish (Ge : errclass -> Prop) ev l : Forall (fun a => okish Ge (fst (ev a))) l ->
  forall acc log, okish Ge (fst (list_go ev l acc log)).
Proof.
  induction 1 as [|a l Ha _ IH]; intros acc log; cbn [list_go]; [exact I|].
  destruct (ev a) as [[v|x|s] la]; cbn [fst] in *; [apply IH|exact Ha|exact I].
Qed.

Lemma map_go_okish (Ge : errclass -> Prop) ev l : Ge EInvalid ->
  Forall (fun kv => okish Ge (fst (ev (fst kv))) /\ okish Ge (fst (ev (snd kv)))) l ->
  forall m log, okish Ge (fst (map_go ev l m log)).
Proof.
  intros Gi. induction 1 as [|[k v] l [Hk Hv] _ IH]; intros m log; cbn [map_go]; [exact I|].
  cbn [fst snd] in *. destruct (ev k) as [[kv|x|s] lk]; cbn [fst] in *; [|exact Hk|exact I].
  destruct (key_of_value kv); [|exact Gi].
  destruct (ev v) as [[vv|x|s] lv]; cbn [fst] in *; [apply IH|exact Hv|exact I].
Qed.

Lemma comp_loop_okish (Ge : errclass -> Prop) iv av cond step res :
  (forall c, okish Ge (fst (eval c cond))) ->
  (forall c, okish Ge (fst (eval c step))) ->
  (forall c, okish Ge (fst (eval c res))) ->
  forall its c log, okish Ge (fst (comp_loop eval iv av cond step res its c log)).
Proof.
  intros Hc Hs Hr. induction its as [|it rest IH]; intros c log; cbn [comp_loop].
  - specialize (Hr c). destruct (eval c res). exact Hr.
  - specialize (Hc c). destruct (eval c cond) as [[vc|x|s] lc]; cbn [fst] in *; [|exact Hc|exact I].
    destruct (to_bool vc).
    + specialize (Hs (define c iv it)).
      destruct (eval (define c iv it) step) as [[va|x|s] ls]; cbn [fst] in *; [apply IH|exact Hs|exact I].
    + specialize (Hr c). destruct (eval c res). exact Hr.
Qed.

(** ** Soundness of the reported references *)
Definition reported (e : expr) (n : str) : Prop :=
  starts_at n = true \/ In n (ref_vars e) \/ In n (ref_funs e).
Definition Gref (e : expr) (c : errclass) : Prop := forall n, c = EUndeclared n -> reported e n.

Lemma Gref_plain e x : plain x -> Gref e x.
Proof. destruct x; cbn; try contradiction; intros _ n; discriminate. Qed.

Lemma In_go_vars (a : expr) args n : In a args -> In n (ref_vars a) ->
  In n ((fix go (l : list expr) : list str := match l with [] => [] | a :: l' => ref_vars a ++ go l' end) args).
Proof.
  induction args as [|b args IH]; intros Ha Hn; [destruct Ha|]. rewrite in_app_iff.
  destruct Ha as [->|Ha]; [now left|right; now apply IH].
Qed.
Lemma In_go_funs (a : expr) args n : In a args -> In n (ref_funs a) ->
  In n ((fix go (l : list expr) : list str := match l with [] => [] | a :: l' => ref_funs a ++ go l' end) args).
Proof.
  induction args as [|b args IH]; intros Ha Hn; [destruct Ha|]. rewrite in_app_iff.
  destruct Ha as [->|Ha]; [now left|right; now apply IH].
Qed.

Lemma reported_arg f t args a n : In a args -> reported a n -> reported (ECall f t args) n.
Proof.
  intros Ha [H|[H|H]]; [now left|right; left|right; right]; cbn [ref_vars ref_funs].
  - rewrite in_app_iff. right. now apply (In_go_vars a).
  - right. rewrite in_app_iff. right. now apply (In_go_funs a).
Qed.
Lemma reported_target f t args n : reported t n -> reported (ECall f (Some t) args) n.
Proof.
  intros [H|[H|H]]; [now left|right; left|right; right]; cbn [ref_vars ref_funs].
  - rewrite in_app_iff. now left.
  - right. rewrite in_app_iff. now left.
Qed.
Lemma reported_fun f t args : reported (ECall f t args) f.
Proof. right; right. cbn [ref_funs]. now left. Qed.

Lemma reported_elem es a n : In a es -> reported a n -> reported (EList es) n.
Proof.
  intros Ha [H|[H|H]]; [now left|right; left|right; right]; cbn [ref_vars ref_funs].
  - now apply (In_go_vars a).
  - now apply (In_go_funs a).
Qed.

Lemma reported_entry es k v n : In (k, v) es -> reported k n \/ reported v n -> reported (EMap es) n.
Proof.
  intros Hin H.
  assert (V : forall x, In x (ref_vars k) \/ In x (ref_vars v) ->
              In x ((fix go (l : list (expr * expr)) : list str :=
                       match l with [] => [] | (k, v) :: l' => ref_vars k ++ ref_vars v ++ go l' end) es)).
  { clear H. induction es as [|[k' v'] es IH]; intros x Hx; [destruct Hin|]. rewrite !in_app_iff.
    destruct Hin as [[= -> ->]|Hin]; [tauto|right; right; now apply IH]. }
  assert (F : forall x, In x (ref_funs k) \/ In x (ref_funs v) ->
              In x ((fix go (l : list (expr * expr)) : list str :=
                       match l with [] => [] | (k, v) :: l' => ref_funs k ++ ref_funs v ++ go l' end) es)).
  { clear H V. induction es as [|[k' v'] es IH]; intros x Hx; [destruct Hin|]. rewrite !in_app_iff.
    destruct Hin as [[= -> ->]|Hin]; [tauto|right; right; now apply IH]. }
  unfold reported in *. cbn [ref_vars ref_funs].
  destruct H as [[H|[H|H]]|[H|[H|H]]]; auto.
Qed.

Theorem refs_sound e : forall c, okish (Gref e) (fst (eval c e)).
Proof.
  induction e using expr_ind'; intros c.
  - exact I.
  - exact I.
  - rewrite eval_ident. cbn [fst]. unfold lookup. destruct (lookup_scopes x (scopes c)); [exact I|].
    intros n [= <-]. unfold reported. cbn [ref_vars]. destruct (starts_at x); [now left|right; left; now left].
  - rewrite eval_call. apply call_dispatch_okish.
    + apply Gref_plain.
    + intros n [= <-]. apply reported_fun.
    + destruct target as [t|]; cbn [option_map]; [|exact I].
      eapply okish_weaken; [|apply (H t eq_refl c)]. intros x Hx n Hn. apply reported_target. exact (Hx n Hn).
    + apply Forall_forall. intros r Hr. apply in_map_iff in Hr as (a & <- & Ha).
      rewrite Forall_forall in H0. eapply okish_weaken; [|apply (H0 a Ha c)].
      intros x Hx n Hn. apply (reported_arg f target args a n Ha). exact (Hx n Hn).
  - rewrite eval_select. apply rbind_okish.
    + eapply okish_weaken; [|apply IHe]. intros x Hx n Hn. exact (Hx n Hn).
    + intros v. destruct t; [exact I|]. cbn [fst ret]. eapply okish_weaken; [apply Gref_plain|apply member_plain].
  - rewrite eval_list. apply list_go_okish. apply Forall_forall. intros a Ha.
    rewrite Forall_forall in H. eapply okish_weaken; [|apply (H a Ha c)].
    intros x Hx n Hn. apply (reported_elem es a n Ha). exact (Hx n Hn).
  - rewrite eval_map. apply map_go_okish; [intros n; discriminate|].
    apply Forall_forall. intros [k v] Hkv. rewrite Forall_forall in H. destruct (H (k, v) Hkv) as [Hk Hv].
    cbn [fst snd] in *. split.
    + eapply okish_weaken; [|apply Hk]. intros x Hx n Hn. apply (reported_entry es k v n Hkv). left. exact (Hx n Hn).
    + eapply okish_weaken; [|apply Hv]. intros x Hx n Hn. apply (reported_entry es k v n Hkv). right. exact (Hx n Hn).
  - cbn. intros n; discriminate.
  - rewrite eval_comp.
    assert (W : forall s, (forall n, reported s n -> reported (EComp e1 iv av e2 e3 e4 e5) n) ->
                forall c', okish (Gref s) (fst (eval c' s)) -> okish (Gref (EComp e1 iv av e2 e3 e4 e5)) (fst (eval c' s))).
    { intros s Hs c' Ho. eapply okish_weaken; [|exact Ho]. intros x Hx n Hn. apply Hs. exact (Hx n Hn). }
    assert (R1 : forall n, reported e1 n -> reported (EComp e1 iv av e2 e3 e4 e5) n)
      by (intros n [H|[H|H]]; [now left|right; left|right; right]; cbn [ref_vars ref_funs]; rewrite !in_app_iff; tauto).
    assert (R2 : forall n, reported e2 n -> reported (EComp e1 iv av e2 e3 e4 e5) n)
      by (intros n [H|[H|H]]; [now left|right; left|right; right]; cbn [ref_vars ref_funs]; rewrite !in_app_iff; tauto).
    assert (R3 : forall n, reported e3 n -> reported (EComp e1 iv av e2 e3 e4 e5) n)
      by (intros n [H|[H|H]]; [now left|right; left|right; right]; cbn [ref_vars ref_funs]; rewrite !in_app_iff; tauto).
    assert (R4 : forall n, reported e4 n -> reported (EComp e1 iv av e2 e3 e4 e5) n)
      by (intros n [H|[H|H]]; [now left|right; left|right; right]; cbn [ref_vars ref_funs]; rewrite !in_app_iff; tauto).
    assert (R5 : forall n, reported e5 n -> reported (EComp e1 iv av e2 e3 e4 e5) n)
      by (intros n [H|[H|H]]; [now left|right; left|right; right]; cbn [ref_vars ref_funs]; rewrite !in_app_iff; tauto).
    apply rbind_okish; [apply (W e2 R2), IHe2|]. intros vi.
    apply rbind_okish; [apply (W e1 R1), IHe1|]. intros vr.
    destruct (range_items vr) as [items|]; [|intros n; discriminate].
    apply comp_loop_okish; intros c'; [apply (W e3 R3), IHe3|apply (W e4 R4), IHe4|apply (W e5 R5), IHe5].
Qed.

(** The report never contains macro-internal ('@') names, and does not depend on a context. *)
Lemma ref_vars_no_at e : forall x, In x (ref_vars e) -> starts_at x = false.
Proof.
  induction e using expr_ind'; intros y Hy; cbn [ref_vars] in Hy; try (destruct Hy; fail).
  - destruct (starts_at x) eqn:E; [destruct Hy|]. destruct Hy as [<-|[]]. exact E.
  - rewrite in_app_iff in Hy. destruct Hy as [Hy|Hy].
    + destruct target as [t|]; [now apply (H t eq_refl)|destruct Hy].
    + induction args as [|a args IHa]; [destruct Hy|]. rewrite in_app_iff in Hy.
      inversion H0 as [|? ? P1 P2]; subst. destruct Hy as [Hy|Hy]; [now apply P1|now apply IHa].
  - now apply IHe.
  - induction es as [|a es IHes]; [destruct Hy|]. rewrite in_app_iff in Hy.
    inversion H as [|? ? P1 P2]; subst. destruct Hy as [Hy|Hy]; [now apply P1|now apply IHes].
  - induction es as [|[k v] es IHes]; [destruct Hy|]. rewrite !in_app_iff in Hy.
    inversion H as [|? ? [P1 P1'] P2]; subst. cbn [fst snd] in *.
    destruct Hy as [Hy|[Hy|Hy]]; [now apply P1|now apply P1'|now apply IHes].
  - induction fs as [|[f v] fs IHfs]; [destruct Hy|]. rewrite in_app_iff in Hy.
    inversion H as [|? ? P1 P2]; subst. cbn [snd] in *. destruct Hy as [Hy|Hy]; [now apply P1|now apply IHfs].
  - rewrite !in_app_iff in Hy. destruct Hy as [Hy|[Hy|[Hy|[Hy|Hy]]]]; auto.
Qed.
