(** C18: Value::json, and the JSON half of C17 (commutation with serde_json). *)
From Coq Require Import String Ascii.
From Cel.Model Require Import Json.
From Cel.Proofs Require Import CompareProofs MacroProofs SerdeProofs.
From Coq Require Import Lia ZArith.
Open Scope Z_scope.

Lemma json_list l : json_of_value (VList l) = jv_list l [].
Proof. reflexivity. Qed.
Lemma json_map m : json_of_value (VMap m) = jv_map m [].
Proof. reflexivity. Qed.

(** ** Induction principle for [value] *)
Section ValueInd.
  Variable P : value -> Prop.
  Hypothesis Hlist : forall l, Forall P l -> P (VList l).
  Hypothesis Hmap : forall m, Forall (fun kv => P (snd kv)) m -> P (VMap m).
  Hypothesis Hfun : forall n r, (forall x, r = Some x -> P x) -> P (VFun n r).
  Hypothesis Hleaf : forall v, match v with VList _ | VMap _ | VFun _ _ => False | _ => True end -> P v.

  Fixpoint value_ind' (v : value) : P v :=
    match v with
    | VList l => Hlist l ((fix go (l : list value) : Forall P l :=
                             match l with
                             | [] => Forall_nil _
                             | a :: l' => Forall_cons _ (value_ind' a) (go l')
                             end) l)
    | VMap m => Hmap m ((fix go (l : list (key * value)) : Forall (fun kv => P (snd kv)) l :=
                           match l with
                           | [] => Forall_nil _
                           | (k, x) :: l' => Forall_cons (k, x) (value_ind' x) (go l')
                           end) m)
    | VFun n r =>
        Hfun n r (match r as r0 return forall x, r0 = Some x -> P x with
                  | Some y => fun x H => match H in _ = z return match z with Some w => P w | None => True end
                                         with eq_refl => value_ind' y end
                  | None => fun x H => match H in _ = z return match z with Some w => P w | None => True end
                                       with eq_refl => I end
                  end)
    | VInt z => Hleaf (VInt z) I
    | VUInt z => Hleaf (VUInt z) I
    | VDbl f => Hleaf (VDbl f) I
    | VStr s => Hleaf (VStr s) I
    | VBytes b => Hleaf (VBytes b) I
    | VBool b => Hleaf (VBool b) I
    | VDur ns => Hleaf (VDur ns) I
    | VTs ns off => Hleaf (VTs ns off) I
    | VNull => Hleaf VNull I
    end.
End ValueInd.

(** ** Export never panics; it succeeds exactly on values without functions and oversized
    durations *)
Lemma jv_list_nocrash l : Forall (fun v => nocrash (json_of_value v)) l -> forall acc, nocrash (jv_list l acc).
Proof.
  induction 1 as [|x l Hx _ IH]; intros acc; cbn [jv_list]; [exact I|].
  destruct (json_of_value x); [apply IH|exact I|exact Hx].
Qed.
Lemma jv_map_nocrash m : Forall (fun kv => nocrash (json_of_value (snd kv))) m -> forall acc, nocrash (jv_map m acc).
Proof.
  induction 1 as [|[k x] l Hx _ IH]; intros acc; cbn [jv_map]; [exact I|]. cbn [snd] in Hx.
  destruct (json_of_value x); [apply IH|exact I|exact Hx].
Qed.

Theorem json_nocrash v : nocrash (json_of_value v).
Proof.
  induction v using value_ind'.
  - rewrite json_list. now apply jv_list_nocrash.
  - rewrite json_map. now apply jv_map_nocrash.
  - exact I.
  - destruct v; try contradiction; cbn [json_of_value]; try exact I. now destruct (in_i64 ns).
Qed.

Definition export_ok (v : value) : Prop :=
  if exportable v then exists j, json_of_value v = Ok j else exists c, json_of_value v = Err c.

Lemma jv_list_export l : Forall export_ok l -> forall acc,
  if forallb exportable l then exists j, jv_list l acc = Ok j else exists c, jv_list l acc = Err c.
Proof.
  induction 1 as [|x l Hx _ IH]; intros acc; cbn [forallb jv_list]; [eauto|].
  unfold export_ok in Hx. destruct (exportable x); cbn [andb].
  - destruct Hx as [j ->]. apply IH.
  - destruct Hx as [c ->]. eauto.
Qed.
Lemma jv_map_export m : Forall (fun kv => export_ok (snd kv)) m -> forall acc,
  if forallb (fun kv => match kv with (_, x) => exportable x end) m
  then exists j, jv_map m acc = Ok j else exists c, jv_map m acc = Err c.
Proof.
  induction 1 as [|[k x] l Hx _ IH]; intros acc; cbn [forallb jv_map]; [eauto|].
  cbn [snd] in Hx. unfold export_ok in Hx. destruct (exportable x); cbn [andb].
  - destruct Hx as [j ->]. apply IH.
  - destruct Hx as [c ->]. eauto.
Qed.

Theorem export_decided v : export_ok v.
Proof.
  induction v using value_ind'; unfold export_ok; cbn [exportable].
  - rewrite json_list. now apply jv_list_export.
  - rewrite json_map. now apply jv_map_export.
  - cbn. eauto.
  - destruct v; try contradiction; cbn [exportable json_of_value]; eauto. destruct (in_i64 ns); eauto.
Qed.

(** ** The structure of the exported document *)
Definition jset_all (tjs : list (str * json)) (m0 : list (str * json)) : list (str * json) :=
  fold_left (fun m tj => jobj_set (fst tj) (snd tj) m) tjs m0.

Inductive JExp : value -> json -> Prop :=
| JENull : JExp VNull JNull
| JEBool b : JExp (VBool b) (JBool b)
| JEInt z : JExp (VInt z) (JInt z)
| JEUInt z : JExp (VUInt z) (JInt z)
| JEDbl f : JExp (VDbl f) (if is_finite f then JFloat f else JNull)
| JEStr s : JExp (VStr s) (JStr s)
| JEBytes b : JExp (VBytes b) (JStr (base64 b))
| JETs ns off : JExp (VTs ns off) (JStr (rfc3339 ns off))
| JEDur ns : in_i64 ns = true -> JExp (VDur ns) (JInt ns)
| JEList l js : Forall2 JExp l js -> JExp (VList l) (JArr js)
| JEMap m tjs :
    Forall2 (fun kv tj => fst tj = key_text (fst kv) /\ JExp (snd kv) (snd tj)) m tjs ->
    JExp (VMap m) (JObj (jset_all tjs [])).

Definition jexp_ok (v : value) : Prop := forall j, json_of_value v = Ok j -> JExp v j.

Lemma jv_list_exp l : Forall jexp_ok l -> forall acc j, jv_list l acc = Ok j ->
  exists js, j = JArr (rev acc ++ js) /\ Forall2 JExp l js.
Proof.
  induction 1 as [|x l Hx _ IH]; intros acc j; cbn [jv_list].
  - intros [= <-]. exists []. rewrite rev'_rev, app_nil_r. split; [reflexivity|constructor].
  - destruct (json_of_value x) as [jx| |] eqn:E; try discriminate. intros H.
    destruct (IH _ _ H) as (js & -> & Hjs). exists (jx :: js). split.
    + cbn [rev]. now rewrite <- app_assoc.
    + constructor; [now apply Hx|exact Hjs].
Qed.
Lemma jv_map_exp m : Forall (fun kv => jexp_ok (snd kv)) m -> forall acc j, jv_map m acc = Ok j ->
  exists tjs, j = JObj (jset_all tjs acc) /\
    Forall2 (fun kv tj => fst tj = key_text (fst kv) /\ JExp (snd kv) (snd tj)) m tjs.
Proof.
  induction 1 as [|[k x] l Hx _ IH]; intros acc j; cbn [jv_map].
  - intros [= <-]. exists []. split; [reflexivity|constructor].
  - cbn [snd] in Hx. destruct (json_of_value x) as [jx| |] eqn:E; try discriminate. intros H.
    destruct (IH _ _ H) as (tjs & -> & Ht). exists ((key_text k, jx) :: tjs). split; [reflexivity|].
    constructor; [split; [reflexivity|now apply Hx]|exact Ht].
Qed.

Theorem json_structure v : jexp_ok v.
Proof.
  induction v using value_ind'; unfold jexp_ok in *; intros j.
  - rewrite json_list. intros Hj. destruct (jv_list_exp _ H _ _ Hj) as (js & -> & Hjs). now constructor.
  - rewrite json_map. intros Hj. destruct (jv_map_exp _ H _ _ Hj) as (tjs & -> & Ht). now constructor.
  - discriminate.
  - destruct v; try contradiction; cbn [json_of_value]; try (intros [= <-]; constructor).
    destruct (in_i64 ns) eqn:E; [|discriminate]. intros [= <-]. now constructor.
Qed.

(** [jset_all]: distinct keys, the last binding of a text wins; with distinct texts it is the
    list itself. *)
Lemma jobj_get_set t t' (j : json) m :
  (fix get (m : list (str * json)) : option json :=
     match m with [] => None | (k, v) :: m' => if str_eqb t k then Some v else get m' end) (jobj_set t' j m) =
  if str_eqb t t' then Some j else
  (fix get (m : list (str * json)) : option json :=
     match m with [] => None | (k, v) :: m' => if str_eqb t k then Some v else get m' end) m.
Proof.
  induction m as [|[k v] m IH]; cbn [jobj_set]; [reflexivity|].
  destruct (str_eqb t' k) eqn:E2.
  - apply str_eqb_eq in E2. subst k. now destruct (str_eqb t t').
  - rewrite IH. destruct (str_eqb t k) eqn:E3; [|reflexivity].
    destruct (str_eqb t t') eqn:E4; [|reflexivity].
    apply str_eqb_eq in E3, E4. subst. rewrite str_eqb_refl in E2. discriminate.
Qed.

Lemma jobj_set_fresh t j m : existsb (str_eqb t) (map fst m) = false -> jobj_set t j m = m ++ [(t, j)].
Proof.
  induction m as [|[k v] m IH]; cbn [jobj_set existsb map fst app]; [reflexivity|].
  destruct (str_eqb t k); cbn [orb]; [discriminate|]. intros H. now rewrite IH.
Qed.

Lemma existsb_app {A} (f : A -> bool) a b : existsb f (a ++ b) = existsb f a || existsb f b.
Proof. induction a as [|x a IH]; cbn [app existsb]; [reflexivity|]. now rewrite IH, orb_assoc. Qed.

Lemma distinct_mid a t b : str_distinct (a ++ t :: b) = true ->
  existsb (str_eqb t) a = false /\ str_distinct ((a ++ [t]) ++ b) = true.
Proof.
  intros H. split; [|now rewrite <- app_assoc].
  induction a as [|x a IH]; [reflexivity|]. cbn [app str_distinct] in H.
  apply andb_prop in H as [H1 H2]. cbn [existsb]. rewrite (IH H2), orb_false_r.
  rewrite existsb_app in H1. cbn [existsb] in H1. rewrite str_eqb_sym.
  destruct (str_eqb x t); [|reflexivity]. now rewrite orb_true_r in H1.
Qed.

Lemma jset_all_distinct tjs : forall acc, str_distinct (map fst acc ++ map fst tjs) = true ->
  jset_all tjs acc = acc ++ tjs.
Proof.
  induction tjs as [|[t j] tjs IH]; intros acc H; [now rewrite app_nil_r|].
  change (jset_all ((t, j) :: tjs) acc) with (jset_all tjs (jobj_set t j acc)).
  cbn [map fst] in H. destruct (distinct_mid _ _ _ H) as [Hf Hd].
  rewrite (jobj_set_fresh _ _ _ Hf), IH; [now rewrite <- app_assoc|].
  now rewrite map_app.
Qed.

(** ** C17: conversion commutes with serde_json on JSON-representable data *)
Lemma jd_seq_eq l : json_direct (SSeq l) = let! js := jd_seq l [] in Ok (JArr js).
Proof. reflexivity. Qed.
Lemma jd_tuple_eq l : json_direct (STuple l) = let! js := jd_seq l [] in Ok (JArr js).
Proof. reflexivity. Qed.
Lemma jd_tuplestruct_eq l : json_direct (STupleStruct l) = let! js := jd_seq l [] in Ok (JArr js).
Proof. reflexivity. Qed.
Lemma jd_tuplevariant_eq n l :
  json_direct (STupleVariant n l) = let! js := jd_seq l [] in Ok (JObj [(n, JArr js)]).
Proof. reflexivity. Qed.
Lemma jd_map_eq es : json_direct (SMap es) = jd_map es [].
Proof. reflexivity. Qed.
Lemma jd_struct_eq fs : json_direct (SStruct fs) = let! m := jd_fields fs [] in Ok (JObj m).
Proof. reflexivity. Qed.
Lemma jd_structvariant_eq n fs :
  json_direct (SStructVariant n fs) = let! m := jd_fields fs [] in Ok (JObj [(n, JObj m)]).
Proof. reflexivity. Qed.

Definition commutes (d : sdata) : Prop :=
  jrepr d = true -> exists v j, to_value d = Ok v /\ json_of_value v = Ok j /\ json_direct d = Ok j.

Definition Rel (m : list (key * value)) (jm : list (str * json)) : Prop :=
  Forall2 (fun kv tj => fst tj = key_text (fst kv) /\ json_of_value (snd kv) = Ok (snd tj)) m jm.

Lemma assoc_set_fresh {B} (k : key) (v : B) m :
  existsb (key_eqb k) (map fst m) = false -> assoc_set k v m = m ++ [(k, v)].
Proof.
  induction m as [|[k' v'] m IH]; cbn [assoc_set existsb map fst app]; [reflexivity|].
  destruct (key_eqb k k'); cbn [orb]; [discriminate|]. intros H. now rewrite IH.
Qed.

Lemma jv_list_ok vs js : Forall2 (fun v j => json_of_value v = Ok j) vs js ->
  forall acc, jv_list vs acc = Ok (JArr (rev acc ++ js)).
Proof.
  induction 1 as [|v j vs js Hv _ IH]; intros acc; cbn [jv_list].
  - now rewrite rev'_rev, app_nil_r.
  - rewrite Hv, IH. cbn [rev]. now rewrite <- app_assoc.
Qed.

Lemma seq_commute l : Forall commutes l -> forallb jrepr l = true -> forall acc jacc,
  exists vs js, tv_seq l acc = Ok (rev acc ++ vs) /\ jd_seq l jacc = Ok (rev jacc ++ js) /\
                Forall2 (fun v j => json_of_value v = Ok j) vs js.
Proof.
  induction 1 as [|x l Hx _ IH]; cbn [forallb tv_seq jd_seq]; intros Hr acc jacc.
  - exists [], []. rewrite !rev'_rev, !app_nil_r. repeat split. constructor.
  - apply andb_prop in Hr as [H1 H2]. destruct (Hx H1) as (v & j & -> & Hj & ->).
    destruct (IH H2 (v :: acc) (j :: jacc)) as (vs & js & -> & -> & Hf).
    exists (v :: vs), (j :: js). cbn [rev]. rewrite <- !app_assoc. repeat split. now constructor.
Qed.

Lemma Rel_fresh k m jm : Rel m jm -> existsb (str_eqb (key_text k)) (map fst jm) = false ->
  existsb (key_eqb k) (map fst m) = false.
Proof.
  induction 1 as [|[k2 v2] [t2 j2] m jm [Ht _] _ IH]; cbn [map fst existsb]; [reflexivity|].
  cbn [fst] in Ht. subst t2. intros H. apply orb_false_elim in H as [H1 H2]. rewrite (IH H2), orb_false_r.
  destruct (key_eqb k k2) eqn:E; [|reflexivity]. apply key_eqb_eq in E. subst k2.
  now rewrite str_eqb_refl in H1.
Qed.

Lemma Rel_snoc m jm k v j : Rel m jm -> json_of_value v = Ok j ->
  Rel (m ++ [(k, v)]) (jm ++ [(key_text k, j)]).
Proof. intros H Hj. apply Forall2_app; [exact H|]. constructor; [split; [reflexivity|exact Hj]|constructor]. Qed.

Lemma jv_map_ok m jm : Rel m jm -> forall acc, str_distinct (map fst acc ++ map fst jm) = true ->
  jv_map m acc = Ok (JObj (acc ++ jm)).
Proof.
  induction 1 as [|[k v] [t j] m jm [Ht Hj] _ IH]; intros acc Hd; cbn [jv_map]; [now rewrite app_nil_r|].
  cbn [fst snd] in Ht, Hj. subst t. rewrite Hj. cbn [map fst] in Hd.
  destruct (distinct_mid _ _ _ Hd) as [Hf Hd'].
  rewrite (jobj_set_fresh _ _ _ Hf), IH; [now rewrite <- app_assoc|]. now rewrite map_app.
Qed.

Lemma fields_commute fs : Forall (fun nx => commutes (snd nx)) fs ->
  forallb (fun nx => match nx with (_, x) => jrepr x end) fs = true -> forall m jm,
  Rel m jm -> str_distinct (map fst jm ++ map fst fs) = true ->
  exists m' jm', tv_fields fs m = Ok m' /\ jd_fields fs jm = Ok jm' /\ Rel m' jm' /\
                 map fst jm' = map fst jm ++ map fst fs.
Proof.
  induction 1 as [|[n x] l Hx _ IH]; cbn [forallb tv_fields jd_fields]; intros Hr m jm HR Hd.
  - exists m, jm. rewrite app_nil_r. auto.
  - cbn [snd] in Hx. apply andb_prop in Hr as [H1 H2]. destruct (Hx H1) as (v & j & -> & Hj & ->).
    cbn [map fst] in Hd. destruct (distinct_mid _ _ _ Hd) as [Hf Hd'].
    rewrite (jobj_set_fresh _ _ _ Hf).
    rewrite (assoc_set_fresh (KStr n) v m (Rel_fresh (KStr n) _ _ HR Hf)).
    pose proof (Rel_snoc _ _ (KStr n) _ _ HR Hj) as HR2. cbn [key_text] in HR2.
    destruct (IH H2 _ _ HR2) as (m' & jm' & -> & -> & HR' & Hm).
    + now rewrite map_app.
    + exists m', jm'. repeat split; auto. rewrite Hm, map_app. cbn [map fst]. now rewrite <- app_assoc.
Qed.

Lemma jkey_key_ser k : forall t, jkey k = Ok t -> exists k', key_ser k = Ok k' /\ key_text k' = t.
Proof.
  induction k using sdata_ind'; intros t.
  - destruct k as [b|z|z| |f|c|s|bs| |d| | |n|d|n d|l|l|l|n l|es|fs|n fs|ns|ns off]; try discriminate;
      cbn [jkey key_ser]; try discriminate; try (destruct (is_finite f); discriminate).
    all: intros [= <-]; eexists; (split; [reflexivity|]); try reflexivity; try now destruct b.
  - cbn [jkey]. discriminate.
  - exact (IHk t).
  - cbn [jkey]. discriminate.
  - cbn [jkey]. discriminate.
  - cbn [jkey]. discriminate.
  - cbn [jkey]. discriminate.
  - cbn [jkey]. discriminate.
  - cbn [jkey]. discriminate.
  - cbn [jkey]. discriminate.
  - cbn [jkey]. discriminate.
Qed.

Lemma map_commute es : Forall (fun kx => commutes (fst kx) /\ commutes (snd kx)) es ->
  forallb (fun kx => match kx with (k, x) => jkey_ok k && jrepr x end) es = true -> forall m jm,
  Rel m jm -> str_distinct (map fst jm ++ map (fun kx => jkey_text (fst kx)) es) = true ->
  exists m' jm', tv_map es m = Ok (VMap m') /\ jd_map es jm = Ok (JObj jm') /\ Rel m' jm' /\
                 map fst jm' = map fst jm ++ map (fun kx => jkey_text (fst kx)) es.
Proof.
  induction 1 as [|[k x] l [_ Hx] _ IH]; cbn [forallb tv_map jd_map]; intros Hr m jm HR Hd.
  - exists m, jm. rewrite app_nil_r. auto.
  - cbn [snd] in Hx. apply andb_prop in Hr as [H1 H2]. apply andb_prop in H1 as [H0 H1].
    destruct (Hx H1) as (v & j & Hv & Hj & Hdj). cbn [map fst] in Hd.
    unfold jkey_ok in H0. unfold jkey_text in Hd at 1. destruct (jkey k) as [t| |] eqn:Ek; try discriminate.
    assert (Et : jkey_text k = t) by (unfold jkey_text; now rewrite Ek).
    destruct (jkey_key_ser _ _ Ek) as (k' & -> & Ht). rewrite Hv, Hdj.
    destruct (distinct_mid _ _ _ Hd) as [Hf Hd']. rewrite (jobj_set_fresh _ _ _ Hf).
    rewrite <- Ht in Hf, Hd', Et |- *. rewrite (assoc_set_fresh k' v m (Rel_fresh k' _ _ HR Hf)).
    destruct (IH H2 _ _ (Rel_snoc _ _ k' _ _ HR Hj)) as (m' & jm' & -> & -> & HR' & Hm).
    + now rewrite map_app.
    + exists m', jm'. repeat split; auto. rewrite Hm, map_app. cbn [map fst].
      rewrite <- app_assoc. cbn [app]. now rewrite Et.
Qed.

Theorem conversion_commutes d : commutes d.
Proof.
  induction d using sdata_ind'; unfold commutes in *; cbn [jrepr].
  - destruct d; try discriminate; intros _; eexists; eexists; repeat split; reflexivity.
  - exact IHd.
  - exact IHd.
  - intros Hr. destruct (IHd Hr) as (v & j & Hv & Hj & Hd). cbn [to_value json_direct]. rewrite Hv, Hd.
    cbn [obind]. eexists; eexists; repeat split. rewrite json_map. cbn [jv_map]. now rewrite Hj.
  - intros Hr. destruct (seq_commute _ H Hr [] []) as (vs & js & Hv & Hd & Hf).
    rewrite to_value_seq, jd_seq_eq, Hv, Hd. cbn [obind rev app].
    eexists; eexists; repeat split. rewrite json_list. apply (jv_list_ok _ _ Hf []).
  - intros Hr. destruct (seq_commute _ H Hr [] []) as (vs & js & Hv & Hd & Hf).
    rewrite to_value_tuple, jd_tuple_eq, Hv, Hd. cbn [obind rev app].
    eexists; eexists; repeat split. rewrite json_list. apply (jv_list_ok _ _ Hf []).
  - intros Hr. destruct (seq_commute _ H Hr [] []) as (vs & js & Hv & Hd & Hf).
    rewrite to_value_tuplestruct, jd_tuplestruct_eq, Hv, Hd. cbn [obind rev app].
    eexists; eexists; repeat split. rewrite json_list. apply (jv_list_ok _ _ Hf []).
  - intros Hr. destruct (seq_commute _ H Hr [] []) as (vs & js & Hv & Hd & Hf).
    rewrite to_value_tuplevariant, jd_tuplevariant_eq, Hv, Hd. cbn [obind rev app].
    eexists; eexists; repeat split. rewrite json_map. cbn [jv_map]. rewrite json_list.
    now rewrite (jv_list_ok _ _ Hf []).
  - intros Hr. apply andb_prop in Hr as [H1 H2].
    destruct (map_commute _ H H1 [] [] (Forall2_nil _) H2) as (m' & jm' & Hv & Hd & HR & Hm).
    rewrite to_value_map, jd_map_eq, Hv, Hd. eexists; eexists; repeat split.
    rewrite json_map. apply (jv_map_ok _ _ HR []). cbn [map app]. now rewrite Hm.
  - intros Hr. apply andb_prop in Hr as [H1 H2].
    destruct (fields_commute _ H H1 [] [] (Forall2_nil _) H2) as (m' & jm' & Hv & Hd & HR & Hm).
    rewrite to_value_struct, jd_struct_eq, Hv, Hd. cbn [obind]. eexists; eexists; repeat split.
    rewrite json_map. apply (jv_map_ok _ _ HR []). cbn [map app]. now rewrite Hm.
  - intros Hr. apply andb_prop in Hr as [H1 H2].
    destruct (fields_commute _ H H1 [] [] (Forall2_nil _) H2) as (m' & jm' & Hv & Hd & HR & Hm).
    rewrite to_value_structvariant, jd_structvariant_eq, Hv, Hd. cbn [obind]. eexists; eexists; repeat split.
    rewrite json_map. cbn [jv_map]. rewrite json_map.
    rewrite (jv_map_ok _ _ HR []); [reflexivity|]. cbn [map app]. now rewrite Hm.
Qed.

(** ** C18: importing the exported document gives back an equal value *)
Lemma feq_refl_finite f : is_finite f = true -> feq f f = true.
Proof.
  destruct f as [s| | |s m e]; try discriminate; intros _; unfold feq, fcmp; cbn [SFcompare]; [reflexivity|].
  rewrite Z.compare_refl, Pos.compare_cont_refl. now destruct s.
Qed.

Lemma tv_seq_ok ds vs : Forall2 (fun d v => to_value d = Ok v) ds vs ->
  forall acc, tv_seq ds acc = Ok (rev acc ++ vs).
Proof.
  induction 1 as [|d v ds vs Hd _ IH]; intros acc; cbn [tv_seq].
  - now rewrite rev'_rev, app_nil_r.
  - rewrite Hd, IH. cbn [rev]. now rewrite <- app_assoc.
Qed.

Definition roundtrips (v : value) : Prop :=
  json_native v = true ->
  exists j v', json_of_value v = Ok j /\ to_value (sdata_of_json j) = Ok v' /\ v_eq v' v = true.

Lemma list_roundtrip l : Forall roundtrips l -> forallb json_native l = true ->
  exists js vs', Forall2 (fun v j => json_of_value v = Ok j) l js /\
                 Forall2 (fun d v' => to_value d = Ok v') (map sdata_of_json js) vs' /\
                 Forall2 (fun v' v => v_eq v' v = true) vs' l.
Proof.
  induction 1 as [|x l Hx _ IH]; cbn [forallb]; intros Hn.
  - exists [], []. repeat split; constructor.
  - apply andb_prop in Hn as [H1 H2]. destruct (Hx H1) as (j & v' & Hj & Hv & He).
    destruct (IH H2) as (js & vs' & A & B & C). exists (j :: js), (v' :: vs').
    repeat split; constructor; auto.
Qed.

(** the imported entries: same keys in the same order, equal values *)
Definition Same (m' m : list (key * value)) : Prop :=
  Forall2 (fun kv' kv => fst kv' = fst kv /\ v_eq (snd kv') (snd kv) = true) m' m.

Lemma Same_keys m' m : Same m' m -> map fst m' = map fst m.
Proof. induction 1 as [|? ? ? ? [H _] _ IH]; cbn [map]; [reflexivity|]. now rewrite H, IH. Qed.

Lemma map_roundtrip m : Forall (fun kv => roundtrips (snd kv)) m ->
  forallb (fun kv => match kv with (KStr _, x) => json_native x | _ => false end) m = true ->
  forall m0 jm0, Rel m0 jm0 ->
  forall m0', Same m0' m0 ->
  str_distinct (map fst jm0 ++ map (fun kv => key_text (fst kv)) m) = true ->
  exists jm m', Rel (m0 ++ m) jm /\ map fst jm = map fst jm0 ++ map (fun kv => key_text (fst kv)) m /\
    (exists jm1, jm = jm0 ++ jm1 /\
       tv_map (map (fun tj => (SStr (fst tj), sdata_of_json (snd tj))) jm1) m0' = Ok (VMap m')) /\
    Same m' (m0 ++ m).
Proof.
  induction 1 as [|[k x] l Hx _ IH]; cbn [forallb]; intros Hn m0 jm0 HR m0' HS Hd.
  - exists jm0, m0'. rewrite !app_nil_r. repeat split; auto. exists []. rewrite app_nil_r. split; reflexivity.
  - cbn [snd] in Hx. apply andb_prop in Hn as [H1 H2]. destruct k as [z|z|b|s]; try discriminate.
    destruct (Hx H1) as (j & v' & Hj & Hv & He). cbn [map fst key_text] in Hd.
    destruct (distinct_mid _ _ _ Hd) as [Hf Hd'].
    pose proof (Rel_snoc _ _ (KStr s) _ _ HR Hj) as HR2. cbn [key_text] in HR2.
    assert (HS2 : Same (m0' ++ [(KStr s, v')]) (m0 ++ [(KStr s, x)])).
    { apply Forall2_app; [exact HS|]. constructor; [split; [reflexivity|exact He]|constructor]. }
    destruct (IH H2 _ _ HR2 _ HS2) as (jm & m' & HRf & Hm & (jm1 & -> & Htv) & HSf).
    { now rewrite map_app. }
    exists ((jm0 ++ [(s, j)]) ++ jm1), m'. rewrite <- !app_assoc in *. cbn [app] in *. repeat split; auto.
    + rewrite Hm. rewrite map_app. cbn [map fst key_text]. now rewrite <- app_assoc.
    + exists ((s, j) :: jm1). split; [reflexivity|]. cbn [map fst snd tv_map key_ser]. rewrite Hv.
      rewrite assoc_set_fresh; [exact Htv|].
      rewrite (Same_keys _ _ HS). apply (Rel_fresh (KStr s) _ _ HR). exact Hf.
Qed.

Lemma assoc_get_distinct (m : list (key * value)) : forall k v pre,
  existsb (key_eqb k) (map fst pre) = false ->
  assoc_get k (pre ++ (k, v) :: m) = Some v.
Proof.
  intros k v pre. induction pre as [|[k2 v2] pre IH]; cbn [app map fst existsb assoc_get].
  - now rewrite key_eqb_refl.
  - intros H. apply orb_false_elim in H as [H1 H2]. rewrite H1. now apply IH.
Qed.

Lemma distinct_keys_fresh (m : list (key * value)) pre k v :
  str_distinct (map (fun kv => key_text (fst kv)) (pre ++ (k, v) :: m)) = true ->
  existsb (key_eqb k) (map fst pre) = false.
Proof.
  rewrite map_app. cbn [map fst]. intros H. destruct (distinct_mid _ _ _ H) as [Hf _].
  clear H. induction pre as [|[k2 v2] pre IH]; cbn [map fst existsb] in *; [reflexivity|].
  apply orb_false_elim in Hf as [H1 H2]. rewrite (IH H2), orb_false_r.
  destruct (key_eqb k k2) eqn:E; [|reflexivity]. apply key_eqb_eq in E. subst k2. now rewrite str_eqb_refl in H1.
Qed.

Lemma Same_v_eq m' m : Same m' m -> str_distinct (map (fun kv => key_text (fst kv)) m) = true ->
  v_eq (VMap m') (VMap m) = true.
Proof.
  intros HS Hd. apply v_eq_map. split.
  - pose proof (f_equal (@length key) (Same_keys _ _ HS)) as Hl. now rewrite !map_length in Hl.
  - assert (G : forall pre suf' suf, Same suf' suf -> m = pre ++ suf ->
                Forall (fun kv => exists v', assoc_get (fst kv) m = Some v' /\ v_eq (snd kv) v' = true) suf').
    { intros pre suf' suf Hs. revert pre. induction Hs as [|[k' v'] [k v] suf' suf [Hk Hv] _ IH]; intros pre Hm.
      - constructor.
      - cbn [fst snd] in Hk, Hv. subst k'. constructor.
        + exists v. split; [|exact Hv]. cbn [fst]. rewrite Hm. apply assoc_get_distinct.
          rewrite Hm in Hd. now apply distinct_keys_fresh in Hd.
        + apply (IH (pre ++ [(k, v)])). now rewrite <- app_assoc. }
    exact (G [] m' m HS eq_refl).
Qed.

Theorem import_export v : roundtrips v.
Proof.
  induction v using value_ind'; unfold roundtrips; cbn [json_native].
  - intros Hn. destruct (list_roundtrip _ H Hn) as (js & vs' & A & B & C).
    exists (JArr js), (VList vs'). rewrite json_list, (jv_list_ok _ _ A []). cbn [rev app sdata_of_json].
    repeat split. + rewrite to_value_seq, (tv_seq_ok _ _ B []). reflexivity.
    + now apply v_eq_list.
  - intros Hn. apply andb_prop in Hn as [H1 H2].
    destruct (map_roundtrip _ H H1 [] [] (Forall2_nil _) [] (Forall2_nil _) H2)
      as (jm & m' & HR & Hm & (jm1 & -> & Htv) & HS).
    cbn [app] in *. exists (JObj jm1), (VMap m'). repeat split.
    + rewrite json_map. rewrite (jv_map_ok _ _ HR []); [reflexivity|]. cbn [map app]. now rewrite Hm.
    + cbn [sdata_of_json]. rewrite to_value_map. exact Htv.
    + now apply Same_v_eq.
  - discriminate.
  - destruct v; try contradiction; try discriminate; intros Hn; cbn [json_native] in Hn.
    + exists (JInt z). cbn [json_of_value sdata_of_json]. destruct (z <? 0); eexists; repeat split; cbn; apply Z.eqb_refl.
    + exists (JInt z). cbn [json_of_value sdata_of_json]. destruct (z <? 0); eexists; repeat split; cbn; apply Z.eqb_refl.
    + exists (JFloat f), (VDbl f). cbn [json_of_value]. unfold jnum_of_f64. rewrite Hn. repeat split.
      cbn [v_eq]. now apply feq_refl_finite.
    + exists (JStr s), (VStr s). repeat split. cbn [v_eq]. apply str_eqb_refl.
    + exists (JBool b), (VBool b). repeat split. cbn [v_eq]. now destruct b.
    + exists JNull, VNull. repeat split.
Qed.

(** ** base64 loses nothing: a decoder inverts it on every byte string *)
Definition b64_val (c : N) : option N :=
  (if (65 <=? c) && (c <=? 90) then Some (c - 65)
   else if (97 <=? c) && (c <=? 122) then Some (c - 97 + 26)
   else if (48 <=? c) && (c <=? 57) then Some (c - 48 + 52)
   else if c =? 43 then Some 62 else if c =? 47 then Some 63 else None)%N.

Fixpoint unbase64 (s : str) : option (list N) :=
  match s with
  | [] => Some []
  | a :: b :: c :: d :: r =>
      match b64_val a, b64_val b with
      | Some va, Some vb =>
          let x := (va * 4 + vb / 16)%N in
          if (d =? 61)%N then
            match r with
            | [] => if (c =? 61)%N then Some [x]
                    else match b64_val c with
                         | Some vc => Some [x; ((vb mod 16) * 16 + vc / 4)%N]
                         | None => None
                         end
            | _ => None
            end
          else match b64_val c, b64_val d, unbase64 r with
               | Some vc, Some vd, Some rest =>
                   Some (x :: ((vb mod 16) * 16 + vc / 4)%N :: ((vc mod 4) * 64 + vd)%N :: rest)
               | _, _, _ => None
               end
      | _, _ => None
      end
  | _ => None
  end.

Lemma b64_val_char n : (n < 64)%N -> b64_val (b64_char n) = Some n /\ (b64_char n =? 61)%N = false.
Proof.
  intros H.
  assert (G : forallb (fun k => match b64_val (b64_char k) with
                                | Some m => (m =? k)%N && negb (b64_char k =? 61)%N
                                | None => false
                                end) (map N.of_nat (seq 0 64)) = true) by (vm_compute; reflexivity).
  rewrite forallb_forall in G. specialize (G n).
  assert (Hin : In n (map N.of_nat (seq 0 64))).
  { apply in_map_iff. exists (N.to_nat n). split; [apply N2Nat.id|]. apply in_seq. lia. }
  specialize (G Hin). destruct (b64_val (b64_char n)) as [m|]; [|discriminate].
  apply andb_prop in G as [G1 G2]. apply N.eqb_eq in G1. subst m. split; [reflexivity|].
  now destruct (b64_char n =? 61)%N.
Qed.

Theorem base64_roundtrip : forall b, Forall (fun x => (x < 256)%N) b -> unbase64 (base64 b) = Some b.
Proof.
  assert (G : forall n b, (length b <= n)%nat -> Forall (fun x => (x < 256)%N) b -> unbase64 (base64 b) = Some b).
  { induction n as [|n IH]; intros b Hl Hb.
    - destruct b; [reflexivity|cbn in Hl; lia].
    - destruct b as [|x [|y [|z r]]]; [reflexivity| | |].
      + inversion Hb as [|? ? Hx _]; subst. cbn [base64 unbase64].
        destruct (b64_val_char (x / 4)) as [-> _]; [apply N.div_lt_upper_bound; lia|].
        destruct (b64_val_char ((x mod 4) * 16)) as [-> _]; [pose proof (N.mod_lt x 4); lia|].
        cbn [N.eqb Pos.eqb]. f_equal. f_equal.
        pose proof (N.div_mod x 4). rewrite N.div_mul by lia. lia.
      + inversion Hb as [|? ? Hx Hb1]; subst. inversion Hb1 as [|? ? Hy _]; subst. cbn [base64 unbase64].
        destruct (b64_val_char (x / 4)) as [-> _]; [apply N.div_lt_upper_bound; lia|].
        assert (Hy16 : (y / 16 < 16)%N) by (apply N.div_lt_upper_bound; lia).
        destruct (b64_val_char ((x mod 4) * 16 + y / 16)) as [-> _]; [pose proof (N.mod_lt x 4); lia|].
        destruct (b64_val_char ((y mod 16) * 4)) as [-> E]; [pose proof (N.mod_lt y 16); lia|].
        cbn [N.eqb Pos.eqb]. rewrite E. f_equal.
        pose proof (N.div_mod x 4). pose proof (N.div_mod y 16). pose proof (N.mod_lt x 4). pose proof (N.mod_lt y 16).
        f_equal; [|f_equal].
        * replace (((x mod 4) * 16 + y / 16) / 16)%N with (x mod 4)%N; [lia|].
          apply (N.div_unique _ 16 _ (y / 16)); lia.
        * replace (((x mod 4) * 16 + y / 16) mod 16)%N with (y / 16)%N
            by (apply (N.mod_unique _ 16 (x mod 4)); lia).
          rewrite N.div_mul by lia. lia.
      + inversion Hb as [|? ? Hx Hb1]; subst. inversion Hb1 as [|? ? Hy Hb2]; subst.
        inversion Hb2 as [|? ? Hz Hr]; subst.
        change (base64 (x :: y :: z :: r)) with
          ([b64_char (x / 4); b64_char ((x mod 4) * 16 + y / 16); b64_char ((y mod 16) * 4 + z / 64);
            b64_char (z mod 64)]%N ++ base64 r).
        cbn [app unbase64].
        pose proof (N.div_mod x 4). pose proof (N.div_mod y 16). pose proof (N.div_mod z 64).
        pose proof (N.mod_lt x 4). pose proof (N.mod_lt y 16). pose proof (N.mod_lt z 64).
        assert (Hy16 : (y / 16 < 16)%N) by (apply N.div_lt_upper_bound; lia).
        assert (Hz64 : (z / 64 < 4)%N) by (apply N.div_lt_upper_bound; lia).
        destruct (b64_val_char (x / 4)) as [-> _]; [apply N.div_lt_upper_bound; lia|].
        destruct (b64_val_char ((x mod 4) * 16 + y / 16)) as [-> _]; [lia|].
        destruct (b64_val_char ((y mod 16) * 4 + z / 64)) as [-> _]; [lia|].
        destruct (b64_val_char (z mod 64)) as [-> E]; [lia|]. rewrite E.
        rewrite (IH r); [|cbn in Hl; lia|exact Hr].
        f_equal. f_equal; [|f_equal; [|f_equal]].
        * replace (((x mod 4) * 16 + y / 16) / 16)%N with (x mod 4)%N; [lia|].
          apply (N.div_unique _ 16 _ (y / 16)); lia.
        * replace (((x mod 4) * 16 + y / 16) mod 16)%N with (y / 16)%N
            by (apply (N.mod_unique _ 16 (x mod 4)); lia).
          replace (((y mod 16) * 4 + z / 64) / 4)%N with (y mod 16)%N; [lia|].
          apply (N.div_unique _ 4 _ (z / 64)); lia.
        * replace (((y mod 16) * 4 + z / 64) mod 4)%N with (z / 64)%N
            by (apply (N.mod_unique _ 4 (y mod 16)); lia). lia. }
  intros b. apply (G (length b)). lia.
Qed.
