(** One-step unfoldings of the parser functions (all by computation). *)
From Coq Require Import String Ascii.
From Cel.Model Require Import Surface.
Open Scope nat_scope.

Lemma u_expr f ts : p_expr (S f) ts =
  match p_or f ts with
  | POk c (TQuestion :: ts1) =>
      match p_or f ts1 with
      | POk a (TColon :: ts2) =>
          match p_expr f ts2 with
          | POk b ts3 => POk (ECall op_conditional None [c; a; b]) ts3
          | PFail => PFail | PFuel => PFuel
          end
      | POk _ _ => PFail | PFail => PFail | PFuel => PFuel
      end
  | r => r
  end.
Proof. reflexivity. Qed.

Lemma u_or f ts : p_or (S f) ts = match p_and f ts with POk t ts1 => p_or_loop f [t] ts1 | r => r end.
Proof. reflexivity. Qed.

Lemma u_or_loop f acc ts : p_or_loop (S f) acc ts =
  match ts with
  | TOrOr :: ts1 => match p_and f ts1 with POk t ts2 => p_or_loop f (t :: acc) ts2 | r => r end
  | _ => POk (logic_tree $"_||_" (rev' acc)) ts
  end.
Proof. reflexivity. Qed.

Lemma u_and f ts : p_and (S f) ts = match p_rel f ts with POk t ts1 => p_and_loop f [t] ts1 | r => r end.
Proof. reflexivity. Qed.

Lemma u_and_loop f acc ts : p_and_loop (S f) acc ts =
  match ts with
  | TAndAnd :: ts1 => match p_rel f ts1 with POk t ts2 => p_and_loop f (t :: acc) ts2 | r => r end
  | _ => POk (logic_tree $"_&&_" (rev' acc)) ts
  end.
Proof. reflexivity. Qed.

Lemma u_rel f ts : p_rel (S f) ts = match p_add f ts with POk l ts1 => p_rel_loop f l ts1 | r => r end.
Proof. reflexivity. Qed.

Lemma u_rel_loop f lhs ts : p_rel_loop (S f) lhs ts =
  match ts with
  | op :: ts1 => match relop_name op with
                 | Some name => match p_add f ts1 with
                                | POk r ts2 => p_rel_loop f (ECall name None [lhs; r]) ts2
                                | x => x
                                end
                 | None => POk lhs ts
                 end
  | [] => POk lhs ts
  end.
Proof. reflexivity. Qed.

Lemma u_add f ts : p_add (S f) ts = match p_mul f ts with POk l ts1 => p_add_loop f l ts1 | r => r end.
Proof. reflexivity. Qed.

Lemma u_add_loop f lhs ts : p_add_loop (S f) lhs ts =
  match ts with
  | op :: ts1 => match addop_name op with
                 | Some name => match p_mul f ts1 with
                                | POk r ts2 => p_add_loop f (ECall name None [lhs; r]) ts2
                                | x => x
                                end
                 | None => POk lhs ts
                 end
  | [] => POk lhs ts
  end.
Proof. reflexivity. Qed.

Lemma u_mul f ts : p_mul (S f) ts = match p_unary f ts with POk l ts1 => p_mul_loop f l ts1 | r => r end.
Proof. reflexivity. Qed.

Lemma u_mul_loop f lhs ts : p_mul_loop (S f) lhs ts =
  match ts with
  | op :: ts1 => match mulop_name op with
                 | Some name => match p_unary f ts1 with
                                | POk r ts2 => p_mul_loop f (ECall name None [lhs; r]) ts2
                                | x => x
                                end
                 | None => POk lhs ts
                 end
  | [] => POk lhs ts
  end.
Proof. reflexivity. Qed.

Lemma u_member f ts : p_member (S f) ts = match p_primary f ts with POk p ts1 => p_postfix f p ts1 | r => r end.
Proof. reflexivity. Qed.

Lemma u_unary f ts : p_unary (S f) ts =
  match ts with
  | TBang :: _ =>
      let '(n, ts1) := count_prefix is_bang ts in
      match p_member f ts1 with
      | POk m ts2 => POk (if Nat.odd n then ECall $"!_" None [m] else m) ts2
      | r => r
      end
  | TMinus :: ts0 =>
      if is_number_tok ts0 then p_member f ts
      else let '(n, ts1) := count_prefix is_minus ts in
           match p_member f ts1 with
           | POk m ts2 => POk (if Nat.odd n then ECall $"-_" None [m] else m) ts2
           | r => r
           end
  | _ => p_member f ts
  end.
Proof. reflexivity. Qed.

Lemma u_postfix f e ts : p_postfix (S f) e ts =
  match ts with
  | TDot :: TIdent id :: TLParen :: ts1 =>
      match p_args f ts1 with
      | POk args ts2 =>
          match mk_call id (Some e) args ts2 with
          | POk e' ts3 => p_postfix f e' ts3
          | r => r
          end
      | PFail => PFail
      | PFuel => PFuel
      end
  | TDot :: TIdent id :: ts1 => p_postfix f (ESelect e id false) ts1
  | TDot :: TEscIdent id :: ts1 => p_postfix f (ESelect e id false) ts1
  | TLBracket :: TQuestion :: _ => PFail
  | TLBracket :: ts1 =>
      match p_expr f ts1 with
      | POk i (TRBracket :: ts2) => p_postfix f (ECall $"_[_]" None [e; i]) ts2
      | POk _ _ => PFail
      | PFail => PFail
      | PFuel => PFuel
      end
  | _ => POk e ts
  end.
Proof. reflexivity. Qed.

Lemma u_args f ts : p_args (S f) ts =
  match ts with TRParen :: ts1 => POk [] ts1 | _ => p_args_rest f [] ts end.
Proof. reflexivity. Qed.

Lemma u_args_rest f acc ts : p_args_rest (S f) acc ts =
  match p_expr f ts with
  | POk a (TComma :: ts1) => p_args_rest f (a :: acc) ts1
  | POk a (TRParen :: ts1) => POk (rev' (a :: acc)) ts1
  | POk _ _ => PFail
  | PFail => PFail
  | PFuel => PFuel
  end.
Proof. reflexivity. Qed.

Lemma u_elems f acc ts : p_elems (S f) acc ts =
  match ts with
  | TRBracket :: ts1 => POk (rev' acc) ts1
  | TQuestion :: _ => PFail
  | _ =>
      match p_expr f ts with
      | POk a (TComma :: ts1) => p_elems f (a :: acc) ts1
      | POk a (TRBracket :: ts1) => POk (rev' (a :: acc)) ts1
      | POk _ _ => PFail
      | PFail => PFail
      | PFuel => PFuel
      end
  end.
Proof. reflexivity. Qed.

Lemma u_entries f acc ts : p_entries (S f) acc ts =
  match ts with
  | TRBrace :: ts1 => POk (rev' acc) ts1
  | TQuestion :: _ => PFail
  | _ =>
      match p_expr f ts with
      | POk k (TColon :: ts1) =>
          match p_expr f ts1 with
          | POk v (TComma :: ts2) => p_entries f ((k, v) :: acc) ts2
          | POk v (TRBrace :: ts2) => POk (rev' ((k, v) :: acc)) ts2
          | POk _ _ => PFail
          | PFail => PFail
          | PFuel => PFuel
          end
      | POk _ _ => PFail
      | PFail => PFail
      | PFuel => PFuel
      end
  end.
Proof. reflexivity. Qed.

Lemma u_fields f acc ts : p_fields (S f) acc ts =
  match ts with
  | TRBrace :: ts1 => POk (rev' acc) ts1
  | TQuestion :: _ => PFail
  | (TIdent n | TEscIdent n) :: TColon :: ts1 =>
      match p_expr f ts1 with
      | POk v (TComma :: ts2) => p_fields f ((n, v) :: acc) ts2
      | POk v (TRBrace :: ts2) => POk (rev' ((n, v) :: acc)) ts2
      | POk _ _ => PFail
      | PFail => PFail
      | PFuel => PFuel
      end
  | _ => PFail
  end.
Proof. reflexivity. Qed.

Definition ident_forms (f : nat) (leading : bool) (ts0 : list tk) : pres expr :=
  match msg_prefix (S (length ts0)) ts0 [] with
  | Some (names, TComma :: TRBrace :: ts2) =>
      let n := join_dots names in
      POk (EStruct (if leading then 46%N :: n else n) []) ts2
  | Some (names, ts1) =>
      match p_fields f [] ts1 with
      | POk fs ts2 =>
          let n := join_dots names in
          POk (EStruct (if leading then 46%N :: n else n) fs) ts2
      | PFail => PFail
      | PFuel => PFuel
      end
  | None =>
      match ts0 with
      | TIdent id :: TLParen :: ts1 =>
          match p_args f ts1 with
          | POk args ts2 => mk_call (if leading then 46%N :: id else id) None args ts2
          | PFail => PFail
          | PFuel => PFuel
          end
      | TIdent id :: ts1 => POk (EIdent id) ts1
      | _ => PFail
      end
  end.

Lemma u_primary f ts : p_primary (S f) ts =
  match ts with
  | TDot :: ts0 => ident_forms f true ts0
  | TIdent _ :: _ => ident_forms f false ts
  | TLParen :: ts1 =>
      match p_expr f ts1 with
      | POk e (TRParen :: ts2) => POk e ts2
      | POk _ _ => PFail
      | r => r
      end
  | TLBracket :: TComma :: TRBracket :: ts1 => POk (EList []) ts1
  | TLBracket :: ts1 =>
      match p_elems f [] ts1 with
      | POk es ts2 => POk (EList es) ts2
      | PFail => PFail
      | PFuel => PFuel
      end
  | TLBrace :: TComma :: TRBrace :: ts1 => POk (EMap []) ts1
  | TLBrace :: ts1 =>
      match p_entries f [] ts1 with
      | POk es ts2 => POk (EMap es) ts2
      | PFail => PFail
      | PFuel => PFuel
      end
  | _ =>
      match literal_of ts with
      | Some (e, r) => POk e r
      | None => PFail
      end
  end.
Proof. reflexivity. Qed.
