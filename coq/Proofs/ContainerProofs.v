(** C14: list, map and string operations agree with one another. *)
From Coq Require Import String.
From Cel.Model Require Import Eval.
From Cel.Proofs Require Import EvalBase CompareProofs.
From Coq Require Import Lia Decimal DecimalZ.

Definition present (k : key) (m : list (key * value)) : bool :=
  match map_get k m with Some _ => true | None => false end.

Definition no_null_values (m : list (key * value)) : Prop :=
  forall k v, map_get k m = Some v -> v <> VNull.

(** The three key-based forms all answer [present]. *)
Lemma presence_in k m : v_in (value_of_key k) (VMap m) = Ok (VBool (present k m)).
Proof. destruct k; reflexivity. Qed.

Lemma presence_contains k m : b_contains (VMap m) (value_of_key k) = Ok (VBool (present k m)).
Proof. destruct k; reflexivity. Qed.

Lemma presence_index k m : no_null_values m ->
  exists v, v_index (VMap m) (value_of_key k) = Ok v /\ (present k m = true <-> v <> VNull).
Proof.
  intros Hnn. unfold present.
  assert (E : v_index (VMap m) (value_of_key k) =
              Ok (match map_get k m with Some v => v | None => VNull end)) by (destruct k; reflexivity).
  rewrite E. destruct (map_get k m) as [v|] eqn:Eg.
  - exists v. split; [reflexivity|]. split; [intros _; now apply (Hnn k)|reflexivity].
  - exists VNull. split; [reflexivity|]. split; [discriminate|congruence].
Qed.

(** Field selection and has() on identifier-like string keys. *)
Definition ident_start (c : N) : bool :=
  (((65 <=? c) && (c <=? 90)) || ((97 <=? c) && (c <=? 122)) || (c =? 95))%N.
Definition ident_like (s : str) : bool :=
  match s with
  | c :: _ => ident_start c && negb (str_eqb s $"true") && negb (str_eqb s $"false")
  | [] => false
  end.

Lemma uint_digits_head u : match uint_digits u with [] => True | c :: _ => (48 <= c <= 57)%N end.
Proof. destruct u; cbn; auto; lia. Qed.

Lemma Z_to_str_head z : exists c rest, Z_to_str z = c :: rest /\ ident_start c = false.
Proof.
  unfold Z_to_str. destruct (Z.to_int z) as [u|u].
  - pose proof (uint_digits_head u). destruct (uint_digits u) as [|c r].
    + exists 48%N, []. split; reflexivity.
    + exists c, r. split; [reflexivity|]. unfold ident_start.
      repeat match goal with |- context [(?a <=? ?b)%N] => destruct (N.leb_spec a b) end;
      repeat match goal with |- context [(?a =? ?b)%N] => destruct (N.eqb_spec a b) end;
      cbn; try reflexivity; lia.
  - exists 45%N, (uint_digits u). split; reflexivity.
Qed.

Lemma key_text_ident k s : ident_like s = true -> str_eqb (key_text k) s = true -> k = KStr s.
Proof.
  intros Hi He. apply str_eqb_eq in He.
  destruct k as [z|z|b|t]; cbn [key_text] in He.
  - destruct (Z_to_str_head z) as (c & r & E & Hc). rewrite E in He. subst s. cbn in Hi.
    rewrite Hc in Hi. discriminate.
  - destruct (Z_to_str_head z) as (c & r & E & Hc). rewrite E in He. subst s. cbn in Hi.
    rewrite Hc in Hi. discriminate.
  - destruct b; subst s; cbn in Hi; discriminate.
  - now subst.
Qed.

Lemma has_field_str (m : list (key * value)) s : ident_like s = true ->
  has_field (VMap m) s = match assoc_get (KStr s) m with Some _ => true | None => false end.
Proof.
  intros Hi. cbn [has_field]. induction m as [|[k v] m IH]; cbn [existsb assoc_get fst]; [reflexivity|].
  destruct (str_eqb (key_text k) s) eqn:E.
  - apply (key_text_ident k s Hi) in E. subst k. cbn [key_eqb]. now rewrite (proj2 (str_eqb_eq s s) eq_refl).
  - cbn [orb]. rewrite IH. destruct k as [z|z|b|t]; cbn [key_eqb]; try reflexivity.
    cbn [key_text] in E. destruct (str_eqb s t) eqn:E2; [|reflexivity].
    apply str_eqb_eq in E2. subst t. rewrite (proj2 (str_eqb_eq s s) eq_refl) in E. discriminate.
Qed.

Lemma map_get_str s (m : list (key * value)) : map_get (KStr s) m = assoc_get (KStr s) m.
Proof. unfold map_get. destruct (assoc_get (KStr s) m); reflexivity. Qed.

Lemma presence_select c m s : ident_like s = true ->
  has_field (VMap m) s = present (KStr s) m /\
  match member c (VMap m) s with
  | Ok (VFun _ _) | Err ENoKey => present (KStr s) m = false \/ exists n r, assoc_get (KStr s) m = Some (VFun n r)
  | Ok v => map_get (KStr s) m = Some v
  | _ => False
  end.
Proof.
  intros Hi. unfold present. rewrite map_get_str, (has_field_str m s Hi). split; [reflexivity|].
  unfold member. destruct (assoc_get (KStr s) m) as [v|] eqn:E.
  - destruct v; try reflexivity. right. eauto.
  - destruct (has_function c s); left; reflexivity.
Qed.

(** Lists. *)
Lemma index_list l i :
  v_index (VList l) (VInt i) =
  Ok (if (0 <=? i) && (i <? Z.of_nat (length l)) then nth (Z.to_nat i) l VNull else VNull).
Proof.
  cbn [v_index]. destruct (Z.ltb_spec i 0); destruct (Z.leb_spec 0 i); try lia; cbn [orb andb].
  - reflexivity.
  - destruct (Z.leb_spec (Z.of_nat (length l)) i); destruct (Z.ltb_spec i (Z.of_nat (length l))); try lia; reflexivity.
Qed.

Lemma in_list x l : v_in x (VList l) = Ok (VBool (existsb (fun e => v_eq e x) l)).
Proof. destruct x; reflexivity. Qed.

Lemma utf8_len_app a b : utf8_len (a ++ b) = (utf8_len a + utf8_len b)%N.
Proof.
  induction a as [|c a IH]; [reflexivity|].
  change (utf8_len ((c :: a) ++ b)) with (utf8_len1 c + utf8_len (a ++ b))%N.
  change (utf8_len (c :: a)) with (utf8_len1 c + utf8_len a)%N.
  rewrite IH. now rewrite N.add_assoc.
Qed.

Lemma size_additive_list a b :
  (let! s := v_add (VList a) (VList b) in b_size s) =
  Ok (VInt (Z.of_nat (length a) + Z.of_nat (length b))).
Proof. cbn. rewrite app_length. do 2 f_equal. lia. Qed.

Lemma size_additive_str a b :
  (let! s := v_add (VStr a) (VStr b) in b_size s) =
  Ok (VInt (Z.of_N (utf8_len a) + Z.of_N (utf8_len b))).
Proof. cbn. rewrite utf8_len_app. do 2 f_equal. lia. Qed.

(** Map literals with pairwise distinct literal keys contain exactly the entries written,
    in the order written. *)
Fixpoint distinct_from (seen : list key) (ks : list key) : bool :=
  match ks with
  | [] => true
  | k :: ks' => negb (existsb (key_eqb k) seen) && distinct_from (seen ++ [k]) ks'
  end.

Lemma assoc_set_fresh (k : key) (v : value) m :
  existsb (key_eqb k) (map fst m) = false -> assoc_set k v m = m ++ [(k, v)].
Proof.
  induction m as [|[k' v'] m IH]; cbn [assoc_set existsb map fst app]; [reflexivity|].
  destruct (key_eqb k k'); cbn [orb]; [discriminate|]. intros H. now rewrite IH.
Qed.

Lemma key_of_value_of_key k : key_of_value (value_of_key k) = Some k.
Proof. destruct k; reflexivity. Qed.

Definition lit_entry (kv : key * value) : expr * expr :=
  (ELit (value_of_key (fst kv)), ELit (snd kv)).

Lemma map_literal_go c entries : forall m log,
  distinct_from (map fst m) (map fst entries) = true ->
  map_go (eval c) (map lit_entry entries) m log = (Ok (VMap (m ++ entries)), log).
Proof.
  induction entries as [|[k v] entries IH]; intros m log Hd; cbn [map map_go lit_entry fst snd].
  - now rewrite app_nil_r.
  - rewrite !eval_lit, key_of_value_of_key. cbn [map fst distinct_from] in Hd.
    apply andb_true_iff in Hd as [Hk Hd]. apply negb_true_iff in Hk.
    rewrite (assoc_set_fresh k v m Hk), !app_nil_r.
    rewrite IH.
    + now rewrite <- app_assoc.
    + rewrite map_app. exact Hd.
Qed.

Lemma map_literal c entries : distinct_from [] (map fst entries) = true ->
  eval c (EMap (map lit_entry entries)) = (Ok (VMap entries), []).
Proof. intros H. rewrite eval_map. exact (map_literal_go c entries [] [] H). Qed.
