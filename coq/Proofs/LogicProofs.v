(** C06: the logical operators and the conditional evaluate only what they need. *)
From Coq Require Import String.
From Cel.Model Require Import Eval.
From Cel.Proofs Require Import EvalBase.

Definition e_and (a b : expr) : expr := ECall $"_&&_" None [a; b].
Definition e_or (a b : expr) : expr := ECall $"_||_" None [a; b].
Definition e_cond (c x y : expr) : expr := ECall $"_?_:_" None [c; x; y].

Lemma eval_and c a b :
  eval c (e_and a b) =
  rbind (eval c a) (fun l => if to_bool l
                             then rbind (eval c b) (fun r => ret (Ok (VBool (to_bool r))))
                             else ret (Ok (VBool false))).
Proof. unfold e_and. rewrite eval_call. reflexivity. Qed.

Lemma eval_or c a b :
  eval c (e_or a b) =
  rbind (eval c a) (fun l => if to_bool l then ret (Ok l) else eval c b).
Proof. unfold e_or. rewrite eval_call. reflexivity. Qed.

Lemma eval_cond c cnd x y :
  eval c (e_cond cnd x y) =
  rbind (eval c cnd) (fun vc => if to_bool vc then eval c x else eval c y).
Proof. unfold e_cond. rewrite eval_call. reflexivity. Qed.

Lemma and_skips c a b va la :
  eval c a = (Ok va, la) -> to_bool va = false ->
  eval c (e_and a b) = (Ok (VBool false), la).
Proof.
  intros Ha Hf. rewrite eval_and, Ha. cbn [rbind]. rewrite Hf. cbn. now rewrite app_nil_r.
Qed.

Lemma and_continues c a b va la :
  eval c a = (Ok va, la) -> to_bool va = true ->
  eval c (e_and a b) =
  match eval c b with
  | (Ok vb, lb) => (Ok (VBool (to_bool vb)), la ++ lb)
  | (Err x, lb) => (Err x, la ++ lb)
  | (Crash s, lb) => (Crash s, la ++ lb)
  end.
Proof.
  intros Ha Ht. rewrite eval_and, Ha. cbn [rbind]. rewrite Ht.
  destruct (eval c b) as [[vb|x|s] lb]; cbn; rewrite ?app_nil_r; reflexivity.
Qed.

Lemma or_skips c a b va la :
  eval c a = (Ok va, la) -> to_bool va = true ->
  eval c (e_or a b) = (Ok va, la).
Proof.
  intros Ha Ht. rewrite eval_or, Ha. cbn [rbind]. rewrite Ht. cbn. now rewrite app_nil_r.
Qed.

Lemma or_continues c a b va la :
  eval c a = (Ok va, la) -> to_bool va = false ->
  eval c (e_or a b) = let '(r, lb) := eval c b in (r, la ++ lb).
Proof.
  intros Ha Hf. rewrite eval_or, Ha. cbn [rbind]. rewrite Hf. reflexivity.
Qed.

Lemma cond_one c cnd x y vc lc :
  eval c cnd = (Ok vc, lc) ->
  eval c (e_cond cnd x y) =
  let '(r, l) := eval c (if to_bool vc then x else y) in (r, lc ++ l).
Proof.
  intros Hc. rewrite eval_cond, Hc. cbn [rbind]. destruct (to_bool vc); reflexivity.
Qed.

Lemma err_left c a b x la :
  eval c a = (Err x, la) ->
  eval c (e_and a b) = (Err x, la) /\ eval c (e_or a b) = (Err x, la) /\
  (forall y, eval c (e_cond a b y) = (Err x, la)).
Proof.
  intros Ha. rewrite eval_and, eval_or, Ha. repeat split.
  intros y. rewrite eval_cond, Ha. reflexivity.
Qed.

(** No event of a skipped operand occurs: the log of the whole is exactly the log of what
    was evaluated (stated for an arbitrary event [ev] that the skipped operand would emit but
    the evaluated part does not). *)
Lemma no_event_from_skipped_and c a b va la ev :
  eval c a = (Ok va, la) -> to_bool va = false -> ~ In ev la ->
  ~ In ev (snd (eval c (e_and a b))).
Proof. intros Ha Hf Hn. rewrite (and_skips c a b va la Ha Hf). exact Hn. Qed.

Lemma no_event_from_skipped_or c a b va la ev :
  eval c a = (Ok va, la) -> to_bool va = true -> ~ In ev la ->
  ~ In ev (snd (eval c (e_or a b))).
Proof. intros Ha Hf Hn. rewrite (or_skips c a b va la Ha Hf). exact Hn. Qed.

Lemma no_event_from_skipped_cond c cnd x y vc lc ev :
  eval c cnd = (Ok vc, lc) -> ~ In ev lc ->
  ~ In ev (snd (eval c (if to_bool vc then x else y))) ->
  ~ In ev (snd (eval c (e_cond cnd x y))).
Proof.
  intros Hc Hn Hb. rewrite (cond_one c cnd x y vc lc Hc).
  destruct (eval c (if to_bool vc then x else y)) as [r l]. cbn [snd] in *.
  rewrite in_app_iff. tauto.
Qed.
