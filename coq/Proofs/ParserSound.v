(** Soundness of the parser against the grammar's derivation relation (Model/Grammar.v): what
    [p_expr] consumes is derivable from [expr], and likewise for every parser function and its
    nonterminal; the loops extend a derivation of their level on the right.  One induction on
    the fuel, a statement per function (as in ParserTotal.v). *)
From Coq Require Import String Ascii.
From Cel.Model Require Import Surface Grammar.
From Cel.Proofs Require Import ParserRoundtrip ParserTotal.
From Coq Require Import Lia Arith.
Open Scope nat_scope.

Definition snd_ok {A} (G : list tk -> Prop) (p : pres A) (ts : list tk) : Prop :=
  forall e r, p = POk e r -> exists pre, ts = pre ++ r /\ G pre.
Definition loop_ok {A} (G : list tk -> Prop) (p : pres A) (ts : list tk) : Prop :=
  forall e r, p = POk e r -> exists mid, ts = mid ++ r /\ forall pre, G pre -> G (pre ++ mid).

Definition args_close (pre : list tk) : Prop :=
  pre = [TRParen] \/ exists l, GexprList l /\ pre = l ++ [TRParen].
Definition argsr_close (pre : list tk) : Prop := exists l, GexprList l /\ pre = l ++ [TRParen].
Definition elems_close (pre : list tk) : Prop :=
  pre = [TRBracket] \/ exists l c, GlistInit l /\ optcomma c /\ pre = l ++ c ++ [TRBracket].
Definition entries_close (pre : list tk) : Prop :=
  pre = [TRBrace] \/ exists l c, GmapInit l /\ optcomma c /\ pre = l ++ c ++ [TRBrace].
Definition fields_close (pre : list tk) : Prop :=
  pre = [TRBrace] \/ exists l c, GfieldInit l /\ optcomma c /\ pre = l ++ c ++ [TRBrace].

Record SIH (f : nat) : Prop := {
  Sexpr : forall ts, snd_ok Gexpr (p_expr f ts) ts;
  Sor : forall ts, snd_ok Gor (p_or f ts) ts;
  Sand : forall ts, snd_ok Gand (p_and f ts) ts;
  Srel : forall ts, snd_ok Grel (p_rel f ts) ts;
  Sadd : forall ts, snd_ok Gcalc (p_add f ts) ts;
  Smul : forall ts, snd_ok Gcalc (p_mul f ts) ts;
  Sunary : forall ts, snd_ok Gunary (p_unary f ts) ts;
  Smember : forall ts, snd_ok Gmember (p_member f ts) ts;
  Sprimary : forall ts, snd_ok Gprimary (p_primary f ts) ts;
  Sorl : forall acc ts, loop_ok Gor (p_or_loop f acc ts) ts;
  Sandl : forall acc ts, loop_ok Gand (p_and_loop f acc ts) ts;
  Srell : forall l ts, loop_ok Grel (p_rel_loop f l ts) ts;
  Saddl : forall l ts, loop_ok Gcalc (p_add_loop f l ts) ts;
  Smull : forall l ts, loop_ok Gcalc (p_mul_loop f l ts) ts;
  Spostfix : forall e ts, loop_ok Gmember (p_postfix f e ts) ts;
  Sargs : forall ts, snd_ok args_close (p_args f ts) ts;
  Sargsr : forall acc ts, snd_ok argsr_close (p_args_rest f acc ts) ts;
  Selems : forall acc ts, snd_ok elems_close (p_elems f acc ts) ts;
  Sentries : forall acc ts, snd_ok entries_close (p_entries f acc ts) ts;
  Sfields : forall acc ts, snd_ok fields_close (p_fields f acc ts) ts
}.

Ltac leq := repeat (progress (rewrite <- ?app_assoc; cbn [app])); reflexivity.
(** done with an immediate result [POk x l = POk e r] *)
Ltac ret H := injection H as <- <-.

Section Step.
Variable f : nat.
Hypothesis IH : SIH f.

Lemma s_expr ts : snd_ok Gexpr (p_expr (S f) ts) ts.
Proof.
  intros e r H. rewrite u_expr in H.
  destruct (p_or f ts) as [c l| |] eqn:E1; try discriminate.
  apply (Sor f IH) in E1 as (p1 & -> & G1).
  assert (D : POk c l = POk e r -> exists pre, p1 ++ l = pre ++ r /\ Gexpr pre).
  { intros H'. ret H'. exists p1. split; [reflexivity|now constructor]. }
  destruct l as [|t l]; [exact (D H)|]. destruct t; try exact (D H). clear D.
  destruct (p_or f l) as [a l2| |] eqn:E2; try discriminate.
  apply (Sor f IH) in E2 as (p2 & -> & G2).
  destruct l2 as [|t l2]; [discriminate|]. destruct t; try discriminate.
  destruct (p_expr f l2) as [b l3| |] eqn:E3; try discriminate.
  apply (Sexpr f IH) in E3 as (p3 & -> & G3). ret H.
  exists (p1 ++ TQuestion :: p2 ++ TColon :: p3). split; [leq|now constructor].
Qed.

(** head (loop) for the four left-associative levels *)
Lemma head_loop {A} (G1 G2 : list tk -> Prop) (p1 : pres A) (k : A -> list tk -> pres A) ts :
  snd_ok G1 p1 ts -> (forall a, G1 a -> G2 a) ->
  (forall x l, loop_ok G2 (k x l) l) ->
  snd_ok G2 (match p1 with POk x l => k x l | PFail => PFail | PFuel => PFuel end) ts.
Proof.
  intros H1 Inj HL e r H. destruct p1 as [x l| |]; try discriminate.
  destruct (H1 x l eq_refl) as (pre & -> & Gp).
  destruct (HL x l e r H) as (mid & -> & K).
  exists (pre ++ mid). split; [leq|]. apply K, Inj, Gp.
Qed.

Lemma s_or ts : snd_ok Gor (p_or (S f) ts) ts.
Proof.
  rewrite u_or. apply (head_loop Gand Gor (p_and f ts) (fun t l => p_or_loop f [t] l)).
  - apply (Sand f IH). - intros; now constructor. - intros; apply (Sorl f IH).
Qed.
Lemma s_and ts : snd_ok Gand (p_and (S f) ts) ts.
Proof.
  rewrite u_and. apply (head_loop Grel Gand (p_rel f ts) (fun t l => p_and_loop f [t] l)).
  - apply (Srel f IH). - intros; now constructor. - intros; apply (Sandl f IH).
Qed.
Lemma s_rel ts : snd_ok Grel (p_rel (S f) ts) ts.
Proof.
  rewrite u_rel. apply (head_loop Gcalc Grel (p_add f ts) (fun t l => p_rel_loop f t l)).
  - apply (Sadd f IH). - intros; now constructor. - intros; apply (Srell f IH).
Qed.
Lemma s_add ts : snd_ok Gcalc (p_add (S f) ts) ts.
Proof.
  rewrite u_add. apply (head_loop Gcalc Gcalc (p_mul f ts) (fun t l => p_add_loop f t l)).
  - apply (Smul f IH). - auto. - intros; apply (Saddl f IH).
Qed.
Lemma s_mul ts : snd_ok Gcalc (p_mul (S f) ts) ts.
Proof.
  rewrite u_mul. apply (head_loop Gunary Gcalc (p_unary f ts) (fun t l => p_mul_loop f t l)).
  - apply (Sunary f IH). - intros; now constructor. - intros; apply (Smull f IH).
Qed.

(** one more round of a loop: [op item] then the loop again *)
Lemma loop_step {A} (G1 G2 : list tk -> Prop) (op : tk) (p1 : pres A) (k : A -> list tk -> pres A) ts :
  snd_ok G1 p1 ts ->
  (forall pre b, G2 pre -> G1 b -> G2 (pre ++ op :: b)) ->
  (forall x l, loop_ok G2 (k x l) l) ->
  loop_ok G2 (match p1 with POk x l => k x l | PFail => PFail | PFuel => PFuel end) (op :: ts).
Proof.
  intros H1 Ext HL e r H. destruct p1 as [x l| |]; try discriminate.
  destruct (H1 x l eq_refl) as (b & -> & Gb).
  destruct (HL x l e r H) as (mid & -> & K).
  exists (op :: b ++ mid). split; [leq|].
  intros pre Gp. replace (pre ++ op :: b ++ mid) with ((pre ++ op :: b) ++ mid) by leq.
  apply K, Ext; assumption.
Qed.
Lemma loop_done {A} (G : list tk -> Prop) (x : A) ts : loop_ok G (POk x ts) ts.
Proof. intros e r H. ret H. exists []. split; [reflexivity|]. intros pre Gp. now rewrite app_nil_r. Qed.

Lemma s_or_loop acc ts : loop_ok Gor (p_or_loop (S f) acc ts) ts.
Proof.
  rewrite u_or_loop. destruct ts as [|t ts]; [apply loop_done|]. destruct t; try apply loop_done.
  apply (loop_step Gand Gor TOrOr (p_and f ts) (fun t l => p_or_loop f (t :: acc) l)).
  - apply (Sand f IH). - intros; now constructor. - intros; apply (Sorl f IH).
Qed.
Lemma s_and_loop acc ts : loop_ok Gand (p_and_loop (S f) acc ts) ts.
Proof.
  rewrite u_and_loop. destruct ts as [|t ts]; [apply loop_done|]. destruct t; try apply loop_done.
  apply (loop_step Grel Gand TAndAnd (p_rel f ts) (fun t l => p_and_loop f (t :: acc) l)).
  - apply (Srel f IH). - intros; now constructor. - intros; apply (Sandl f IH).
Qed.
Lemma s_rel_loop lhs ts : loop_ok Grel (p_rel_loop (S f) lhs ts) ts.
Proof.
  rewrite u_rel_loop. destruct ts as [|t ts]; [apply loop_done|].
  destruct (relop_name t) as [n|] eqn:N; [|apply loop_done].
  apply (loop_step Gcalc Grel t (p_add f ts) (fun r l => p_rel_loop f (ECall n None [lhs; r]) l)).
  - apply (Sadd f IH). - intros pre b Gp Gb. eapply GR_op; eauto. now constructor. - intros; apply (Srell f IH).
Qed.
Lemma s_add_loop lhs ts : loop_ok Gcalc (p_add_loop (S f) lhs ts) ts.
Proof.
  rewrite u_add_loop. destruct ts as [|t ts]; [apply loop_done|].
  destruct (addop_name t) as [n|] eqn:N; [|apply loop_done].
  apply (loop_step Gcalc Gcalc t (p_mul f ts) (fun r l => p_add_loop f (ECall n None [lhs; r]) l)).
  - apply (Smul f IH). - intros pre b Gp Gb. eapply GC_add; eauto. - intros; apply (Saddl f IH).
Qed.
Lemma s_mul_loop lhs ts : loop_ok Gcalc (p_mul_loop (S f) lhs ts) ts.
Proof.
  rewrite u_mul_loop. destruct ts as [|t ts]; [apply loop_done|].
  destruct (mulop_name t) as [n|] eqn:N; [|apply loop_done].
  apply (loop_step Gunary Gcalc t (p_unary f ts) (fun r l => p_mul_loop f (ECall n None [lhs; r]) l)).
  - apply (Sunary f IH). - intros pre b Gp Gb. eapply GC_mul; eauto. now constructor. - intros; apply (Smull f IH).
Qed.

Lemma s_member ts : snd_ok Gmember (p_member (S f) ts) ts.
Proof.
  rewrite u_member. apply (head_loop Gprimary Gmember (p_primary f ts) (fun p l => p_postfix f p l)).
  - apply (Sprimary f IH). - intros; now constructor. - intros; apply (Spostfix f IH).
Qed.
End Step.

Lemma count_prefix_spec (P : tk -> bool) (t0 : tk) :
  (forall x, P x = true -> x = t0) ->
  forall ts n ts1, count_prefix P ts = (n, ts1) -> ts = repeat t0 n ++ ts1.
Proof.
  intros HP. induction ts as [|x ts IHts]; intros n ts1; cbn [count_prefix].
  - intros [= <- <-]. reflexivity.
  - destruct (P x) eqn:Px.
    + destruct (count_prefix P ts) as [k r]. intros [= <- <-]. apply HP in Px. subst x.
      cbn [repeat app]. f_equal. now apply IHts.
    + intros [= <- <-]. reflexivity.
Qed.
Lemma count_prefix_pos P t ts : P t = true -> exists k r, count_prefix P (t :: ts) = (S k, r).
Proof. intros Pt. cbn [count_prefix]. rewrite Pt. destruct (count_prefix P ts) as [k r]. eauto. Qed.
Lemma is_bang_eq x : is_bang x = true -> x = TBang. Proof. destruct x; now try discriminate. Qed.
Lemma is_minus_eq x : is_minus x = true -> x = TMinus. Proof. destruct x; now try discriminate. Qed.

Lemma msg_prefix_spec fuel : forall ts acc names r,
  msg_prefix fuel ts acc = Some (names, r) -> exists ids, ts = ids ++ TLBrace :: r /\ Gids ids.
Proof.
  induction fuel as [|fuel IHf]; intros ts acc names r; cbn [msg_prefix]; [discriminate|].
  destruct ts as [|t ts]; [discriminate|]. destruct t; try discriminate.
  destruct ts as [|t2 ts]; [discriminate|]. destruct t2; try discriminate.
  - intros [= <- <-]. exists [TIdent text]. split; [reflexivity|constructor].
  - intros H. apply IHf in H as (ids & -> & G). exists (TIdent text :: TDot :: ids). split; [reflexivity|now constructor].
Qed.

Lemma literal_of_spec ts e r : literal_of ts = Some (e, r) -> exists pre, ts = pre ++ r /\ Gliteral pre.
Proof.
  unfold literal_of. destruct ts as [|t ts]; [discriminate|].
  destruct t; try discriminate;
  try (match goal with |- context [option_map _ ?x] => destruct x; cbn [option_map]; try discriminate end);
  try (intros [= <- <-]; eexists [_]; split; [reflexivity|constructor]).
  destruct ts as [|t2 ts]; [discriminate|]. destruct t2; try discriminate;
  (match goal with |- context [option_map _ ?x] => destruct x; cbn [option_map]; try discriminate end);
  (intros [= <- <-]; eexists [_; _]; split; [reflexivity|constructor]).
Qed.

Lemma mk_call_ok id t args ts e r : mk_call id t args ts = POk e r -> r = ts.
Proof. unfold mk_call. destruct (expand_call id t args); [now intros [= _ <-]|discriminate]. Qed.

Section Step2.
Variable f : nat.
Hypothesis IH : SIH f.

Lemma s_unary ts : snd_ok Gunary (p_unary (S f) ts) ts.
Proof.
  rewrite u_unary.
  assert (D : snd_ok Gunary (p_member f ts) ts).
  { intros e r H. apply (Smember f IH) in H as (pre & -> & G). exists pre. split; [reflexivity|now constructor]. }
  assert (P : forall (P : tk -> bool) t0 nm (C : forall k m, Gmember m -> Gunary (repeat t0 (S k) ++ m)) t ts0,
            ts = t :: ts0 -> P t = true -> (forall x, P x = true -> x = t0) ->
            snd_ok Gunary (let '(k, ts1) := count_prefix P ts in
              match p_member f ts1 with POk m ts2 => POk (if Nat.odd k then ECall nm None [m] else m) ts2 | r => r end) ts).
  { intros P t0 nm C t ts0 -> Pt HP e r H.
    destruct (count_prefix_pos P t ts0 Pt) as (k & ts1 & E). rewrite E in H.
    apply (count_prefix_spec P t0 HP) in E. rewrite E.
    destruct (p_member f ts1) as [m l| |] eqn:M; try discriminate. ret H.
    apply (Smember f IH) in M as (pm & -> & G).
    exists (repeat t0 (S k) ++ pm). split; [leq|now apply C]. }
  destruct ts as [|t ts0]; [exact D|].
  destruct t; try exact D.
  - destruct (is_number_tok ts0); [exact D|].
    eapply (P is_minus TMinus); [intros; now constructor|reflexivity|reflexivity|exact is_minus_eq].
  - eapply (P is_bang TBang); [intros; now constructor|reflexivity|reflexivity|exact is_bang_eq].
Qed.

(** a postfix segment followed by the postfix loop again *)
Lemma postfix_step seg e' ts1 :
  (forall pre, Gmember pre -> Gmember (pre ++ seg)) ->
  loop_ok Gmember (p_postfix f e' ts1) (seg ++ ts1).
Proof.
  intros Ext e r H. apply (Spostfix f IH) in H as (mid & -> & K).
  exists (seg ++ mid). split; [leq|].
  intros pre Gp. replace (pre ++ seg ++ mid) with ((pre ++ seg) ++ mid) by leq. apply K, Ext, Gp.
Qed.

Lemma s_postfix e ts : loop_ok Gmember (p_postfix (S f) e ts) ts.
Proof.
  rewrite u_postfix.
  destruct ts as [|t ts]; [apply loop_done|]. destruct t; try apply loop_done.
  - (* bracket *)
    assert (D : loop_ok Gmember match p_expr f ts with
      | POk i (TRBracket :: ts2) => p_postfix f (ECall $"_[_]" None [e; i]) ts2
      | POk _ _ => PFail | PFail => PFail | PFuel => PFuel end (TLBracket :: ts)).
    { intros e0 r H. destruct (p_expr f ts) as [i l| |] eqn:E; try discriminate.
      apply (Sexpr f IH) in E as (pi & -> & Gi).
      destruct l as [|t l]; [discriminate|]. destruct t; try discriminate.
      replace (TLBracket :: pi ++ TRBracket :: l) with ((TLBracket :: pi ++ [TRBracket]) ++ l) by leq.
      revert e0 r H. apply postfix_step. intros pre Gp.
      apply (GM_index pre [] pi Gp); [now left|exact Gi]. }
    destruct ts as [|t ts]; [exact D|]. destruct t; try exact D. intros e0 r H; discriminate.
  - (* dot *)
    destruct ts as [|t ts]; [apply loop_done|]. destruct t; try apply loop_done.
    + assert (D : forall ts, loop_ok Gmember (p_postfix f (ESelect e text false) ts) (TDot :: TIdent text :: ts)).
      { intros ts'. apply (postfix_step [TDot; TIdent text]). intros pre Gp.
        apply (GM_select pre [] (TIdent text) Gp); [now left|constructor]. }
      destruct ts as [|t ts]; [apply D|]. destruct t; try apply D.
      intros e0 r H. destruct (p_args f ts) as [args l| |] eqn:A; try discriminate.
      apply (Sargs f IH) in A as (pa & -> & Ga).
      destruct (mk_call text (Some e) args l) as [e' r'| |] eqn:Mk; try discriminate.
      apply mk_call_ok in Mk. subst r'.
      replace (TDot :: TIdent text :: TLParen :: pa ++ l) with ((TDot :: TIdent text :: TLParen :: pa) ++ l) by leq.
      revert e0 r H. apply postfix_step. intros pre Gp.
      destruct Ga as [->|(la & Gl & ->)]; [now apply GM_call0|now apply GM_call].
    + apply (postfix_step [TDot; TEscIdent text]). intros pre Gp.
      apply (GM_select pre [] (TEscIdent text) Gp); [now left|constructor].
Qed.

Lemma s_args ts : snd_ok args_close (p_args (S f) ts) ts.
Proof.
  rewrite u_args.
  assert (D : snd_ok args_close (p_args_rest f [] ts) ts).
  { intros e r H. apply (Sargsr f IH) in H as (pre & -> & G). exists pre. split; [reflexivity|now right]. }
  destruct ts as [|t ts]; [exact D|]. destruct t; try exact D.
  intros e r H. ret H. exists [TRParen]. split; [reflexivity|now left].
Qed.

Lemma s_args_rest acc ts : snd_ok argsr_close (p_args_rest (S f) acc ts) ts.
Proof.
  rewrite u_args_rest. intros e r H.
  destruct (p_expr f ts) as [a l| |] eqn:E; try discriminate.
  apply (Sexpr f IH) in E as (pa & -> & Ga).
  destruct l as [|t l]; [discriminate|]. destruct t; try discriminate.
  - ret H. exists (pa ++ [TRParen]). split; [leq|]. exists pa. split; [now constructor|reflexivity].
  - apply (Sargsr f IH) in H as (pre & -> & (l1 & G1 & ->)).
    exists ((pa ++ TComma :: l1) ++ [TRParen]). split; [leq|]. eexists. split; [apply GL_more; eassumption|reflexivity].
Qed.

Lemma s_elems acc ts : snd_ok elems_close (p_elems (S f) acc ts) ts.
Proof.
  rewrite u_elems.
  assert (D : snd_ok elems_close match p_expr f ts with
      | POk a (TComma :: ts1) => p_elems f (a :: acc) ts1
      | POk a (TRBracket :: ts1) => POk (rev' (a :: acc)) ts1
      | POk _ _ => PFail | PFail => PFail | PFuel => PFuel end ts).
  { intros e r H. destruct (p_expr f ts) as [a l| |] eqn:E; try discriminate.
    apply (Sexpr f IH) in E as (pa & -> & Ga).
    assert (Gi : GlistInit pa) by (apply (GLI_one [] pa); [now left|exact Ga]).
    destruct l as [|t l]; [discriminate|]. destruct t; try discriminate.
    - ret H. exists (pa ++ [] ++ [TRBracket]). split; [leq|]. right. exists pa, []. split; [exact Gi|]. split; [now left|reflexivity].
    - apply (Selems f IH) in H as (pre & -> & [->|(l1 & c & G1 & Oc & ->)]).
      + exists (pa ++ [TComma] ++ [TRBracket]). split; [leq|]. right. exists pa, [TComma]. split; [exact Gi|]. split; [now right|reflexivity].
      + exists ((pa ++ TComma :: l1) ++ c ++ [TRBracket]). split; [leq|]. right. exists (pa ++ TComma :: l1), c.
        split; [apply (GLI_more [] pa l1); [now left|exact Ga|exact G1]|]. split; [exact Oc|reflexivity]. }
  destruct ts as [|t ts]; [exact D|]. destruct t; try exact D.
  - intros e r H. ret H. exists [TRBracket]. split; [reflexivity|now left].
  - intros e r H. discriminate.
Qed.

Lemma s_entries acc ts : snd_ok entries_close (p_entries (S f) acc ts) ts.
Proof.
  rewrite u_entries.
  assert (D : snd_ok entries_close match p_expr f ts with
      | POk k (TColon :: ts1) =>
          match p_expr f ts1 with
          | POk v (TComma :: ts2) => p_entries f ((k, v) :: acc) ts2
          | POk v (TRBrace :: ts2) => POk (rev' ((k, v) :: acc)) ts2
          | POk _ _ => PFail | PFail => PFail | PFuel => PFuel end
      | POk _ _ => PFail | PFail => PFail | PFuel => PFuel end ts).
  { intros e r H. destruct (p_expr f ts) as [k l| |] eqn:E; try discriminate.
    apply (Sexpr f IH) in E as (pk & -> & Gk).
    destruct l as [|t l]; [discriminate|]. destruct t; try discriminate.
    destruct (p_expr f l) as [v l2| |] eqn:E2; try discriminate.
    apply (Sexpr f IH) in E2 as (pv & -> & Gv).
    assert (Gi : GmapInit (pk ++ TColon :: pv)) by (apply (GMI_one [] pk pv); [now left|exact Gk|exact Gv]).
    destruct l2 as [|t l2]; [discriminate|]. destruct t; try discriminate.
    - ret H. exists ((pk ++ TColon :: pv) ++ [] ++ [TRBrace]). split; [leq|]. right. exists (pk ++ TColon :: pv), [].
      split; [exact Gi|]. split; [now left|reflexivity].
    - apply (Sentries f IH) in H as (pre & -> & [->|(l1 & c & G1 & Oc & ->)]).
      + exists ((pk ++ TColon :: pv) ++ [TComma] ++ [TRBrace]). split; [leq|]. right. exists (pk ++ TColon :: pv), [TComma].
        split; [exact Gi|]. split; [now right|reflexivity].
      + exists ((pk ++ TColon :: pv ++ TComma :: l1) ++ c ++ [TRBrace]). split; [leq|]. right.
        exists (pk ++ TColon :: pv ++ TComma :: l1), c.
        split; [apply (GMI_more [] pk pv l1); [now left|exact Gk|exact Gv|exact G1]|]. split; [exact Oc|reflexivity]. }
  destruct ts as [|t ts]; [exact D|]. destruct t; try exact D.
  - intros e r H. ret H. exists [TRBrace]. split; [reflexivity|now left].
  - intros e r H. discriminate.
Qed.

Lemma s_fields acc ts : snd_ok fields_close (p_fields (S f) acc ts) ts.
Proof.
  rewrite u_fields.
  assert (D : forall id n ts1, Gesc id -> snd_ok fields_close match p_expr f ts1 with
      | POk v (TComma :: ts2) => p_fields f ((n, v) :: acc) ts2
      | POk v (TRBrace :: ts2) => POk (rev' ((n, v) :: acc)) ts2
      | POk _ _ => PFail | PFail => PFail | PFuel => PFuel end (id :: TColon :: ts1)).
  { intros id n ts1 Gid e r H. destruct (p_expr f ts1) as [v l| |] eqn:E; try discriminate.
    apply (Sexpr f IH) in E as (pv & -> & Gv).
    assert (Gi : GfieldInit (id :: TColon :: pv)) by (apply (GFI_one [] id pv); [now left|exact Gid|exact Gv]).
    destruct l as [|t l]; [discriminate|]. destruct t; try discriminate.
    - ret H. exists ((id :: TColon :: pv) ++ [] ++ [TRBrace]). split; [leq|]. right. exists (id :: TColon :: pv), [].
      split; [exact Gi|]. split; [now left|reflexivity].
    - apply (Sfields f IH) in H as (pre & -> & [->|(l1 & c & G1 & Oc & ->)]).
      + exists ((id :: TColon :: pv) ++ [TComma] ++ [TRBrace]). split; [leq|]. right. exists (id :: TColon :: pv), [TComma].
        split; [exact Gi|]. split; [now right|reflexivity].
      + exists ((id :: TColon :: pv ++ TComma :: l1) ++ c ++ [TRBrace]). split; [leq|]. right.
        exists (id :: TColon :: pv ++ TComma :: l1), c.
        split; [apply (GFI_more [] id pv l1); [now left|exact Gid|exact Gv|exact G1]|]. split; [exact Oc|reflexivity]. }
  destruct ts as [|t ts]; [intros e r H; discriminate|].
  destruct t; try (intros e r H; discriminate).
  - intros e r H. ret H. exists [TRBrace]. split; [reflexivity|now left].
  - destruct ts as [|t ts]; [intros e r H; discriminate|]. destruct t; try (intros e r H; discriminate).
    apply D. constructor.
  - destruct ts as [|t ts]; [intros e r H; discriminate|]. destruct t; try (intros e r H; discriminate).
    apply D. constructor.
Qed.
End Step2.

Section Step3.
Variable f : nat.
Hypothesis IH : SIH f.

Lemma s_ident_forms b ts0 :
  snd_ok (fun pre => forall d, optdot d -> Gprimary (d ++ pre)) (ident_forms f b ts0) ts0.
Proof.
  intros e r H. unfold ident_forms in H.
  destruct (msg_prefix (S (length ts0)) ts0 []) as [[names r0]|] eqn:M.
  - apply msg_prefix_spec in M as (ids & -> & Gi).
    assert (D : match p_fields f [] r0 with
      | POk fs ts2 => let n := join_dots names in POk (EStruct (if b then 46%N :: n else n) fs) ts2
      | PFail => PFail | PFuel => PFuel end = POk e r ->
      exists pre, ids ++ TLBrace :: r0 = pre ++ r /\ forall d, optdot d -> Gprimary (d ++ pre)).
    { intros H'. destruct (p_fields f [] r0) as [fs l| |] eqn:F; try discriminate. cbv zeta in H'. ret H'.
      apply (Sfields f IH) in F as (pf & -> & [->|(l1 & c & G1 & Oc & ->)]).
      - exists (ids ++ TLBrace :: [] ++ [TRBrace]). split; [leq|]. intros d Od. apply GP_msg0; auto. now left.
      - exists (ids ++ TLBrace :: l1 ++ c ++ [TRBrace]). split; [leq|]. intros d Od. now apply GP_msg. }
    destruct r0 as [|t r0]; [exact (D H)|]. destruct t; try exact (D H).
    destruct r0 as [|t r0]; [exact (D H)|]. destruct t; try exact (D H). clear D. cbv zeta in H. ret H.
    exists (ids ++ TLBrace :: [TComma] ++ [TRBrace]). split; [leq|]. intros d Od. apply GP_msg0; auto. now right.
  - destruct ts0 as [|t ts]; [discriminate|]. destruct t; try discriminate.
    assert (D : POk (EIdent text) ts = POk e r ->
      exists pre, TIdent text :: ts = pre ++ r /\ forall d, optdot d -> Gprimary (d ++ pre)).
    { intros H'. ret H'. exists [TIdent text]. split; [reflexivity|]. intros d Od. now apply GP_ident. }
    destruct ts as [|t ts]; [exact (D H)|]. destruct t; try exact (D H). clear D.
    destruct (p_args f ts) as [args l| |] eqn:A; try discriminate.
    apply (Sargs f IH) in A as (pa & -> & Ga). apply mk_call_ok in H. subst r.
    exists (TIdent text :: TLParen :: pa). split; [leq|]. intros d Od.
    destruct Ga as [->|(la & Gl & ->)]; [now apply GP_call0|now apply GP_call].
Qed.

Lemma s_primary ts : snd_ok Gprimary (p_primary (S f) ts) ts.
Proof.
  rewrite u_primary.
  assert (L : snd_ok Gprimary match literal_of ts with Some (e, r) => POk e r | None => PFail end ts).
  { intros e r H. destruct (literal_of ts) as [[e0 r0]|] eqn:E; [|discriminate]. ret H.
    apply literal_of_spec in E as (pre & -> & G). exists pre. split; [reflexivity|now apply GP_literal]. }
  destruct ts as [|t ts]; [exact L|]. destruct t; try exact L.
  - (* [ *)
    assert (D : snd_ok Gprimary match p_elems f [] ts with
      | POk es ts2 => POk (EList es) ts2 | PFail => PFail | PFuel => PFuel end (TLBracket :: ts)).
    { intros e r H. destruct (p_elems f [] ts) as [es l| |] eqn:E; try discriminate. ret H.
      apply (Selems f IH) in E as (pre & -> & [->|(l1 & c & G1 & Oc & ->)]).
      - exists (TLBracket :: [] ++ [TRBracket]). split; [leq|]. apply GP_list0. now left.
      - exists (TLBracket :: l1 ++ c ++ [TRBracket]). split; [leq|]. now apply GP_list. }
    destruct ts as [|t ts]; [exact D|]. destruct t; try exact D.
    destruct ts as [|t ts]; [exact D|]. destruct t; try exact D.
    intros e r H. ret H. exists (TLBracket :: [TComma] ++ [TRBracket]). split; [reflexivity|]. apply GP_list0. now right.
  - (* { *)
    assert (D : snd_ok Gprimary match p_entries f [] ts with
      | POk es ts2 => POk (EMap es) ts2 | PFail => PFail | PFuel => PFuel end (TLBrace :: ts)).
    { intros e r H. destruct (p_entries f [] ts) as [es l| |] eqn:E; try discriminate. ret H.
      apply (Sentries f IH) in E as (pre & -> & [->|(l1 & c & G1 & Oc & ->)]).
      - exists (TLBrace :: [] ++ [TRBrace]). split; [leq|]. apply GP_map0. now left.
      - exists (TLBrace :: l1 ++ c ++ [TRBrace]). split; [leq|]. now apply GP_map. }
    destruct ts as [|t ts]; [exact D|]. destruct t; try exact D.
    destruct ts as [|t ts]; [exact D|]. destruct t; try exact D.
    intros e r H. ret H. exists (TLBrace :: [TComma] ++ [TRBrace]). split; [reflexivity|]. apply GP_map0. now right.
  - (* ( *)
    intros e r H. destruct (p_expr f ts) as [e0 l| |] eqn:E; try discriminate.
    apply (Sexpr f IH) in E as (pe & -> & Ge).
    destruct l as [|t l]; [discriminate|]. destruct t; try discriminate. ret H.
    exists (TLParen :: pe ++ [TRParen]). split; [leq|]. now apply GP_nested.
  - (* . *)
    intros e r H. apply s_ident_forms in H as (pre & -> & G).
    exists ([TDot] ++ pre). split; [reflexivity|]. apply G. now right.
  - (* ident *)
    intros e r H. apply s_ident_forms in H as (pre & E & G).
    exists pre. split; [exact E|]. apply (G []). now left.
Qed.
End Step3.

Lemma all_sound : forall f, SIH f.
Proof.
  induction f as [|f IH].
  - constructor; intros; intros ? ? H; discriminate.
  - constructor; intros.
    + now apply s_expr. + now apply s_or. + now apply s_and. + now apply s_rel. + now apply s_add.
    + now apply s_mul. + now apply s_unary. + now apply s_member. + now apply s_primary.
    + now apply s_or_loop. + now apply s_and_loop. + now apply s_rel_loop. + now apply s_add_loop.
    + now apply s_mul_loop. + now apply s_postfix. + now apply s_args. + now apply s_args_rest.
    + now apply s_elems. + now apply s_entries. + now apply s_fields.
Qed.

(** Whatever the parser accepts is derivable from the grammar's start rule: all tokens, no
    leftovers. *)
Theorem parse_sound ts e : parse_tokens ts = CExpr e -> Gstart ts.
Proof.
  unfold parse_tokens. destruct (p_expr (parse_fuel ts) ts) as [e0 r| |] eqn:E; try discriminate.
  destruct r; [|discriminate]. intros _.
  apply (Sexpr _ (all_sound _)) in E as (pre & -> & G). now rewrite app_nil_r.
Qed.

Theorem compile_sound src e : compile src = CExpr e -> exists ts, lex src = Some ts /\ Gstart ts.
Proof.
  unfold compile. destruct (lex src) as [ts|]; [|discriminate]. intros H. exists ts. split; [reflexivity|].
  eapply parse_sound, H.
Qed.
