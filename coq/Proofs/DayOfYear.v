(** C16: getDayOfYear.  The accessor is the day number of the local date minus the day number of
    January 1st of the local year; this file proves that this is the ordinal of the date as a
    calendar defines it - the days of the earlier months of that year plus the day of the month,
    counted from 0 - and that it lies in 0..364 (0..365 in leap years), for every timestamp.
    Method as for the civil/day-number round trip: one 400-year cycle by computation, every other
    year by periodicity. *)
From Coq Require Import ZArith Lia List.
From Cel.Model Require Import Timestamp.
From Cel.Proofs Require Import TimestampProofs.
Open Scope Z_scope.

(** days of the months 1..k of year y *)
Fixpoint days_upto (y : Z) (k : nat) : Z :=
  match k with
  | O => 0
  | S k' => days_upto y k' + days_in_month y (Z.of_nat k)
  end.

(** the ordinal of a date, from 0: what chrono's [ordinal0] is *)
Definition ordinal0 (y m d : Z) : Z := days_upto y (Z.to_nat (m - 1)) + d - 1.
Definition last_ordinal (y : Z) : Z := if is_leap y then 365 else 364.

Definition ord_ok (y m d : Z) : Prop :=
  valid_date y m d = true ->
  days_from_civil y m d - days_from_civil y 1 1 = ordinal0 y m d /\
  0 <= ordinal0 y m d <= last_ordinal y.

Definition ord_test (i : Z) : bool :=
  let '(y, m, d) := date_of_index i in
  if valid_date y m d then
    let o := ordinal0 y m d in
    (days_from_civil y m d - days_from_civil y 1 1 =? o) && (0 <=? o) && (o <=? last_ordinal y)
  else true.

(** years 1..400 (index 0 .. 148799), checked by computation *)
Lemma ord_sweep : check_range ord_test 18 0 = true.
Proof. vm_compute. reflexivity. Qed.

Lemma ord_ok_base y m d : 1 <= y <= 400 -> ord_ok y m d.
Proof.
  intros Hy Hv. destruct (valid_bounds y m d Hv) as [Hm Hd].
  set (i := (y - 1) * 372 + (m - 1) * 31 + (d - 1)).
  assert (Hi : 0 <= i < 0 + 2 ^ Z.of_nat 18) by (subst i; cbn; lia).
  pose proof (check_range_spec ord_test 18 0 ord_sweep i Hi) as H.
  unfold ord_test, date_of_index in H.
  replace (i / 372 + 1) with y in H by (subst i; lia).
  replace ((i mod 372) / 31 + 1) with m in H by (subst i; lia).
  replace (i mod 31 + 1) with d in H by (subst i; lia).
  rewrite Hv in H. cbv zeta in H.
  rewrite !andb_true_iff, Z.eqb_eq, !Z.leb_le in H. destruct H as [[H1 H2] H3].
  split; [exact H1|split; assumption].
Qed.

Lemma days_in_month_period y k : days_in_month (y + 400) k = days_in_month y k.
Proof. unfold days_in_month. now rewrite leap_period. Qed.

Lemma days_upto_period y k : days_upto (y + 400) k = days_upto y k.
Proof. induction k as [|k IH]; cbn [days_upto]; [reflexivity|]. now rewrite IH, days_in_month_period. Qed.

Lemma ord_ok_shift y m d : ord_ok y m d <-> ord_ok (y + 400) m d.
Proof.
  unfold ord_ok, ordinal0, last_ordinal.
  rewrite valid_period, !days_period, days_upto_period, leap_period.
  replace (days_from_civil y m d + cycle - (days_from_civil y 1 1 + cycle))
    with (days_from_civil y m d - days_from_civil y 1 1) by lia.
  tauto.
Qed.

Lemma ord_ok_shift_k k : 0 <= k -> forall y m d, ord_ok y m d <-> ord_ok (y + k * 400) m d.
Proof.
  intros Hk. pattern k. apply natlike_ind; [| |exact Hk].
  - intros y m d. now replace (y + 0 * 400) with y by lia.
  - intros x Hx IH y m d. replace (y + Z.succ x * 400) with ((y + x * 400) + 400) by lia.
    rewrite <- ord_ok_shift. apply IH.
Qed.

Theorem ordinal_of_date y m d : ord_ok y m d.
Proof.
  set (k := (y - 1) / 400). set (r := (y - 1) mod 400).
  assert (Hy : y = (1 + r) + k * 400) by (unfold k, r; lia).
  assert (Hr : 0 <= r < 400) by (unfold r; lia).
  clearbody k r.
  destruct (Z_le_gt_dec 0 k) as [Hk|Hk].
  - rewrite Hy. apply (proj1 (ord_ok_shift_k k Hk (1 + r) m d)). apply ord_ok_base. lia.
  - assert (Hb : ord_ok (1 + r) m d) by (apply ord_ok_base; lia).
    apply (proj2 (ord_ok_shift_k (- k) ltac:(lia) y m d)).
    replace (y + - k * 400) with (1 + r) by (rewrite Hy; lia). exact Hb.
Qed.

(** getDayOfYear of any timestamp is the ordinal (from 0) of its local date. *)
Theorem day_of_year_spec ns off :
  let f := local_fields ns off in
  access ADayOfYear ns off = ordinal0 (f_year f) (f_month f) (f_day f) /\
  0 <= access ADayOfYear ns off <= last_ordinal (f_year f).
Proof.
  pose proof (fields_spec ns off) as H. cbv zeta in H. destruct H as (H1 & H2 & _).
  cbv zeta. unfold access.
  destruct (ordinal_of_date _ _ _ H2) as [E R].
  assert (Hd : f_days (local_fields ns off) = (ns + off * ns_per_s) / ns_per_s / 86400) by reflexivity.
  rewrite Hd, <- H1. split; [exact E|rewrite E; exact R].
Qed.
