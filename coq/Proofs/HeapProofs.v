(** C05 (b): the reference-count discipline of list / string concatenation never lets an execution
    change a buffer the context (or an earlier result) holds. *)
From Coq Require Import String.
From Cel.Model Require Import Heap.
From Coq Require Import Lia Arith.
Open Scope nat_scope.

(** ** The primitive steps, by their effect on counts, payloads and the store's size *)
Lemma upd_len σ : forall l f, length (upd σ l f) = length σ.
Proof. induction σ as [|c σ IH]; intros [|l] f; cbn [upd length]; auto. Qed.

Lemma upd_nth σ : forall l f k, nth_error (upd σ l f) k =
  if Nat.eqb k l then option_map f (nth_error σ k) else nth_error σ k.
Proof.
  induction σ as [|c σ IH]; intros l f k.
  - assert (E : nth_error (@nil cell) k = None) by (destruct k; reflexivity).
    destruct l; cbn [upd]; rewrite E; destruct (Nat.eqb k _); reflexivity.
  - destruct l as [|l], k as [|k]; cbn [upd nth_error Nat.eqb option_map]; try reflexivity. apply IH.
Qed.

Lemma nth_some σ k : k < length σ -> exists c : cell, nth_error σ k = Some c.
Proof. intros H. destruct (nth_error σ k) eqn:E; [eauto|]. apply nth_error_None in E. lia. Qed.

Lemma rc_inc σ l k : l < length σ -> rc_of (inc σ l) k = rc_of σ k + (if Nat.eqb k l then 1 else 0).
Proof.
  intros Hl. unfold rc_of, inc. rewrite upd_nth. destruct (Nat.eqb_spec k l) as [->|]; [|lia].
  destruct (nth_some σ l Hl) as [c ->]. cbn. lia.
Qed.
Lemma rc_dec σ l k : rc_of (dec σ l) k = rc_of σ k - (if Nat.eqb k l then 1 else 0).
Proof.
  unfold rc_of, dec. rewrite upd_nth. destruct (Nat.eqb_spec k l) as [->|]; [|lia].
  destruct (nth_error σ l); cbn; lia.
Qed.
Lemma rc_set σ l p k : rc_of (set_pl σ l p) k = rc_of σ k.
Proof.
  unfold rc_of, set_pl. rewrite upd_nth. destruct (Nat.eqb k l); [|reflexivity]. now destruct (nth_error σ k).
Qed.
Lemma pl_inc σ l k : pl_of (inc σ l) k = pl_of σ k.
Proof. unfold pl_of, inc. rewrite upd_nth. destruct (Nat.eqb k l); [|reflexivity]. now destruct (nth_error σ k). Qed.
Lemma pl_dec σ l k : pl_of (dec σ l) k = pl_of σ k.
Proof. unfold pl_of, dec. rewrite upd_nth. destruct (Nat.eqb k l); [|reflexivity]. now destruct (nth_error σ k). Qed.
Lemma pl_set σ l p k : l < length σ -> pl_of (set_pl σ l p) k = if Nat.eqb k l then p else pl_of σ k.
Proof.
  intros Hl. unfold pl_of, set_pl. rewrite upd_nth. destruct (Nat.eqb_spec k l) as [->|]; [|reflexivity].
  destruct (nth_some σ l Hl) as [c ->]. reflexivity.
Qed.
Lemma len_inc σ l : length (inc σ l) = length σ. Proof. apply upd_len. Qed.
Lemma len_dec σ l : length (dec σ l) = length σ. Proof. apply upd_len. Qed.
Lemma len_set σ l p : length (set_pl σ l p) = length σ. Proof. apply upd_len. Qed.

Lemma rc_alloc σ c k : rc_of (σ ++ [c]) k = if k <? length σ then rc_of σ k else if Nat.eqb k (length σ) then rc c else 0.
Proof.
  unfold rc_of. destruct (Nat.ltb_spec k (length σ)).
  - now rewrite nth_error_app1.
  - rewrite nth_error_app2 by lia. destruct (Nat.eqb_spec k (length σ)) as [->|Hn].
    + now rewrite Nat.sub_diag.
    + destruct (k - length σ) as [|j] eqn:E; [lia|]. cbn. now destruct j.
Qed.
Lemma pl_alloc σ c k : pl_of (σ ++ [c]) k = if k <? length σ then pl_of σ k else if Nat.eqb k (length σ) then pl c else PList [].
Proof.
  unfold pl_of. destruct (Nat.ltb_spec k (length σ)).
  - now rewrite nth_error_app1.
  - rewrite nth_error_app2 by lia. destruct (Nat.eqb_spec k (length σ)) as [->|Hn].
    + now rewrite Nat.sub_diag.
    + destruct (k - length σ) as [|j] eqn:E; [lia|]. cbn. now destruct j.
Qed.
Lemma rc_out σ k : length σ <= k -> rc_of σ k = 0.
Proof. intros H. unfold rc_of. now rewrite (proj2 (nth_error_None σ k) H). Qed.

(** ** What one execution does to the store *)
Definition wf (σ : store) (ρ : list hval) : Prop :=
  forall l, In (HRef l) ρ -> l < length σ /\ 1 <= rc_of σ l.

Definition tick (r : outcome hval) (l : nat) : nat :=
  match r with Ok (HRef k) => if Nat.eqb k l then 1 else 0 | _ => 0 end.

(** [result_ok ρ σ σ' r]: relative to the store [σ] the execution started from - no cell that
    existed is changed, its owner count grew by exactly the handle (if any) the result holds to
    it, and the result is either a context buffer (one more owner) or a fresh buffer with a
    single owner. *)
Definition result_ok (ρ : list hval) (σ σ' : store) (r : outcome hval) : Prop :=
  length σ <= length σ' /\
  (forall l, l < length σ -> pl_of σ' l = pl_of σ l) /\
  (forall l, l < length σ -> rc_of σ' l = rc_of σ l + tick r l) /\
  (forall k, r = Ok (HRef k) ->
     k < length σ' /\ (k < length σ -> In (HRef k) ρ) /\ (length σ <= k -> rc_of σ' k = 1)).

Definition items_of (σ : store) (l : nat) : list Z := match pl_of σ l with PList a => a | PStr _ => [] end.
Definition chars_of (σ : store) (l : nat) : str := match pl_of σ l with PStr a => a | PList _ => [] end.

Section Add.
  Variables (ρ : list hval) (σ0 σ : store) (la lb : nat).
  Hypothesis W : wf σ0 ρ.
  Hypothesis L : length σ0 <= length σ.
  Hypothesis P : forall l, l < length σ0 -> pl_of σ l = pl_of σ0 l.
  Hypothesis R : forall l, l < length σ0 ->
    rc_of σ l = rc_of σ0 l + (if Nat.eqb la l then 1 else 0) + (if Nat.eqb lb l then 1 else 0).
  Hypothesis A : la < length σ /\ (la < length σ0 -> In (HRef la) ρ) /\ (length σ0 <= la -> rc_of σ la = 1 /\ lb <> la).
  Hypothesis B : lb < length σ /\ (lb < length σ0 -> In (HRef lb) ρ) /\ (length σ0 <= lb -> rc_of σ lb = 1 /\ lb <> la).

  Lemma old_left_shared : la < length σ0 -> 2 <= rc_of σ la.
  Proof.
    intros H. destruct A as (_ & Ain & _). destruct (W la (Ain H)) as [_ Hrc].
    rewrite (R la H), Nat.eqb_refl. lia.
  Qed.
  Lemma old_right_shared : lb < length σ0 -> 2 <= rc_of σ lb.
  Proof.
    intros H. destruct B as (_ & Bin & _). destruct (W lb (Bin H)) as [_ Hrc].
    rewrite (R lb H), Nat.eqb_refl. lia.
  Qed.

  (** after make_mut on the left handle *)
  Lemma make_mut_left σ1 l' : make_mut σ la = (σ1, l') ->
    length σ <= length σ1 /\ length σ0 <= l' /\ l' < length σ1 /\ l' <> lb /\ rc_of σ1 l' = 1 /\
    pl_of σ1 l' = pl_of σ la /\
    (forall l, l < length σ -> l <> l' -> pl_of σ1 l = pl_of σ l) /\
    (forall l, l < length σ0 -> rc_of σ1 l = rc_of σ0 l + (if Nat.eqb lb l then 1 else 0)) /\
    (length σ0 <= lb -> rc_of σ1 lb = 1) /\ lb < length σ1.
  Proof.
    unfold make_mut. destruct A as (Al & Ain & Afresh). destruct B as (Bl & Bin & Bfresh).
    destruct (Nat.eqb_spec (rc_of σ la) 1) as [E|E].
    - intros [= <- <-].
      assert (Hf : length σ0 <= la).
      { destruct (Nat.le_gt_cases (length σ0) la); [assumption|]. pose proof (old_left_shared H). lia. }
      destruct (Afresh Hf) as [_ Hne].
      split; [lia|]. split; [exact Hf|]. split; [exact Al|]. split; [congruence|]. split; [exact E|].
      split; [reflexivity|]. split; [reflexivity|]. split; [|split; [|exact Bl]].
      + intros l Hl. rewrite (R l Hl). destruct (Nat.eqb_spec la l); lia.
      + intros Hb. now destruct (Bfresh Hb).
    - cbn [alloc]. intros [= <- <-].
      assert (Hold : la < length σ0).
      { destruct (Nat.le_gt_cases (length σ0) la) as [H|H]; [|assumption]. destruct (Afresh H). lia. }
      rewrite len_dec, app_length. cbn [length].
      repeat split; try lia.
      + rewrite rc_dec, rc_alloc. destruct (Nat.ltb_spec (length σ) (length σ)); [lia|].
        rewrite Nat.eqb_refl. cbn [rc]. destruct (Nat.eqb_spec (length σ) la); lia.
      + rewrite pl_dec, pl_alloc. destruct (Nat.ltb_spec (length σ) (length σ)); [lia|].
        now rewrite Nat.eqb_refl.
      + intros l Hl Hne. rewrite pl_dec, pl_alloc. destruct (Nat.ltb_spec l (length σ)); [reflexivity|lia].
      + intros l Hl. rewrite rc_dec, rc_alloc. destruct (Nat.ltb_spec l (length σ)); [|lia].
        rewrite (R l Hl). destruct (Nat.eqb_spec l la), (Nat.eqb_spec la l); lia.
      + intros Hb. destruct (Bfresh Hb) as [Hr Hne]. rewrite rc_dec, rc_alloc.
        destruct (Nat.ltb_spec lb (length σ)); [|lia]. destruct (Nat.eqb_spec lb la); [congruence|lia].
  Qed.

  Lemma add_list_spec σ' l' : add_list σ la lb = (σ', l') ->
    length σ0 <= length σ' /\
    (forall l, l < length σ0 -> pl_of σ' l = pl_of σ0 l /\ rc_of σ' l = rc_of σ0 l) /\
    length σ0 <= l' /\ l' < length σ' /\ rc_of σ' l' = 1 /\
    pl_of σ' l' = PList (items_of σ la ++ items_of σ lb).
  Proof.
    unfold add_list. destruct (make_mut σ la) as [σ1 m] eqn:Em.
    destruct (make_mut_left σ1 m Em) as (M1 & M2 & M3 & M4 & M5 & M6 & M7 & M8 & M9 & M10).
    intros [= <- <-].
    set (σ2 := if Nat.eqb (rc_of σ1 lb) 1 then set_pl σ1 lb (PList []) else σ1).
    assert (L2 : length σ2 = length σ1) by (unfold σ2; destruct (Nat.eqb _ 1); [apply len_set|reflexivity]).
    assert (R2 : forall k, rc_of σ2 k = rc_of σ1 k) by (intros k; unfold σ2; destruct (Nat.eqb _ 1); [apply rc_set|reflexivity]).
    assert (P2 : forall k, k <> lb \/ lb < length σ0 -> pl_of σ2 k = pl_of σ1 k).
    { intros k Hk. unfold σ2. destruct (Nat.eqb_spec (rc_of σ1 lb) 1) as [E|E]; [|reflexivity].
      rewrite pl_set by exact M10. destruct (Nat.eqb_spec k lb) as [->|]; [|reflexivity].
      destruct Hk as [Hk|Hk]; [congruence|]. rewrite (M8 lb Hk), Nat.eqb_refl in E.
      destruct B as (_ & Bin & _). destruct (W lb (Bin Hk)). lia. }
    destruct B as (Bl & _ & _).
    rewrite len_dec, len_set, L2.
    split; [lia|]. split; [|split; [exact M2|split; [exact M3|split]]].
    - intros l Hl. split.
      + rewrite pl_dec, pl_set by lia. destruct (Nat.eqb_spec l m); [lia|].
        rewrite P2, M7, P; auto; try lia.
      + rewrite rc_dec, rc_set, R2, (M8 l Hl). destruct (Nat.eqb_spec lb l), (Nat.eqb_spec l lb); lia.
    - rewrite rc_dec, rc_set, R2, M5. destruct (Nat.eqb_spec m lb); [congruence|lia].
    - rewrite pl_dec, pl_set by lia. rewrite Nat.eqb_refl. f_equal. f_equal.
      + unfold items_of. now rewrite M6.
      + unfold items_of. rewrite M7 by (lia || congruence). reflexivity.
  Qed.

  Lemma add_str_spec σ' l' : add_str σ la lb = (σ', l') ->
    length σ0 <= length σ' /\
    (forall l, l < length σ0 -> pl_of σ' l = pl_of σ0 l /\ rc_of σ' l = rc_of σ0 l) /\
    length σ0 <= l' /\ l' < length σ' /\ rc_of σ' l' = 1 /\
    pl_of σ' l' = PStr (chars_of σ la ++ chars_of σ lb).
  Proof.
    unfold add_str. destruct (make_mut σ la) as [σ1 m] eqn:Em.
    destruct (make_mut_left σ1 m Em) as (M1 & M2 & M3 & M4 & M5 & M6 & M7 & M8 & M9 & M10).
    intros [= <- <-]. destruct B as (Bl & _ & _).
    rewrite len_dec, len_set.
    split; [lia|]. split; [|split; [exact M2|split; [exact M3|split]]].
    - intros l Hl. split.
      + rewrite pl_dec, pl_set by lia. destruct (Nat.eqb_spec l m); [lia|]. rewrite M7, P; auto; lia.
      + rewrite rc_dec, rc_set, (M8 l Hl). destruct (Nat.eqb_spec lb l), (Nat.eqb_spec l lb); lia.
    - rewrite rc_dec, rc_set, M5. destruct (Nat.eqb_spec m lb); [congruence|lia].
    - rewrite pl_dec, pl_set by lia. rewrite Nat.eqb_refl. f_equal. f_equal.
      + unfold chars_of. now rewrite M6.
      + unfold chars_of. rewrite M7 by (lia || congruence). reflexivity.
  Qed.
End Add.

Lemma denote_env ρ σ σ1 : wf σ ρ -> (forall l, l < length σ -> pl_of σ1 l = pl_of σ l) ->
  map (denote σ1) ρ = map (denote σ) ρ.
Proof.
  intros W P. apply map_ext_in. intros [z|l] Hin; [reflexivity|]. cbn [denote].
  destruct (W l Hin) as [Hl _]. now rewrite (P l Hl).
Qed.

Definition read (σ : store) (r : outcome hval) : outcome pval :=
  match r with Ok h => Ok (denote σ h) | Err c => Err c | Crash s => Crash s end.

Lemma wf_mono ρ σ σ1 : wf σ ρ -> length σ <= length σ1 ->
  (forall l, l < length σ -> rc_of σ l <= rc_of σ1 l) -> wf σ1 ρ.
Proof. intros W L R l Hin. destruct (W l Hin) as [Hl Hr]. specialize (R l Hl). split; lia. Qed.

Theorem eval_h_spec e : forall ρ σ σ' r, wf σ ρ -> eval_h ρ σ e = (σ', r) ->
  result_ok ρ σ σ' r /\ read σ' r = peval (map (denote σ) ρ) e.
Proof.
  induction e as [z|i|items|s|a IHa b IHb]; intros ρ σ σ' r W; cbn [eval_h peval].
  - intros [= <- <-]. split; [|reflexivity]. repeat split; auto; try discriminate; try (cbn; lia).
  - rewrite nth_error_map. destruct (nth_error ρ i) as [v|] eqn:Ev; cbn [option_map].
    + intros [= <- <-]. destruct v as [z|l].
      * split; [|reflexivity]. repeat split; auto; try discriminate; try (cbn; lia).
      * destruct (W l (nth_error_In _ _ Ev)) as [Hl Hr]. cbn [clone_h]. split.
        -- unfold result_ok. rewrite len_inc. split; [lia|]. split; [intros k _; apply pl_inc|]. split.
           ++ intros k _. rewrite (rc_inc σ l k Hl). cbn [tick]. now rewrite Nat.eqb_sym.
           ++ intros k [= <-]. split; [exact Hl|]. split; [intros _; exact (nth_error_In _ _ Ev)|lia].
        -- cbn [read denote]. now rewrite pl_inc.
    + intros [= <- <-]. split; [|reflexivity]. repeat split; auto; try discriminate; try (cbn; lia).
  - cbn [alloc]. intros [= <- <-]. split.
    + unfold result_ok. rewrite app_length. cbn [length]. split; [lia|]. split; [|split].
      * intros k Hk. rewrite pl_alloc. destruct (Nat.ltb_spec k (length σ)); [reflexivity|lia].
      * intros k Hk. rewrite rc_alloc. destruct (Nat.ltb_spec k (length σ)); [|lia]. cbn [tick].
        destruct (Nat.eqb_spec (length σ) k); lia.
      * intros k [= <-]. split; [lia|]. split; [lia|]. intros _. rewrite rc_alloc.
        destruct (Nat.ltb_spec (length σ) (length σ)); [lia|]. now rewrite Nat.eqb_refl.
    + cbn [read denote]. rewrite pl_alloc. destruct (Nat.ltb_spec (length σ) (length σ)); [lia|]. now rewrite Nat.eqb_refl.
  - cbn [alloc]. intros [= <- <-]. split.
    + unfold result_ok. rewrite app_length. cbn [length]. split; [lia|]. split; [|split].
      * intros k Hk. rewrite pl_alloc. destruct (Nat.ltb_spec k (length σ)); [reflexivity|lia].
      * intros k Hk. rewrite rc_alloc. destruct (Nat.ltb_spec k (length σ)); [|lia]. cbn [tick].
        destruct (Nat.eqb_spec (length σ) k); lia.
      * intros k [= <-]. split; [lia|]. split; [lia|]. intros _. rewrite rc_alloc.
        destruct (Nat.ltb_spec (length σ) (length σ)); [lia|]. now rewrite Nat.eqb_refl.
    + cbn [read denote]. rewrite pl_alloc. destruct (Nat.ltb_spec (length σ) (length σ)); [lia|]. now rewrite Nat.eqb_refl.
  - destruct (eval_h ρ σ a) as [σ1 ra] eqn:Ea.
    destruct (IHa ρ σ σ1 ra W Ea) as [(La & Pa & Ra & Fa) Da].
    destruct ra as [ha|c|s]; cbn [read] in Da; rewrite <- Da; cbn [obind];
      [|intros [= <- <-]; split; [repeat split; auto; discriminate|reflexivity]
       |intros [= <- <-]; split; [repeat split; auto; discriminate|reflexivity]].
    assert (W1 : wf σ1 ρ) by (apply (wf_mono ρ σ σ1 W La); intros l Hl; rewrite (Ra l Hl); lia).
    destruct (eval_h ρ σ1 b) as [σ2 rb] eqn:Eb.
    destruct (IHb ρ σ1 σ2 rb W1 Eb) as [(Lb & Pb & Rb & Fb) Db].
    rewrite (denote_env ρ σ σ1 W Pa) in Db.
    destruct rb as [hb|c|s]; cbn [read] in Db; rewrite <- Db; cbn [obind].
    2: { (* the right operand fails: the left handle is dropped *)
      intros [= <- <-]. split; [|reflexivity]. unfold result_ok.
      assert (Hlen : length (drop_h σ2 ha) = length σ2) by (destruct ha; [reflexivity|apply len_dec]).
      rewrite Hlen. split; [lia|]. split; [|split; [|discriminate]].
      - intros l Hl. destruct ha as [z|la]; cbn [drop_h]; rewrite ?pl_dec, Pb, Pa; auto; lia.
      - intros l Hl. cbn [tick]. destruct ha as [z|la]; cbn [drop_h].
        + rewrite (Rb l ltac:(lia)), (Ra l Hl). cbn. lia.
        + rewrite rc_dec, (Rb l ltac:(lia)), (Ra l Hl). cbn [tick]. destruct (Nat.eqb_spec la l), (Nat.eqb_spec l la); lia. }
    2: { intros [= <- <-]. split; [|reflexivity]. unfold result_ok.
      assert (Hlen : length (drop_h σ2 ha) = length σ2) by (destruct ha; [reflexivity|apply len_dec]).
      rewrite Hlen. split; [lia|]. split; [|split; [|discriminate]].
      - intros l Hl. destruct ha as [z|la]; cbn [drop_h]; rewrite ?pl_dec, Pb, Pa; auto; lia.
      - intros l Hl. cbn [tick]. destruct ha as [z|la]; cbn [drop_h].
        + rewrite (Rb l ltac:(lia)), (Ra l Hl). cbn. lia.
        + rewrite rc_dec, (Rb l ltac:(lia)), (Ra l Hl). cbn [tick]. destruct (Nat.eqb_spec la l), (Nat.eqb_spec l la); lia. }
    (* both operands evaluated *)
    assert (Dha : denote σ2 ha = denote σ1 ha).
    { destruct ha as [z|la]; [reflexivity|]. cbn [denote]. destruct (Fa la eq_refl) as (Hla & _). now rewrite (Pb la Hla). }
    rewrite <- Dha.
    destruct ha as [x|la], hb as [y|lb]; cbn [add_h drop_h].
    + intros [= <- <-]. split; [|reflexivity]. unfold result_ok. split; [lia|]. split; [|split; [|discriminate]].
      * intros l Hl. rewrite Pb, Pa; auto; lia.
      * intros l Hl. rewrite (Rb l ltac:(lia)), (Ra l Hl). cbn. lia.
    + intros [= <- <-]. split.
      * unfold result_ok. rewrite len_dec. split; [lia|]. split; [|split; [|discriminate]].
        -- intros l Hl. rewrite pl_dec, Pb, Pa; auto; lia.
        -- intros l Hl. rewrite rc_dec, (Rb l ltac:(lia)), (Ra l Hl). cbn [tick].
           destruct (Nat.eqb_spec lb l), (Nat.eqb_spec l lb); lia.
      * cbn [read denote padd]. now destruct (pl_of σ2 lb).
    + intros [= <- <-]. split.
      * unfold result_ok. rewrite len_dec. split; [lia|]. split; [|split; [|discriminate]].
        -- intros l Hl. rewrite pl_dec, Pb, Pa; auto; lia.
        -- intros l Hl. rewrite rc_dec, (Rb l ltac:(lia)), (Ra l Hl). cbn [tick].
           destruct (Nat.eqb_spec la l), (Nat.eqb_spec l la); lia.
      * cbn [read denote padd]. now destruct (pl_of σ2 la).
    + (* two buffers *)
      destruct (Fa la eq_refl) as (Hla & Ain & Afr). destruct (Fb lb eq_refl) as (Hlb & Bin & Bfr).
      assert (HR : forall l, l < length σ ->
                rc_of σ2 l = rc_of σ l + (if Nat.eqb la l then 1 else 0) + (if Nat.eqb lb l then 1 else 0)).
      { intros l Hl. rewrite (Rb l ltac:(lia)), (Ra l Hl). reflexivity. }
      assert (HP : forall l, l < length σ -> pl_of σ2 l = pl_of σ l) by (intros l Hl; rewrite Pb, Pa; auto; lia).
      assert (HA : la < length σ2 /\ (la < length σ -> In (HRef la) ρ) /\ (length σ <= la -> rc_of σ2 la = 1 /\ lb <> la)).
      { split; [lia|]. split; [exact Ain|]. intros Hf.
        assert (Hne : lb <> la).
        { intros ->. destruct (W la (Bin Hla)). lia. }
        split; [|exact Hne]. rewrite (Rb la Hla), (Afr Hf). cbn [tick]. destruct (Nat.eqb_spec lb la); [congruence|lia]. }
      assert (HB : lb < length σ2 /\ (lb < length σ -> In (HRef lb) ρ) /\ (length σ <= lb -> rc_of σ2 lb = 1 /\ lb <> la)).
      { split; [exact Hlb|]. split; [intros H; apply Bin; lia|]. intros Hf.
        assert (Hf1 : length σ1 <= lb).
        { destruct (Nat.le_gt_cases (length σ1) lb); [assumption|]. destruct (W lb (Bin H)). lia. }
        split; [exact (Bfr Hf1)|lia]. }
      destruct (pl_of σ2 la) as [xa|sa] eqn:Epa, (pl_of σ2 lb) as [xb|sb] eqn:Epb.
      * destruct (add_list σ2 la lb) as [σ3 m] eqn:Eadd. intros [= <- <-].
        destruct (add_list_spec ρ σ σ2 la lb W ltac:(lia) HP HR HA HB σ3 m Eadd) as (S1 & S2 & S3 & S4 & S5 & S6).
        split.
        -- unfold result_ok. split; [exact S1|]. split; [intros l Hl; apply (S2 l Hl)|]. split.
           ++ intros l Hl. destruct (S2 l Hl) as [_ ->]. cbn [tick]. destruct (Nat.eqb_spec m l); lia.
           ++ intros k [= <-]. split; [exact S4|]. split; [lia|]. intros _. exact S5.
        -- cbn [read denote padd]. rewrite S6, Epa, Epb. unfold items_of. now rewrite Epa, Epb.
      * intros [= <- <-]. split.
        -- unfold result_ok. rewrite !len_dec. split; [lia|]. split; [|split; [|discriminate]].
           ++ intros l Hl. rewrite !pl_dec. now apply HP.
           ++ intros l Hl. rewrite !rc_dec, (HR l Hl). cbn [tick].
              destruct (Nat.eqb_spec la l), (Nat.eqb_spec l la), (Nat.eqb_spec lb l), (Nat.eqb_spec l lb); lia.
        -- cbn [read denote padd]. now rewrite Epa, Epb.
      * intros [= <- <-]. split.
        -- unfold result_ok. rewrite !len_dec. split; [lia|]. split; [|split; [|discriminate]].
           ++ intros l Hl. rewrite !pl_dec. now apply HP.
           ++ intros l Hl. rewrite !rc_dec, (HR l Hl). cbn [tick].
              destruct (Nat.eqb_spec la l), (Nat.eqb_spec l la), (Nat.eqb_spec lb l), (Nat.eqb_spec l lb); lia.
        -- cbn [read denote padd]. now rewrite Epa, Epb.
      * destruct (add_str σ2 la lb) as [σ3 m] eqn:Eadd. intros [= <- <-].
        destruct (add_str_spec ρ σ σ2 la lb W ltac:(lia) HP HR HA HB σ3 m Eadd) as (S1 & S2 & S3 & S4 & S5 & S6).
        split.
        -- unfold result_ok. split; [exact S1|]. split; [intros l Hl; apply (S2 l Hl)|]. split.
           ++ intros l Hl. destruct (S2 l Hl) as [_ ->]. cbn [tick]. destruct (Nat.eqb_spec m l); lia.
           ++ intros k [= <-]. split; [exact S4|]. split; [lia|]. intros _. exact S5.
        -- cbn [read denote padd]. rewrite S6, Epa, Epb. unfold chars_of. now rewrite Epa, Epb.
Qed.

(** ** Histories: every execution yields what it yields alone; the context is unchanged *)
Theorem history_spec es : forall ρ σ σ' outs, wf σ ρ -> run_history ρ σ es = (σ', outs) ->
  outs = map (peval (map (denote σ) ρ)) es /\ length σ <= length σ' /\
  (forall l, l < length σ -> pl_of σ' l = pl_of σ l /\ rc_of σ' l = rc_of σ l).
Proof.
  induction es as [|e es IH]; intros ρ σ σ' outs W; cbn [run_history map].
  - intros [= <- <-]. repeat split; auto.
  - destruct (eval_h ρ σ e) as [σ1 r] eqn:Ee.
    destruct (eval_h_spec e ρ σ σ1 r W Ee) as [(L1 & P1 & R1 & F1) D1].
    set (σ2 := match r with Ok h => drop_h σ1 h | _ => σ1 end).
    assert (L2 : length σ2 = length σ1) by (unfold σ2; destruct r as [[z|l]| |]; try reflexivity; apply len_dec).
    assert (P2 : forall l, l < length σ -> pl_of σ2 l = pl_of σ l).
    { intros l Hl. unfold σ2. destruct r as [[z|k]| |]; cbn [drop_h]; rewrite ?pl_dec; now apply P1. }
    assert (R2 : forall l, l < length σ -> rc_of σ2 l = rc_of σ l).
    { intros l Hl. unfold σ2. destruct r as [[z|k]| |]; cbn [drop_h]; rewrite ?rc_dec, (R1 l Hl); cbn [tick]; try lia.
      destruct (Nat.eqb_spec k l), (Nat.eqb_spec l k); lia. }
    assert (W2 : wf σ2 ρ) by (apply (wf_mono ρ σ σ2 W ltac:(lia)); intros l Hl; rewrite (R2 l Hl); lia).
    destruct (run_history ρ σ2 es) as [σ3 outs'] eqn:Eh. intros [= <- <-].
    destruct (IH ρ σ2 σ3 outs' W2 Eh) as (O3 & L3 & PR3).
    split; [|split; [lia|]].
    + f_equal.
      * unfold read in D1. rewrite <- D1. now destruct r.
      * rewrite O3. now rewrite (denote_env ρ σ σ2 W P2).
    + intros l Hl. destruct (PR3 l ltac:(lia)) as [-> ->]. split; [now apply P2|now apply R2].
Qed.

(** ** Results that stay alive *)
Lemma read_stable σ σ' r : (forall k, r = Ok (HRef k) -> k < length σ) ->
  (forall l, l < length σ -> pl_of σ' l = pl_of σ l) -> read σ' r = read σ r.
Proof.
  intros Hk P. destruct r as [[z|k]|c|s]; cbn [read denote]; try reflexivity.
  now rewrite (P k (Hk k eq_refl)).
Qed.

(** Every result, read at the very end with all the others still alive, is what its program
    yields alone; no buffer that existed at the start - the context's in particular - has
    changed; and each result handle points into the final store. *)
Theorem keep_spec es : forall ρ σ σ' rs, wf σ ρ -> run_keep ρ σ es = (σ', rs) ->
  map (read σ') rs = map (peval (map (denote σ) ρ)) es /\ length σ <= length σ' /\
  (forall l, l < length σ -> pl_of σ' l = pl_of σ l) /\
  (forall l, l < length σ -> rc_of σ l <= rc_of σ' l) /\
  Forall (fun r => forall k, r = Ok (HRef k) -> k < length σ') rs.
Proof.
  induction es as [|e es IH]; intros ρ σ σ' rs W; cbn [run_keep map].
  - intros [= <- <-]. repeat split; auto.
  - destruct (eval_h ρ σ e) as [σ1 r] eqn:Ee.
    destruct (eval_h_spec e ρ σ σ1 r W Ee) as [(L1 & P1 & R1 & F1) D1].
    assert (W1 : wf σ1 ρ) by (apply (wf_mono ρ σ σ1 W L1); intros l Hl; rewrite (R1 l Hl); lia).
    destruct (run_keep ρ σ1 es) as [σ2 rs'] eqn:Ek. intros [= <- <-].
    destruct (IH ρ σ1 σ2 rs' W1 Ek) as (D2 & L2 & P2 & R2 & F2).
    assert (Hk : forall k, r = Ok (HRef k) -> k < length σ1) by (intros k E; now destruct (F1 k E)).
    split; [|split; [lia|split; [|split]]].
    + cbn [map]. f_equal.
      * rewrite (read_stable σ1 σ2 r Hk P2). exact D1.
      * rewrite D2. now rewrite (denote_env ρ σ σ1 W P1).
    + intros l Hl. rewrite (P2 l ltac:(lia)). now apply P1.
    + intros l Hl. specialize (R2 l ltac:(lia)). rewrite (R1 l Hl) in R2. lia.
    + constructor; [intros k E; specialize (Hk k E); lia|exact F2].
Qed.

(** ** Any interleaving *)
(** owner counts are exactly the handles in existence; handles point into the store *)
Definition inv (c : cfg) : Prop :=
  forall l, rc_of (st c) l = cnt l (hs c) /\ (0 < cnt l (hs c) -> l < length (st c)).

Lemma cnt_cons x h k : cnt k (x :: h) = cnt k h + (if Nat.eqb k x then 1 else 0).
Proof. unfold cnt. cbn [count_occ]. destruct (Nat.eq_dec x k) as [->|H]; [rewrite Nat.eqb_refl; lia|]. destruct (Nat.eqb_spec k x); [congruence|lia]. Qed.
Lemma cnt_nil k : cnt k [] = 0. Proof. reflexivity. Qed.

Lemma cnt_remove1 l h k : cnt k (remove1 l h) = cnt k h - (if Nat.eqb k l then (if 0 <? cnt l h then 1 else 0) else 0).
Proof.
  induction h as [|x h IH]; cbn [remove1].
  - rewrite !cnt_nil. destruct (Nat.eqb k l); reflexivity.
  - rewrite !cnt_cons. destruct (Nat.eqb_spec x l) as [->|Hx].
    + rewrite Nat.eqb_refl. destruct (Nat.eqb_spec k l) as [E|Hk].
      * subst k. replace (0 <? cnt l h + 1) with true by (symmetry; apply Nat.ltb_lt; lia). lia.
      * lia.
    + rewrite cnt_cons, IH. destruct (Nat.eqb_spec l x); [congruence|].
      destruct (Nat.eqb_spec k l) as [E|Hk].
      * subst k. replace (l =? x) with false by (symmetry; apply Nat.eqb_neq; congruence). rewrite !Nat.add_0_r. destruct (0 <? cnt l h); lia.
      * lia.
Qed.

Lemma rc_of_lt σ l : 0 < rc_of σ l -> l < length σ.
Proof. intros H. destruct (Nat.lt_ge_cases l (length σ)); [assumption|]. rewrite rc_out in H by assumption. lia. Qed.

(** what one step does: the invariant is kept, every cell to which a pinned handle exists
    keeps its payload, and pinned handles stay counted *)
Lemma step_inv pinned c o c' :
  inv c -> (forall l, cnt l pinned <= cnt l (hs c)) -> step pinned c o = Some c' ->
  inv c' /\ (forall l, cnt l pinned <= cnt l (hs c')) /\
  (forall l, 0 < cnt l pinned -> pl_of (st c') l = pl_of (st c) l) /\
  length (st c) <= length (st c').
Proof.
  intros I P H. destruct o as [l|l|p|l p]; cbn [step] in H.
  - (* clone *)
    destruct (Nat.ltb_spec 0 (cnt l (hs c))) as [Hl|]; [|discriminate]. injection H as <-. cbn [st hs].
    destruct (I l) as [_ Il]. specialize (Il Hl).
    split; [|split; [|split]].
    + intros k. cbn [st hs]. rewrite (rc_inc _ l k Il), cnt_cons, len_inc. destruct (I k) as [Ik Lk]. split; [lia|].
      intros Hk. destruct (Nat.eqb_spec k l) as [->|]; [exact Il|apply Lk; lia].
    + intros k. cbn [st hs]. rewrite cnt_cons. specialize (P k). lia.
    + intros k _. cbn [st hs]. apply pl_inc.
    + cbn [st]. rewrite len_inc. lia.
  - (* drop *)
    unfold free_handle in H. destruct (Nat.ltb_spec (cnt l pinned) (cnt l (hs c))) as [Hl|]; [|discriminate].
    injection H as <-. cbn [st hs].
    split; [|split; [|split]].
    + intros k. cbn [st hs]. rewrite rc_dec, cnt_remove1, len_dec. destruct (I k) as [Ik Lk].
      replace (0 <? cnt l (hs c)) with true by (symmetry; apply Nat.ltb_lt; lia).
      split; [destruct (Nat.eqb k l); lia|]. intros Hk. apply Lk. destruct (Nat.eqb k l); lia.
    + intros k. cbn [st hs]. rewrite cnt_remove1. specialize (P k).
      replace (0 <? cnt l (hs c)) with true by (symmetry; apply Nat.ltb_lt; lia).
      destruct (Nat.eqb_spec k l) as [->|]; lia.
    + intros k _. cbn [st hs]. apply pl_dec.
    + cbn [st]. rewrite len_dec. lia.
  - (* alloc *)
    unfold alloc in H. injection H as <-. cbn [st hs].
    split; [|split; [|split]].
    + intros k. cbn [st hs]. rewrite rc_alloc, cnt_cons, app_length. cbn [length rc]. destruct (I k) as [Ik Lk].
      destruct (Nat.ltb_spec k (length (st c))) as [Hk|Hk].
      * destruct (Nat.eqb_spec k (length (st c))); [lia|]. split; lia.
      * assert (cnt k (hs c) = 0) by (destruct (Nat.eq_dec (cnt k (hs c)) 0); [assumption|]; specialize (Lk ltac:(lia)); lia).
        destruct (Nat.eqb_spec k (length (st c))); split; lia.
    + intros k. cbn [st hs]. rewrite cnt_cons. specialize (P k). lia.
    + intros k Hk. cbn [st hs]. rewrite pl_alloc. specialize (P k). destruct (I k) as [_ Lk]. specialize (Lk ltac:(lia)).
      destruct (Nat.ltb_spec k (length (st c))); [reflexivity|lia].
    + cbn [st]. rewrite app_length. lia.
  - (* append through make_mut *)
    unfold free_handle in H. destruct (Nat.ltb_spec (cnt l pinned) (cnt l (hs c))) as [Hl|]; [|discriminate].
    destruct (I l) as [Rl Ll]. specialize (Ll ltac:(lia)).
    unfold make_mut in H. destruct (Nat.eqb_spec (rc_of (st c) l) 1) as [H1|H1].
    + (* sole owner: in place; then no pinned handle to l exists *)
      injection H as <-. cbn [st hs]. rewrite Nat.eqb_refl.
      split; [|split; [|split]].
      * intros k. cbn [st hs]. rewrite rc_set, len_set. apply I.
      * exact P.
      * intros k Hk. cbn [st hs]. rewrite pl_set by exact Ll. destruct (Nat.eqb_spec k l) as [->|]; [|reflexivity]. lia.
      * cbn [st]. rewrite len_set. lia.
    + (* shared: a private copy *)
      unfold alloc in H. injection H as <-. cbn [st hs].
      assert (Hne : Nat.eqb (length (st c)) l = false) by (apply Nat.eqb_neq; lia). rewrite Hne.
      assert (Lc : length (dec (st c ++ [{| rc := 1; pl := pl_of (st c) l |}]) l) = S (length (st c)))
        by (rewrite len_dec, app_length; cbn; lia).
      split; [|split; [|split]].
      * intros k. cbn [st hs]. rewrite rc_set, rc_dec, rc_alloc, len_set, Lc, cnt_cons, cnt_remove1. cbn [rc].
        destruct (I k) as [Ik Lk].
        replace (0 <? cnt l (hs c)) with true by (symmetry; apply Nat.ltb_lt; lia).
        destruct (Nat.ltb_spec k (length (st c))) as [Hk|Hk].
        -- destruct (Nat.eqb_spec k (length (st c))); [lia|]. split; [destruct (Nat.eqb k l); lia|lia].
        -- assert (cnt k (hs c) = 0) by (destruct (Nat.eq_dec (cnt k (hs c)) 0); [assumption|]; specialize (Lk ltac:(lia)); lia).
           destruct (Nat.eqb_spec k l); [lia|].
           destruct (Nat.eqb_spec k (length (st c))); split; lia.
      * intros k. cbn [st hs]. rewrite cnt_cons, cnt_remove1. specialize (P k).
        replace (0 <? cnt l (hs c)) with true by (symmetry; apply Nat.ltb_lt; lia).
        destruct (Nat.eqb_spec k l) as [E|]; [subst k|]; destruct (Nat.eqb _ (length (st c))); lia.
      * intros k Hk. cbn [st hs]. specialize (P k). destruct (I k) as [_ Lk]. specialize (Lk ltac:(lia)).
        rewrite pl_set by (rewrite Lc; lia). destruct (Nat.eqb_spec k (length (st c))); [lia|].
        rewrite pl_dec, pl_alloc. destruct (Nat.ltb_spec k (length (st c))); [reflexivity|lia].
      * cbn [st]. rewrite len_set, Lc. lia.
Qed.

(** For EVERY sequence of steps - every interleaving of any number of threads - the buffers the
    context holds keep their payload, owner counts stay exact, and nothing is freed while a
    handle to it exists. *)
Theorem any_interleaving pinned ops : forall c c',
  inv c -> (forall l, cnt l pinned <= cnt l (hs c)) -> steps pinned c ops = Some c' ->
  inv c' /\ (forall l, cnt l pinned <= cnt l (hs c')) /\
  (forall l, 0 < cnt l pinned -> pl_of (st c') l = pl_of (st c) l).
Proof.
  induction ops as [|o ops IH]; intros c c' I P H; cbn [steps] in H.
  - injection H as <-. repeat split; auto; apply I.
  - destruct (step pinned c o) as [c1|] eqn:E; [|discriminate].
    destruct (step_inv pinned c o c1 I P E) as (I1 & P1 & Q1 & _).
    destruct (IH c1 c' I1 P1 H) as (I2 & P2 & Q2).
    split; [exact I2|]. split; [exact P2|]. intros l Hl. rewrite (Q2 l Hl). now apply Q1.
Qed.
