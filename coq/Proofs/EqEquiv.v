(** C09: on values whose doubles are IEEE-754 doubles and whose maps hold each key once, [==] is
    TRANSITIVE - across the three kinds of numbers (through the exact numbers denoted), through
    lists, maps and function values - and REFLEXIVE on values that contain no NaN.  With the
    symmetry of [EqSymmetry] it is an equivalence relation there. *)
From Coq Require Import String Ascii.
From Coq Require Import ZArith QArith Lia.
From Cel.Model Require Import Compare.
From Cel.Proofs Require Import CompareProofs FloatOrder SerdeProofs JsonProofs EqSymmetry.
Open Scope Z_scope.

(** every double inside the value is a valid binary64 *)
Fixpoint all_valid (v : value) : Prop :=
  match v with
  | VList l => (fix go (l : list value) : Prop :=
                  match l with [] => True | x :: l' => all_valid x /\ go l' end) l
  | VMap m => (fix go (m : list (key * value)) : Prop :=
                 match m with [] => True | (_, x) :: m' => all_valid x /\ go m' end) m
  | VFun _ (Some x) => all_valid x
  | VDbl f => fvalid f
  | _ => True
  end.

Lemma valid_list l : all_valid (VList l) <-> Forall all_valid l.
Proof.
  cbn [all_valid]. induction l as [|x l IH].
  - split; [constructor|trivial].
  - rewrite IH. split; [intros [H1 H2]; constructor; assumption|inversion 1; auto].
Qed.

Lemma valid_map m : all_valid (VMap m) <-> Forall (fun kv => all_valid (snd kv)) m.
Proof.
  cbn [all_valid]. induction m as [|[k x] m IH].
  - split; [constructor|trivial].
  - rewrite IH. split; [intros [H1 H2]; constructor; assumption|inversion 1; auto].
Qed.

Lemma all_valid_vvalid v : all_valid v -> vvalid v.
Proof. destruct v; cbn; auto. Qed.

(** equality of the numbers denoted is transitive *)
Lemma xcmp_eq_trans a b c : xcmp a b = Some Eq -> xcmp b c = Some Eq -> xcmp a c = Some Eq.
Proof.
  destruct a as [|s|p], b as [|t|q], c as [|u|r]; cbn; try discriminate;
    try (destruct s; discriminate); try (destruct t; discriminate); try (destruct u; discriminate);
    try (destruct s, t, u; (discriminate || reflexivity)).
  intros [= H1] [= H2]. f_equal. apply Qeq_alt in H1. apply Qeq_alt in H2. apply Qeq_alt.
  now rewrite H1.
Qed.

Lemma num_eq_trans a b c da db dc : vvalid a -> vvalid b -> vvalid c ->
  den a = Some da -> den b = Some db -> den c = Some dc ->
  v_eq a b = true -> v_eq b c = true -> v_eq a c = true.
Proof.
  intros Va Vb Vc Ha Hb Hc.
  rewrite (eq_exact_all a b da db Va Vb Ha Hb), (eq_exact_all b c db dc Vb Vc Hb Hc),
          (eq_exact_all a c da dc Va Vc Ha Hc).
  destruct (xcmp da db) as [[]|] eqn:E1; try discriminate.
  destruct (xcmp db dc) as [[]|] eqn:E2; try discriminate.
  now rewrite (xcmp_eq_trans _ _ _ E1 E2).
Qed.

Definition good (v : value) : Prop := nodup_maps v /\ all_valid v.

Definition trans_at (a : value) : Prop :=
  forall b c, good a -> good b -> good c -> v_eq a b = true -> v_eq b c = true -> v_eq a c = true.

Lemma good_list l : good (VList l) <-> Forall good l.
Proof.
  unfold good. rewrite nodup_list, valid_list. rewrite !Forall_forall. firstorder.
Qed.

Lemma good_map m : good (VMap m) <-> NoDup (map fst m) /\ Forall (fun kv => good (snd kv)) m.
Proof.
  unfold good. rewrite nodup_map, valid_map. rewrite !Forall_forall. firstorder.
Qed.

Lemma str_eqb_trans a b c : str_eqb a b = true -> str_eqb b c = true -> str_eqb a c = true.
Proof. rewrite !str_eqb_eq. congruence. Qed.

Lemma v_eq_trans_all : forall a, trans_at a.
Proof.
  induction a using value_ind'; unfold trans_at.
  - (* lists *)
    intros b c Ga Gb Gc Hab Hbc. destruct b; try discriminate. destruct c; try discriminate.
    rename l0 into lb, l1 into lc.
    apply good_list in Ga. apply good_list in Gb. apply good_list in Gc.
    apply v_eq_list in Hab. apply v_eq_list in Hbc. apply v_eq_list.
    revert lb lc Gb Gc Hab Hbc. induction l as [|x l IH]; intros lb lc Gb Gc Hab Hbc.
    + inversion Hab; subst. inversion Hbc; subst. constructor.
    + inversion Hab as [|? y ? lb' Hxy Hl]; subst. inversion Hbc as [|? z ? lc' Hyz Hl']; subst.
      inversion H as [|? ? Hx Hrest]; subst. inversion Ga as [|? ? Gx Gl]; subst.
      inversion Gb as [|? ? Gy Glb]; subst. inversion Gc as [|? ? Gz Glc]; subst.
      constructor; [exact (Hx y z Gx Gy Gz Hxy Hyz)|now apply (IH Hrest Gl lb' lc')].
  - (* maps *)
    intros b c Ga Gb Gc Hab Hbc. destruct b; try discriminate. destruct c; try discriminate.
    rename m0 into mb, m1 into mc.
    apply good_map in Ga. destruct Ga as [Na Va]. apply good_map in Gb. destruct Gb as [Nb Vb].
    apply good_map in Gc. destruct Gc as [Nc Vc].
    apply v_eq_map in Hab. destruct Hab as [L1 F1]. apply v_eq_map in Hbc. destruct Hbc as [L2 F2].
    apply v_eq_map. split; [congruence|].
    rewrite Forall_forall in *. intros [k v] Hin. cbn [fst snd].
    destruct (F1 _ Hin) as [v' [G1 E1]]. cbn [fst snd] in G1, E1.
    pose proof (assoc_get_in _ _ _ G1) as Hinb.
    destruct (F2 _ Hinb) as [v'' [G2 E2]]. cbn [fst snd] in G2, E2.
    pose proof (assoc_get_in _ _ _ G2) as Hinc.
    exists v''. split; [exact G2|].
    exact (H _ Hin v' v'' (Va _ Hin) (Vb _ Hinb) (Vc _ Hinc) E1 E2).
  - (* function values *)
    intros b c Ga Gb Gc Hab Hbc. destruct b as [| |nb rb| | | | | | | | |]; try discriminate.
    destruct c as [| |nc rc| | | | | | | | |]; try discriminate.
    cbn [v_eq] in *. apply andb_true_iff in Hab. destruct Hab as [S1 R1].
    apply andb_true_iff in Hbc. destruct Hbc as [S2 R2]. apply andb_true_iff. split.
    + eapply str_eqb_trans; eassumption.
    + destruct r as [x|], rb as [y|], rc as [z|]; try discriminate; try reflexivity.
      unfold good in *. cbn [nodup_maps all_valid] in *.
      exact (H x eq_refl y z Ga Gb Gc R1 R2).
  - (* leaves *)
    intros b c [_ Ga] [_ Gb] [_ Gc] Hab Hbc.
    destruct a; try contradiction; destruct b; try discriminate; destruct c; try discriminate;
      try (match goal with
           | Hab' : v_eq ?x ?y = true, Hbc' : v_eq ?y ?z = true |- v_eq ?x ?z = true =>
               solve [eapply (num_eq_trans x y z);
                      [apply all_valid_vvalid; assumption|apply all_valid_vvalid; assumption|
                       apply all_valid_vvalid; assumption|reflexivity|reflexivity|reflexivity|
                       exact Hab'|exact Hbc']]
           end);
      cbn [v_eq] in *.
    + eapply str_eqb_trans; eassumption.
    + apply list_eqb_N_eq in Hab. apply list_eqb_N_eq in Hbc. apply list_eqb_N_eq. congruence.
    + destruct b0, b1, b; (discriminate || reflexivity).
    + apply Z.eqb_eq in Hab. apply Z.eqb_eq in Hbc. apply Z.eqb_eq. congruence.
    + apply Z.eqb_eq in Hab. apply Z.eqb_eq in Hbc. apply Z.eqb_eq. congruence.
    + reflexivity.
Qed.

Theorem v_eq_trans a b c : good a -> good b -> good c ->
  v_eq a b = true -> v_eq b c = true -> v_eq a c = true.
Proof. apply v_eq_trans_all. Qed.

(** ** Reflexivity on NaN-free values *)
Fixpoint nan_free (v : value) : Prop :=
  match v with
  | VList l => (fix go (l : list value) : Prop :=
                  match l with [] => True | x :: l' => nan_free x /\ go l' end) l
  | VMap m => (fix go (m : list (key * value)) : Prop :=
                 match m with [] => True | (_, x) :: m' => nan_free x /\ go m' end) m
  | VFun _ (Some x) => nan_free x
  | VDbl f => f <> S754_nan
  | _ => True
  end.

Lemma nanfree_list l : nan_free (VList l) <-> Forall nan_free l.
Proof.
  cbn [nan_free]. induction l as [|x l IH].
  - split; [constructor|trivial].
  - rewrite IH. split; [intros [H1 H2]; constructor; assumption|inversion 1; auto].
Qed.

Lemma nanfree_map m : nan_free (VMap m) <-> Forall (fun kv => nan_free (snd kv)) m.
Proof.
  cbn [nan_free]. induction m as [|[k x] m IH].
  - split; [constructor|trivial].
  - rewrite IH. split; [intros [H1 H2]; constructor; assumption|inversion 1; auto].
Qed.

Lemma feq_refl f : fvalid f -> f <> S754_nan -> feq f f = true.
Proof.
  intros Hv Hn.
  pose proof (eq_exact_all (VDbl f) (VDbl f) _ _ Hv Hv eq_refl eq_refl) as H. cbn [v_eq] in H.
  rewrite H. destruct f as [s|s| |s m e]; cbn [xcmp]; try congruence.
  - reflexivity.
  - destruct s; reflexivity.
  - assert (E : (Qval (S754_finite s m e) ?= Qval (S754_finite s m e))%Q = Eq) by (apply Qeq_alt; reflexivity).
    now rewrite E.
Qed.

Lemma v_eq_refl_all : forall a, nodup_maps a -> all_valid a -> nan_free a -> v_eq a a = true.
Proof.
  induction a using value_ind'.
  - intros Hd Hv Hn. apply nodup_list in Hd. apply valid_list in Hv. apply nanfree_list in Hn.
    apply v_eq_list. induction l as [|x l IH]; [constructor|].
    inversion H; subst. inversion Hd; subst. inversion Hv; subst. inversion Hn; subst.
    constructor; auto.
  - intros Hd Hv Hn. apply nodup_map in Hd. destruct Hd as [Nd Hd]. apply valid_map in Hv. apply nanfree_map in Hn.
    apply v_eq_map. split; [reflexivity|]. rewrite Forall_forall in *. intros [k v] Hin. cbn [fst snd].
    exists v. split; [now apply in_assoc_get|]. exact (H _ Hin (Hd _ Hin) (Hv _ Hin) (Hn _ Hin)).
  - intros Hd Hv Hn. cbn [v_eq]. apply andb_true_iff. split; [now apply str_eqb_eq|].
    destruct r as [x|]; [|reflexivity]. cbn in Hd, Hv, Hn. exact (H x eq_refl Hd Hv Hn).
  - intros _ Hv Hn. destruct a; try contradiction; cbn [v_eq]; try apply Z.eqb_refl; try reflexivity.
    + cbn in Hv, Hn. now apply feq_refl.
    + now apply str_eqb_eq.
    + now apply list_eqb_N_eq.
    + destruct b; reflexivity.
Qed.
