(** C16: timestamp(string(t)) == t. *)
From Coq Require Import String Ascii.
From Cel.Model Require Import Builtins.
From Cel.Proofs Require Import NumericProofs CompareProofs DurationProofs DurationRoundtrip TimestampProofs.
From Coq Require Import Lia ZArith ZifyBool ZifyNat ZifyN.
Open Scope Z_scope.
Ltac Zify.zify_post_hook ::= Z.div_mod_to_equations.

Lemma take_pad n v rest : (1 <= n)%nat -> 0 <= v < 10 ^ Z.of_nat n ->
  take_digits n (pad_digits n v ++ rest) = Some (v, rest).
Proof.
  intros Hn Hv. destruct (pad_props n v Hn Hv) as (A & L & D). unfold take_digits.
  assert (F : firstn n (pad_digits n v ++ rest) = pad_digits n v).
  { rewrite firstn_app, L, Nat.sub_diag, firstn_O, app_nil_r. apply firstn_all2. lia. }
  assert (S : skipn n (pad_digits n v ++ rest) = rest).
  { rewrite skipn_app, L, Nat.sub_diag. cbn [skipn]. rewrite skipn_all2 by lia. reflexivity. }
  rewrite F, S, L, Nat.eqb_refl. unfold all_digits in A. rewrite A, D. reflexivity.
Qed.

Lemma expect_same c r : expect c (c :: r) = Some r.
Proof. unfold expect. now rewrite N.eqb_refl. Qed.

(** the fraction [to_rfc3339] writes is read back as the same nanoseconds *)
Definition frac_text (nanos : Z) : str :=
  if nanos =? 0 then []
  else if nanos mod 1000000 =? 0 then 46%N :: pad_digits 3 (nanos / 1000000)
  else if nanos mod 1000 =? 0 then 46%N :: pad_digits 6 (nanos / 1000)
  else 46%N :: pad_digits 9 nanos.

Definition read_frac (s11 : str) : Z * str * bool :=
  match s11 with
  | dot :: r => if (dot =? 46)%N then
                  let '(fs, r') := span is_digit r in
                  match fs with
                  | [] => (0, r, false)
                  | _ => let f9 := firstn 9 (fs ++ repeat 48%N 9) in (dec_num f9 0, r', true)
                  end
                else (0, s11, true)
  | [] => (0, s11, true)
  end.

Lemma read_frac_digits k v sg rest : (1 <= k <= 9)%nat -> 0 <= v < 10 ^ Z.of_nat k -> is_digit sg = false ->
  read_frac (46%N :: pad_digits k v ++ sg :: rest) = (v * 10 ^ Z.of_nat (9 - k), sg :: rest, true).
Proof.
  intros Hk Hv Hsg. destruct (pad_props k v ltac:(lia) Hv) as (A & L & D).
  unfold read_frac. change ((46 =? 46)%N) with true. cbv iota.
  rewrite (span_app_stop is_digit (pad_digits k v) (sg :: rest) A Hsg).
  destruct (pad_digits k v) as [|c l] eqn:E; [cbn in L; lia|]. rewrite <- E in *.
  assert (F : firstn 9 (pad_digits k v ++ repeat 48%N 9) = pad_digits k v ++ repeat 48%N (9 - k)).
  { rewrite firstn_app, L. rewrite firstn_all2 by lia. f_equal.
    assert (G : forall a b, firstn a (repeat 48%N (a + b)) = repeat 48%N a).
    { induction a as [|a IH]; intros b; [reflexivity|]. cbn [plus repeat firstn]. now rewrite IH. }
    replace 9%nat with ((9 - k) + k)%nat at 2 by lia. apply G. }
  rewrite E at 1. cbv iota. rewrite <- E. rewrite F, dec_num_app, dec_num_zeros, D. reflexivity.
Qed.

Lemma read_frac_text nanos sg rest : 0 <= nanos < 1000000000 -> is_digit sg = false -> (sg =? 46)%N = false ->
  read_frac (frac_text nanos ++ sg :: rest) = (nanos, sg :: rest, true).
Proof.
  intros Hn Hsg H46. unfold frac_text.
  destruct (Z.eqb_spec nanos 0) as [->|Hnz].
  - cbn [app read_frac]. now rewrite H46.
  - destruct (Z.eqb_spec (nanos mod 1000000) 0) as [E6|E6]; [|destruct (Z.eqb_spec (nanos mod 1000) 0) as [E3|E3]].
    + cbn [app]. rewrite (read_frac_digits 3 (nanos / 1000000) sg rest) by (cbn; lia || assumption).
      f_equal. f_equal. change (10 ^ Z.of_nat (9 - 3)) with 1000000. lia.
    + cbn [app]. rewrite (read_frac_digits 6 (nanos / 1000) sg rest) by (cbn; lia || assumption).
      f_equal. f_equal. change (10 ^ Z.of_nat (9 - 6)) with 1000. lia.
    + cbn [app]. rewrite (read_frac_digits 9 nanos sg rest) by (cbn; lia || assumption).
      f_equal. f_equal. change (10 ^ Z.of_nat (9 - 9)) with 1. lia.
Qed.

Definition read_off (s12 : str) : option Z :=
  match s12 with
  | [z] => if ((z =? ch "Z") || (z =? ch "z"))%N then Some 0 else None
  | sg :: r =>
      if ((sg =? 43) || (sg =? 45))%N then
        match take_digits 2 r with
        | Some (oh, r1) =>
            match expect 58 r1 with
            | Some r2 => match take_digits 2 r2 with
                         | Some (om, []) =>
                             if (oh <? 24) && (om <? 60)
                             then Some ((if (sg =? 45)%N then -1 else 1) * (oh * 3600 + om * 60)) else None
                         | _ => None
                         end
            | None => None
            end
        | None => None
        end
      else None
  | [] => None
  end.

Definition parse' (s : str) : option (option (Z * Z)) :=
  match take_digits 4 s with
  | None => None
  | Some (y, s1) =>
  match expect 45 s1 with None => None | Some s2 =>
  match take_digits 2 s2 with None => None | Some (mo, s3) =>
  match expect 45 s3 with None => None | Some s4 =>
  match take_digits 2 s4 with None => None | Some (d, s5) =>
  match s5 with
  | [] => None
  | tc :: s6 =>
  if negb ((tc =? ch "T") || (tc =? ch "t") || (tc =? 32))%N then None else
  match take_digits 2 s6 with None => None | Some (h, s7) =>
  match expect 58 s7 with None => None | Some s8 =>
  match take_digits 2 s8 with None => None | Some (mi, s9) =>
  match expect 58 s9 with None => None | Some s10 =>
  match take_digits 2 s10 with None => None | Some (sec, s11) =>
  let '(nanos, s12, frac_ok) := read_frac s11 in
  if negb frac_ok then None else
  match read_off s12 with
  | None => None
  | Some o =>
      if negb (valid_date y mo d && (h <? 24) && (mi <? 60) && (sec <=? 60)) then None
      else if sec =? 60 then Some None
      else
        let local := ((days_from_civil y mo d * 86400 + h * 3600 + mi * 60 + sec) * ns_per_s + nanos) in
        Some (Some (local - o * ns_per_s, o))
  end end end end end end end end end end end end.

Lemma parse_eq s : parse_rfc3339 s = parse' s.
Proof. reflexivity. Qed.

Lemma read_off_text off : off mod 60 = 0 -> -86400 < off < 86400 ->
  read_off ([if off <? 0 then 45%N else 43%N] ++ two (Z.abs off / 3600) ++ [58%N] ++ two ((Z.abs off mod 3600) / 60)) = Some off.
Proof.
  intros Hm Hr. unfold two. cbn [app].
  set (ao := Z.abs off). assert (Ha : 0 <= ao < 86400) by lia.
  assert (H1 : 0 <= ao / 3600 < 10 ^ Z.of_nat 2) by (change (10 ^ Z.of_nat 2) with 100; lia).
  assert (H2 : 0 <= (ao mod 3600) / 60 < 10 ^ Z.of_nat 2) by (change (10 ^ Z.of_nat 2) with 100; lia).
  unfold read_off.
  destruct (pad_props 2 (ao / 3600) ltac:(lia) H1) as (_ & L1 & _).
  destruct (pad_digits 2 (ao / 3600) ++ 58%N :: pad_digits 2 (ao mod 3600 / 60)) as [|c0 l0] eqn:E.
  { apply (f_equal (@length N)) in E. rewrite app_length, L1 in E. cbn in E. lia. }
  rewrite <- E.
  replace (N.eqb (if off <? 0 then 45%N else 43%N) 43%N) with (negb (off <? 0)) by (destruct (off <? 0); reflexivity).
  replace (N.eqb (if off <? 0 then 45%N else 43%N) 45%N) with (off <? 0) by (destruct (off <? 0); reflexivity).
  replace (negb (off <? 0) || (off <? 0)) with true by (destruct (off <? 0); reflexivity). cbv iota.
  rewrite (take_pad 2 (ao / 3600) _ ltac:(lia) H1), expect_same.
  rewrite <- (app_nil_r (pad_digits 2 (ao mod 3600 / 60))).
  rewrite (take_pad 2 (ao mod 3600 / 60) [] ltac:(lia) H2).
  replace ((ao / 3600 <? 24) && (ao mod 3600 / 60 <? 60)) with true by lia. f_equal.
  unfold ao. destruct (Z.ltb_spec off 0); lia.
Qed.

Lemma round60 a : 0 <= a -> a mod 60 = 0 -> (a + 30) / 60 * 60 = a.
Proof.
  intros Ha Hm. pose proof (Z.div_mod a 60 ltac:(lia)) as D. rewrite Hm, Z.add_0_r in D.
  set (q := a / 60) in *. rewrite D at 1. replace (60 * q + 30) with (q * 60 + 30) by lia.
  rewrite Z.div_add_l by lia. change (30 / 60) with 0. lia.
Qed.

Ltac padb := first [lia | (change (10 ^ Z.of_nat 4) with 10000; lia) | (change (10 ^ Z.of_nat 2) with 100; lia)].

(** timestamp(string(t)) == t: for every instant whose local year has four digits and every
    whole-minute offset (the offsets RFC 3339 can write). *)
Theorem rfc3339_roundtrip ns off :
  0 <= f_year (local_fields ns off) <= 9999 -> off mod 60 = 0 -> -86400 < off < 86400 ->
  parse_rfc3339 (rfc3339 ns off) = Some (Some (ns, off)).
Proof.
  intros Hy Hm Hr. rewrite parse_eq. unfold rfc3339.
  pose proof (fields_spec ns off) as F. cbv zeta in F.
  set (f := local_fields ns off) in *.
  destruct F as (Fd & Fv & Fh & Fmi & Fs & Fn & Fl).
  destruct (valid_bounds _ _ _ Fv) as [Bm Bd].
  replace ((0 <=? f_year f) && (f_year f <=? 9999)) with true by lia.
  assert (A60 : Z.abs off mod 60 = 0).
  { destruct (Z.abs_spec off) as [[_ ->]|[_ ->]]; [exact Hm|]. apply Z.mod_opp_l_z; [lia|exact Hm]. }
  rewrite (round60 (Z.abs off) ltac:(lia) A60).
  fold (frac_text (f_nanos f)). unfold two. cbn [app].
  unfold parse'.
  rewrite (take_pad 4 (f_year f)) by padb. rewrite expect_same.
  rewrite (take_pad 2 (f_month f)) by padb. rewrite expect_same.
  rewrite (take_pad 2 (f_day f)) by padb.
  rewrite N.eqb_refl. cbn [orb negb].
  rewrite (take_pad 2 (f_hour f)) by padb. rewrite expect_same.
  rewrite (take_pad 2 (f_min f)) by padb. rewrite expect_same.
  rewrite (take_pad 2 (f_sec f)) by padb.
  rewrite (read_frac_text (f_nanos f) (if off <? 0 then 45%N else 43%N) _ ltac:(unfold ns_per_s in Fn; lia))
    by (destruct (off <? 0); reflexivity).
  cbn [negb].
  pose proof (read_off_text off Hm Hr) as Ro. unfold two in Ro. cbn [app] in Ro. rewrite Ro.
  rewrite Fv. replace (f_hour f <? 24) with true by lia. replace (f_min f <? 60) with true by lia.
  replace (f_sec f <=? 60) with true by lia. cbn [andb negb].
  replace (f_sec f =? 60) with false by lia.
  f_equal. f_equal. f_equal. rewrite Fd.
  assert (Hdays : f_days f = (ns + off * ns_per_s) / ns_per_s / 86400) by reflexivity.
  rewrite <- Hdays, Fl. lia.
Qed.
