(** C04: the round trip with the parser's own fuel: [parse_tokens (raw t) = CExpr (ast t)]. *)
From Coq Require Import String Ascii.
From Cel.Model Require Import Surface.
From Cel.Proofs Require Import ParserRoundtrip.
From Coq Require Import Lia Arith.
Open Scope nat_scope.

Definition evn {A} (n : nat) (p : nat -> pres A) (r : pres A) : Prop := forall f, n <= f -> p f = r.
Lemma evn_le {A} n m (p : nat -> pres A) r : n <= m -> evn n p r -> evn m p r.
Proof. intros H E f Hf. apply E. lia. Qed.

Lemma bmember_id x rest : stops 7 rest -> evn 2 (fun f => p_member f (TIdent x :: rest)) (POk (EIdent x) rest).
Proof.
  intros Hs [|[|f]] Hf; try lia. rewrite u_member, prim_id by exact Hs. now apply postfix_stop.
Qed.

Lemma bmember_paren ts e rest n : stops 7 rest ->
  evn n (fun f => p_expr f (ts ++ TRParen :: rest)) (POk e (TRParen :: rest)) ->
  evn (S (S n)) (fun f => p_member f (TLParen :: ts ++ TRParen :: rest)) (POk e rest).
Proof.
  intros Hs H [|[|f]] Hf; try lia. rewrite u_member, u_prim_paren, H by lia. now apply postfix_stop.
Qed.

Lemma bpass_unary t0 ts e rest n :
  match t0 with TBang | TMinus => False | _ => True end ->
  evn n (fun f => p_member f ((t0 :: ts) ++ rest)) (POk e rest) ->
  evn (S n) (fun f => p_unary f ((t0 :: ts) ++ rest)) (POk e rest).
Proof.
  intros Hh H [|f] Hf; [lia|].
  replace (p_unary (S f) ((t0 :: ts) ++ rest)) with (p_member f ((t0 :: ts) ++ rest)); [apply H; lia|].
  cbn [app]. destruct t0; try contradiction; reflexivity.
Qed.
Lemma bpass_mul ts e rest n : stops 5 rest ->
  evn n (fun f => p_unary f (ts ++ rest)) (POk e rest) -> evn (S (S n)) (fun f => p_mul f (ts ++ rest)) (POk e rest).
Proof. intros Hs H [|[|f]] Hf; try lia. rewrite u_mul, H by lia. now apply mul_loop_stop. Qed.
Lemma bpass_add ts e rest n : stops 4 rest ->
  evn n (fun f => p_mul f (ts ++ rest)) (POk e rest) -> evn (S (S n)) (fun f => p_add f (ts ++ rest)) (POk e rest).
Proof. intros Hs H [|[|f]] Hf; try lia. rewrite u_add, H by lia. now apply add_loop_stop. Qed.
Lemma bpass_rel ts e rest n : stops 3 rest ->
  evn n (fun f => p_add f (ts ++ rest)) (POk e rest) -> evn (S (S n)) (fun f => p_rel f (ts ++ rest)) (POk e rest).
Proof. intros Hs H [|[|f]] Hf; try lia. rewrite u_rel, H by lia. now apply rel_loop_stop. Qed.
Lemma bpass_and ts e rest n : stops 2 rest ->
  evn n (fun f => p_rel f (ts ++ rest)) (POk e rest) -> evn (S (S n)) (fun f => p_and f (ts ++ rest)) (POk e rest).
Proof. intros Hs H [|[|f]] Hf; try lia. rewrite u_and, H by lia. now rewrite and_loop_stop. Qed.
Lemma bpass_or ts e rest n : stops 1 rest ->
  evn n (fun f => p_and f (ts ++ rest)) (POk e rest) -> evn (S (S n)) (fun f => p_or f (ts ++ rest)) (POk e rest).
Proof. intros Hs H [|[|f]] Hf; try lia. rewrite u_or, H by lia. now rewrite or_loop_stop. Qed.
Lemma bpass_expr ts e rest n : stops 0 rest ->
  evn n (fun f => p_or f (ts ++ rest)) (POk e rest) -> evn (S n) (fun f => p_expr f (ts ++ rest)) (POk e rest).
Proof.
  intros Hs H [|f] Hf; try lia. rewrite u_expr, H by lia.
  destruct rest as [|t r]; [reflexivity|]. destruct Hs as [_ Hs]. destruct t; cbn in Hs; try lia; reflexivity.
Qed.

(** one level down costs at most two units of fuel *)
Lemma down1 l ts e rest n : l < 7 -> (l = 6 -> plain_head ts) -> stops l rest ->
  evn n (fun f => p_at (S l) f (ts ++ rest)) (POk e rest) -> evn (n + 2) (fun f => p_at l f (ts ++ rest)) (POk e rest).
Proof.
  intros Hl Hh Hs H. destruct l as [|[|[|[|[|[|[|l]]]]]]]; cbn [p_at] in *; try lia.
  - apply (evn_le (S n)); [lia|]. now apply bpass_expr.
  - apply (evn_le (S (S n))); [lia|]. now apply bpass_or.
  - apply (evn_le (S (S n))); [lia|]. now apply bpass_and.
  - apply (evn_le (S (S n))); [lia|]. now apply bpass_rel.
  - apply (evn_le (S (S n))); [lia|]. now apply bpass_add.
  - apply (evn_le (S (S n))); [lia|]. now apply bpass_mul.
  - specialize (Hh eq_refl). destruct ts as [|t0 ts']; [contradiction|].
    apply (evn_le (S n)); [lia|]. apply bpass_unary; [destruct t0; try contradiction; exact I|exact H].
Qed.

Lemma bdown d : forall p l ts e rest n, p = l + d -> p <= 7 -> (p = 7 -> l <= 6 -> plain_head ts) -> stops l rest ->
  evn n (fun f => p_at p f (ts ++ rest)) (POk e rest) -> evn (n + 2 * d) (fun f => p_at l f (ts ++ rest)) (POk e rest).
Proof.
  induction d as [|d IH]; intros p l ts e rest n Hp Hp7 Hh Hs H.
  - replace l with p by lia. now rewrite Nat.add_0_r.
  - replace (n + 2 * S d) with ((n + 2 * d) + 2) by lia. apply down1; [lia| |exact Hs|].
    + intros ->. apply Hh; lia.
    + apply (IH p (S l) ts e rest n); [lia|exact Hp7| |eapply stops_le; [|exact Hs]; lia|exact H].
      intros E7 E6. apply Hh; lia.
Qed.

(** ** Fuel bounds *)
Definition Bof (own_u prec_u l : nat) : nat :=
  if l <=? prec_u then own_u + 2 * (prec_u - l) else own_u + 2 * prec_u + 2 + 2 * (7 - l).

Fixpoint own (t : st) : nat :=
  let B l u := Bof (own u) (prec u) l in
  match t with
  | SId _ => 2
  | SParen a => S (S (B 0 a))
  | SNot _ a | SNeg _ a => S (B 7 a)
  | SMul _ a b => S ((match a with SMul _ _ _ => pred (own a) | _ => S (B 6 a) end) + S (B 6 b))
  | SAdd _ a b => S ((match a with SAdd _ _ _ => pred (own a) | _ => S (B 5 a) end) + S (B 5 b))
  | SRel _ a b => S ((match a with SRel _ _ _ => pred (own a) | _ => S (B 4 a) end) + S (B 4 b))
  | SAnd a rs => S (B 3 a + (fix go (l : list st) : nat := match l with [] => 1 | r :: l' => S (B 3 r + go l') end) rs)
  | SOr a rs => S (B 2 a + (fix go (l : list st) : nat := match l with [] => 1 | r :: l' => S (B 2 r + go l') end) rs)
  | SCond c a b => S (B 1 c + B 1 a + B 0 b)
  end.

Definition B (l : nat) (t : st) : nat := Bof (own t) (prec t) l.
Definition km (t : st) : nat := match t with SMul _ _ _ => pred (own t) | _ => S (B 6 t) end.
Definition ka (t : st) : nat := match t with SAdd _ _ _ => pred (own t) | _ => S (B 5 t) end.
Definition kr (t : st) : nat := match t with SRel _ _ _ => pred (own t) | _ => S (B 4 t) end.
Fixpoint chain_b (l : nat) (rs : list st) : nat :=
  match rs with [] => 1 | r :: rs' => S (B l r + chain_b l rs') end.

Lemma own_mul op a b : own (SMul op a b) = S (km a + S (B 6 b)).
Proof. reflexivity. Qed.
Lemma own_add op a b : own (SAdd op a b) = S (ka a + S (B 5 b)).
Proof. reflexivity. Qed.
Lemma own_rel op a b : own (SRel op a b) = S (kr a + S (B 4 b)).
Proof. reflexivity. Qed.
Lemma own_and a rs : own (SAnd a rs) = S (B 3 a + chain_b 3 rs).
Proof. cbn [own]. do 2 f_equal. induction rs as [|r rs IH]; [reflexivity|]. cbn [chain_b]. now rewrite <- IH. Qed.
Lemma own_or a rs : own (SOr a rs) = S (B 2 a + chain_b 2 rs).
Proof. cbn [own]. do 2 f_equal. induction rs as [|r rs IH]; [reflexivity|]. cbn [chain_b]. now rewrite <- IH. Qed.

Definition BPar (t : st) : Prop :=
  forall l, l <= 7 -> forall rest, stops l rest ->
  evn (B l t) (fun f => p_at l f (tk_at l t ++ rest)) (POk (ast t) rest).
Definition BKmul (t : st) : Prop := forall R X n2, stops 6 R ->
  evn n2 (fun f => p_mul_loop f (ast t) R) X -> evn (km t + n2) (fun f => p_mul f (tk_at 5 t ++ R)) X.
Definition BKadd (t : st) : Prop := forall R X n2, stops 5 R ->
  evn n2 (fun f => p_add_loop f (ast t) R) X -> evn (ka t + n2) (fun f => p_add f (tk_at 4 t ++ R)) X.
Definition BKrel (t : st) : Prop := forall R X n2, stops 4 R ->
  evn n2 (fun f => p_rel_loop f (ast t) R) X -> evn (kr t + n2) (fun f => p_rel f (tk_at 3 t ++ R)) X.

Lemma B_low l t : l <= prec t -> B l t = own t + 2 * (prec t - l).
Proof. intros H. unfold B, Bof. destruct (Nat.leb_spec l (prec t)); [reflexivity|lia]. Qed.
Lemma B_high l t : prec t < l -> B l t = own t + 2 * prec t + 2 + 2 * (7 - l).
Proof. intros H. unfold B, Bof. destruct (Nat.leb_spec l (prec t)); [lia|reflexivity]. Qed.

Lemma bpar_all t : (forall rest, stops (prec t) rest ->
                      evn (own t) (fun f => p_at (prec t) f (raw t ++ rest)) (POk (ast t) rest)) ->
  (prec t = 7 -> plain_head (raw t)) -> BPar t.
Proof.
  intros Hown Hh.
  assert (P7 : prec t <= 7) by (destruct t; cbn; lia).
  assert (Hlow : forall l, l <= prec t -> forall rest, stops l rest ->
                 evn (own t + 2 * (prec t - l)) (fun f => p_at l f (raw t ++ rest)) (POk (ast t) rest)).
  { intros l Hl rest Hs. apply (bdown (prec t - l) (prec t) l); auto; try lia.
    eapply Hown, stops_le; [|exact Hs]; exact Hl. }
  intros l Hl rest Hs. destruct (Nat.le_gt_cases l (prec t)) as [H|H].
  - rewrite (tk_raw l t H), (B_low l t H). now apply Hlow.
  - rewrite (tk_paren l t H), (B_high l t H).
    assert (S7 : stops 7 rest) by (eapply stops_le; [|exact Hs]; lia).
    assert (M : evn (S (S (own t + 2 * prec t))) (fun f => p_member f ((TLParen :: raw t ++ [TRParen]) ++ rest)) (POk (ast t) rest)).
    { cbn [app]. rewrite <- app_assoc. cbn [app]. apply bmember_paren; [exact S7|].
      pose proof (Hlow 0 ltac:(lia) (TRParen :: rest)) as H0. rewrite Nat.sub_0_r in H0. apply H0. cbn. auto. }
    apply (evn_le (S (S (own t + 2 * prec t)) + 2 * (7 - l))); [lia|].
    apply (bdown (7 - l) 7 l); auto; try lia. intros _ _. exact I.
Qed.

Lemma band_chain rs : Forall BPar rs -> forall acc rest, stops 2 rest ->
  evn (chain_b 3 rs) (fun f => p_and_loop f acc (flat_map (fun r => TAndAnd :: tk_at 3 r) rs ++ rest))
      (POk (logic_tree $"_&&_" (rev' (rev (map ast rs) ++ acc))) rest).
Proof.
  induction 1 as [|r rs Hr _ IH]; intros acc rest Hs.
  - intros [|f] Hf; [cbn in Hf; lia|]. cbn [flat_map map rev app]. now apply and_loop_stop.
  - cbn [flat_map app chain_b]. rewrite <- app_assoc.
    assert (S3 : stops 3 (flat_map (fun r0 => TAndAnd :: tk_at 3 r0) rs ++ rest)).
    { apply stops_chain; [reflexivity|cbn; lia|eapply stops_le; [|exact Hs]; lia]. }
    pose proof (Hr 3 ltac:(lia) _ S3) as H1. pose proof (IH (ast r :: acc) rest Hs) as H2. cbn [p_at] in H1.
    intros [|f] Hf; [lia|]. rewrite u_and_loop. rewrite H1 by lia. rewrite H2 by lia.
    cbn [map rev]. now rewrite <- app_assoc.
Qed.
Lemma bor_chain rs : Forall BPar rs -> forall acc rest, stops 1 rest ->
  evn (chain_b 2 rs) (fun f => p_or_loop f acc (flat_map (fun r => TOrOr :: tk_at 2 r) rs ++ rest))
      (POk (logic_tree $"_||_" (rev' (rev (map ast rs) ++ acc))) rest).
Proof.
  induction 1 as [|r rs Hr _ IH]; intros acc rest Hs.
  - intros [|f] Hf; [cbn in Hf; lia|]. cbn [flat_map map rev app]. now apply or_loop_stop.
  - cbn [flat_map app chain_b]. rewrite <- app_assoc.
    assert (S2 : stops 2 (flat_map (fun r0 => TOrOr :: tk_at 2 r0) rs ++ rest)).
    { apply stops_chain; [reflexivity|cbn; lia|eapply stops_le; [|exact Hs]; lia]. }
    pose proof (Hr 2 ltac:(lia) _ S2) as H1. pose proof (IH (ast r :: acc) rest Hs) as H2. cbn [p_at] in H1.
    intros [|f] Hf; [lia|]. rewrite u_or_loop. rewrite H1 by lia. rewrite H2 by lia.
    cbn [map rev]. now rewrite <- app_assoc.
Qed.

Lemma BKmul_from_par t : (match t with SMul _ _ _ => False | _ => True end) -> BPar t -> BKmul t.
Proof.
  intros Hp HP R X n2 Hs H2.
  assert (Hprec : prec t <> 5) by (destruct t; cbn; try lia; contradiction).
  rewrite (tk_at_skip 5 t Hprec). pose proof (HP 6 ltac:(lia) R Hs) as H1. cbn [p_at] in H1.
  assert (Ek : km t = S (B 6 t)) by (destruct t; try reflexivity; contradiction). rewrite Ek.
  intros [|f] Hf; [lia|]. rewrite u_mul, H1 by lia. apply H2. lia.
Qed.
Lemma BKadd_from_par t : (match t with SAdd _ _ _ => False | _ => True end) -> BPar t -> BKadd t.
Proof.
  intros Hp HP R X n2 Hs H2.
  assert (Hprec : prec t <> 4) by (destruct t; cbn; try lia; contradiction).
  rewrite (tk_at_skip 4 t Hprec). pose proof (HP 5 ltac:(lia) R Hs) as H1. cbn [p_at] in H1.
  assert (Ek : ka t = S (B 5 t)) by (destruct t; try reflexivity; contradiction). rewrite Ek.
  intros [|f] Hf; [lia|]. rewrite u_add, H1 by lia. apply H2. lia.
Qed.
Lemma BKrel_from_par t : (match t with SRel _ _ _ => False | _ => True end) -> BPar t -> BKrel t.
Proof.
  intros Hp HP R X n2 Hs H2.
  assert (Hprec : prec t <> 3) by (destruct t; cbn; try lia; contradiction).
  rewrite (tk_at_skip 3 t Hprec). pose proof (HP 4 ltac:(lia) R Hs) as H1. cbn [p_at] in H1.
  assert (Ek : kr t = S (B 4 t)) by (destruct t; try reflexivity; contradiction). rewrite Ek.
  intros [|f] Hf; [lia|]. rewrite u_rel, H1 by lia. apply H2. lia.
Qed.

Lemma km_mul op a b : km (SMul op a b) = km a + S (B 6 b).
Proof. change (km (SMul op a b)) with (pred (own (SMul op a b))). rewrite own_mul. reflexivity. Qed.
Lemma ka_add op a b : ka (SAdd op a b) = ka a + S (B 5 b).
Proof. change (ka (SAdd op a b)) with (pred (own (SAdd op a b))). rewrite own_add. reflexivity. Qed.
Lemma kr_rel op a b : kr (SRel op a b) = kr a + S (B 4 b).
Proof. change (kr (SRel op a b)) with (pred (own (SRel op a b))). rewrite own_rel. reflexivity. Qed.

Definition BGood (t : st) : Prop := BPar t /\ BKmul t /\ BKadd t /\ BKrel t.

Ltac others HP :=
  repeat split; [exact HP|apply BKmul_from_par|apply BKadd_from_par|apply BKrel_from_par]; auto; exact I.

Theorem broundtrip_all t : wf_st t -> BGood t.
Proof.
  induction t using st_ind'; intros W; cbn [wf_st] in W.
  - (* identifier *)
    assert (HP : BPar (SId x)).
    { apply bpar_all; [|intros _; exact I]. intros rest Hs. cbn [prec p_at raw app own]. now apply bmember_id. }
    others HP.
  - (* '!' run *)
    destruct (IHt W) as (Pa & _).
    assert (HP : BPar (SNot n t)).
    { apply bpar_all; [|cbn; lia]. intros rest Hs. cbn [prec] in Hs. cbn [prec p_at raw]. fold (tk_at 7 t). rewrite <- app_assoc.
      assert (S7 : stops 7 rest) by (eapply stops_le; [|exact Hs]; lia).
      pose proof (Pa 7 (le_n 7) rest S7) as H1. cbn [p_at] in H1.
      change (own (SNot n t)) with (S (B 7 t)).
      intros [|f] Hf; [lia|]. cbn [repeat app]. rewrite u_unary_bang.
      change (TBang :: repeat TBang n ++ tk_at 7 t ++ rest) with (repeat TBang (S n) ++ tk_at 7 t ++ rest).
      rewrite (count_bangs (S n) _ (tk7_not_bang t rest)). rewrite H1 by lia. reflexivity. }
    others HP.
  - (* '-' run *)
    destruct (IHt W) as (Pa & _).
    assert (HP : BPar (SNeg n t)).
    { apply bpar_all; [|cbn; lia]. intros rest Hs. cbn [prec] in Hs. cbn [prec p_at raw]. fold (tk_at 7 t). rewrite <- app_assoc.
      assert (S7 : stops 7 rest) by (eapply stops_le; [|exact Hs]; lia).
      pose proof (Pa 7 (le_n 7) rest S7) as H1. cbn [p_at] in H1.
      change (own (SNeg n t)) with (S (B 7 t)).
      intros [|f] Hf; [lia|]. cbn [repeat app]. rewrite u_unary_minus, tk7_not_number.
      change (TMinus :: repeat TMinus n ++ tk_at 7 t ++ rest) with (repeat TMinus (S n) ++ tk_at 7 t ++ rest).
      rewrite (count_minus (S n) _ (tk7_not_minus t rest)). rewrite H1 by lia. reflexivity. }
    others HP.
  - (* multiplicative *)
    destruct W as (Wop & Wa & Wb). destruct (IHt1 Wa) as (_ & Ka & _). destruct (IHt2 Wb) as (Pb & _).
    destruct (mulop_level op Wop) as [Os Ol]. destruct (mulop_name op) as [name|] eqn:En; [|congruence].
    assert (HK : BKmul (SMul op t1 t2)).
    { intros R X n2 Hs H2. rewrite (tk_raw 5 (SMul op t1 t2)) by (cbn; lia). cbn [raw].
      fold (tk_at 5 t1). fold (tk_at 6 t2). rewrite <- !app_assoc. cbn [app].
      replace (km (SMul op t1 t2) + n2) with (km t1 + S (B 6 t2 + n2)) by (rewrite km_mul; lia).
      apply Ka; [apply stops_op; [exact Os|rewrite Ol; lia]|].
      pose proof (Pb 6 ltac:(lia) R Hs) as H1. cbn [p_at] in H1.
      intros [|f] Hf; [lia|]. rewrite u_mul_loop, En, H1 by lia.
      cbn [ast] in H2. rewrite En in H2. cbn [opname] in H2. apply H2. lia. }
    assert (HP : BPar (SMul op t1 t2)).
    { apply bpar_all; [|cbn; lia]. intros rest Hs. cbn [prec] in Hs. cbn [prec p_at]. rewrite <- (tk_raw 5 (SMul op t1 t2)) by (cbn; lia).
      replace (own (SMul op t1 t2)) with (km (SMul op t1 t2) + 1) by (rewrite km_mul, own_mul; lia).
      apply HK; [eapply stops_le; [|exact Hs]; lia|]. intros [|f] Hf; [lia|]. now apply mul_loop_stop. }
    repeat split; [exact HP|exact HK|apply BKadd_from_par|apply BKrel_from_par]; auto; exact I.
  - (* additive *)
    destruct W as (Wop & Wa & Wb). destruct (IHt1 Wa) as (_ & _ & Ka & _). destruct (IHt2 Wb) as (Pb & _).
    destruct (addop_level op Wop) as [Os Ol]. destruct (addop_name op) as [name|] eqn:En; [|congruence].
    assert (HK : BKadd (SAdd op t1 t2)).
    { intros R X n2 Hs H2. rewrite (tk_raw 4 (SAdd op t1 t2)) by (cbn; lia). cbn [raw].
      fold (tk_at 4 t1). fold (tk_at 5 t2). rewrite <- !app_assoc. cbn [app].
      replace (ka (SAdd op t1 t2) + n2) with (ka t1 + S (B 5 t2 + n2)) by (rewrite ka_add; lia).
      apply Ka; [apply stops_op; [exact Os|rewrite Ol; lia]|].
      pose proof (Pb 5 ltac:(lia) R Hs) as H1. cbn [p_at] in H1.
      intros [|f] Hf; [lia|]. rewrite u_add_loop, En, H1 by lia.
      cbn [ast] in H2. rewrite En in H2. cbn [opname] in H2. apply H2. lia. }
    assert (HP : BPar (SAdd op t1 t2)).
    { apply bpar_all; [|cbn; lia]. intros rest Hs. cbn [prec] in Hs. cbn [prec p_at]. rewrite <- (tk_raw 4 (SAdd op t1 t2)) by (cbn; lia).
      replace (own (SAdd op t1 t2)) with (ka (SAdd op t1 t2) + 1) by (rewrite ka_add, own_add; lia).
      apply HK; [eapply stops_le; [|exact Hs]; lia|]. intros [|f] Hf; [lia|]. now apply add_loop_stop. }
    repeat split; [exact HP|apply BKmul_from_par|exact HK|apply BKrel_from_par]; auto; exact I.
  - (* relational *)
    destruct W as (Wop & Wa & Wb). destruct (IHt1 Wa) as (_ & _ & _ & Ka). destruct (IHt2 Wb) as (Pb & _).
    destruct (relop_level op Wop) as [Os Ol]. destruct (relop_name op) as [name|] eqn:En; [|congruence].
    assert (HK : BKrel (SRel op t1 t2)).
    { intros R X n2 Hs H2. rewrite (tk_raw 3 (SRel op t1 t2)) by (cbn; lia). cbn [raw].
      fold (tk_at 3 t1). fold (tk_at 4 t2). rewrite <- !app_assoc. cbn [app].
      replace (kr (SRel op t1 t2) + n2) with (kr t1 + S (B 4 t2 + n2)) by (rewrite kr_rel; lia).
      apply Ka; [apply stops_op; [exact Os|rewrite Ol; lia]|].
      pose proof (Pb 4 ltac:(lia) R Hs) as H1. cbn [p_at] in H1.
      intros [|f] Hf; [lia|]. rewrite u_rel_loop, En, H1 by lia.
      cbn [ast] in H2. rewrite En in H2. cbn [opname] in H2. apply H2. lia. }
    assert (HP : BPar (SRel op t1 t2)).
    { apply bpar_all; [|cbn; lia]. intros rest Hs. cbn [prec] in Hs. cbn [prec p_at]. rewrite <- (tk_raw 3 (SRel op t1 t2)) by (cbn; lia).
      replace (own (SRel op t1 t2)) with (kr (SRel op t1 t2) + 1) by (rewrite kr_rel, own_rel; lia).
      apply HK; [eapply stops_le; [|exact Hs]; lia|]. intros [|f] Hf; [lia|]. now apply rel_loop_stop. }
    repeat split; [exact HP|apply BKmul_from_par|apply BKadd_from_par|exact HK]; auto; exact I.
  - (* && chain *)
    destruct W as (Wa & Wne & Wrs). destruct (IHt Wa) as (Pa & _).
    assert (Prs : Forall BPar rs).
    { clear Wne. induction H as [|r rs Hr _ IH]; [constructor|]. destruct Wrs as [Wr Wrs].
      constructor; [exact (proj1 (Hr Wr))|exact (IH Wrs)]. }
    assert (HP : BPar (SAnd t rs)).
    { apply bpar_all; [|cbn; lia]. intros rest Hs. cbn [prec] in Hs. cbn [prec p_at]. rewrite raw_and, <- app_assoc, own_and.
      assert (S3 : stops 3 (flat_map (fun r => TAndAnd :: tk_at 3 r) rs ++ rest)).
      { apply stops_chain; [reflexivity|cbn; lia|eapply stops_le; [|exact Hs]; lia]. }
      pose proof (Pa 3 ltac:(lia) _ S3) as H1. cbn [p_at] in H1.
      pose proof (band_chain rs Prs [ast t] rest Hs) as H2.
      intros [|f] Hf; [lia|]. rewrite u_and, H1 by lia. rewrite H2 by lia.
      rewrite ast_and, rev'_rev, rev_app_distr, rev_involutive. reflexivity. }
    others HP.
  - (* || chain *)
    destruct W as (Wa & Wne & Wrs). destruct (IHt Wa) as (Pa & _).
    assert (Prs : Forall BPar rs).
    { clear Wne. induction H as [|r rs Hr _ IH]; [constructor|]. destruct Wrs as [Wr Wrs].
      constructor; [exact (proj1 (Hr Wr))|exact (IH Wrs)]. }
    assert (HP : BPar (SOr t rs)).
    { apply bpar_all; [|cbn; lia]. intros rest Hs. cbn [prec] in Hs. cbn [prec p_at]. rewrite raw_or, <- app_assoc, own_or.
      assert (S2 : stops 2 (flat_map (fun r => TOrOr :: tk_at 2 r) rs ++ rest)).
      { apply stops_chain; [reflexivity|cbn; lia|eapply stops_le; [|exact Hs]; lia]. }
      pose proof (Pa 2 ltac:(lia) _ S2) as H1. cbn [p_at] in H1.
      pose proof (bor_chain rs Prs [ast t] rest Hs) as H2.
      intros [|f] Hf; [lia|]. rewrite u_or, H1 by lia. rewrite H2 by lia.
      rewrite ast_or, rev'_rev, rev_app_distr, rev_involutive. reflexivity. }
    others HP.
  - (* conditional *)
    destruct W as (Wc & Wa & Wb). destruct (IHt1 Wc) as (Pc & _). destruct (IHt2 Wa) as (Pa & _). destruct (IHt3 Wb) as (Pb & _).
    assert (HP : BPar (SCond t1 t2 t3)).
    { apply bpar_all; [|cbn; lia]. intros rest Hs. cbn [prec] in Hs. cbn [prec p_at raw].
      fold (tk_at 1 t1). fold (tk_at 1 t2). rewrite <- !app_assoc. cbn [app].
      pose proof (Pc 1 ltac:(lia) (TQuestion :: tk_at 1 t2 ++ TColon :: raw t3 ++ rest)) as H1.
      pose proof (Pa 1 ltac:(lia) (TColon :: raw t3 ++ rest)) as H2.
      pose proof (Pb 0 ltac:(lia) rest Hs) as H3. rewrite (tk_raw 0 t3) in H3 by lia.
      cbn [p_at] in H1, H2, H3.
      change (own (SCond t1 t2 t3)) with (S (B 1 t1 + B 1 t2 + B 0 t3)).
      intros [|f] Hf; [lia|].
      rewrite u_expr, H1 by (cbn; auto; lia). rewrite H2 by (cbn; auto; lia). rewrite H3 by lia. reflexivity. }
    others HP.
  - (* explicit parentheses *)
    destruct (IHt W) as (Pa & _).
    assert (HP : BPar (SParen t)).
    { apply bpar_all; [|intros _; exact I]. intros rest Hs. cbn [prec] in Hs. cbn [prec p_at raw ast app].
      rewrite <- app_assoc. cbn [app]. change (own (SParen t)) with (S (S (B 0 t))). apply bmember_paren; [exact Hs|].
      pose proof (Pa 0 ltac:(lia) (TRParen :: rest)) as H0. rewrite (tk_raw 0 t) in H0 by lia. apply H0. cbn. auto. }
    others HP.
Qed.

(** ** The bounds fit the parser's own fuel *)
Definition Iv (t : st) : Prop := own t + 2 * prec t <= 16 * length (raw t).

Lemma B_fit l t : Iv t -> l <= 7 -> B l t + 2 * l <= 16 * length (tk_at l t).
Proof.
  intros HI Hl. unfold Iv in HI. destruct (Nat.le_gt_cases l (prec t)) as [H|H].
  - rewrite (B_low l t H), (tk_raw l t H). lia.
  - rewrite (B_high l t H), (tk_paren l t H). cbn [length]. rewrite app_length. cbn [length]. lia.
Qed.

Lemma km_fit t : Iv t -> (match t with SMul _ _ _ => False | _ => True end) -> km t + 11 <= 16 * length (tk_at 5 t).
Proof.
  intros HI Hn. assert (E : km t = S (B 6 t)) by (destruct t; try reflexivity; contradiction). rewrite E.
  assert (Hp : prec t <> 5) by (destruct t; cbn; try lia; contradiction).
  rewrite (tk_at_skip 5 t Hp). pose proof (B_fit 6 t HI ltac:(lia)). lia.
Qed.
Lemma ka_fit t : Iv t -> (match t with SAdd _ _ _ => False | _ => True end) -> ka t + 9 <= 16 * length (tk_at 4 t).
Proof.
  intros HI Hn. assert (E : ka t = S (B 5 t)) by (destruct t; try reflexivity; contradiction). rewrite E.
  assert (Hp : prec t <> 4) by (destruct t; cbn; try lia; contradiction).
  rewrite (tk_at_skip 4 t Hp). pose proof (B_fit 5 t HI ltac:(lia)). lia.
Qed.
Lemma kr_fit t : Iv t -> (match t with SRel _ _ _ => False | _ => True end) -> kr t + 7 <= 16 * length (tk_at 3 t).
Proof.
  intros HI Hn. assert (E : kr t = S (B 4 t)) by (destruct t; try reflexivity; contradiction). rewrite E.
  assert (Hp : prec t <> 3) by (destruct t; cbn; try lia; contradiction).
  rewrite (tk_at_skip 3 t Hp). pose proof (B_fit 4 t HI ltac:(lia)). lia.
Qed.

Definition Fit (t : st) : Prop :=
  Iv t /\ km t + 11 <= 16 * length (tk_at 5 t) /\ ka t + 9 <= 16 * length (tk_at 4 t) /\ kr t + 7 <= 16 * length (tk_at 3 t).

Lemma chain_fit l tk0 rs : l <= 7 -> Forall Iv rs ->
  chain_b l rs <= 16 * length (flat_map (fun r => tk0 :: tk_at l r) rs) + 1.
Proof.
  intros Hl. induction 1 as [|r rs Hr _ IH]; cbn [chain_b flat_map app length]; [lia|].
  rewrite app_length. pose proof (B_fit l r Hr Hl). lia.
Qed.

Theorem fit_all t : Fit t.
Proof.
  induction t using st_ind'; unfold Fit.
  - assert (HI : Iv (SId x)) by (unfold Iv; cbn; lia).
    split; [exact HI|split; [apply km_fit|split; [apply ka_fit|apply kr_fit]]]; auto; exact I.
  - destruct IHt as (Ia & _).
    assert (HI : Iv (SNot n t)).
    { unfold Iv. change (own (SNot n t)) with (S (B 7 t)). cbn [prec raw]. fold (tk_at 7 t).
      rewrite app_length, repeat_length. pose proof (B_fit 7 t Ia (le_n 7)). lia. }
    split; [exact HI|split; [apply km_fit|split; [apply ka_fit|apply kr_fit]]]; auto; exact I.
  - destruct IHt as (Ia & _).
    assert (HI : Iv (SNeg n t)).
    { unfold Iv. change (own (SNeg n t)) with (S (B 7 t)). cbn [prec raw]. fold (tk_at 7 t).
      rewrite app_length, repeat_length. pose proof (B_fit 7 t Ia (le_n 7)). lia. }
    split; [exact HI|split; [apply km_fit|split; [apply ka_fit|apply kr_fit]]]; auto; exact I.
  - destruct IHt1 as (Ia & Ka & _). destruct IHt2 as (Ib & _).
    assert (HK : km (SMul op t1 t2) + 11 <= 16 * length (tk_at 5 (SMul op t1 t2))).
    { rewrite km_mul, (tk_raw 5 (SMul op t1 t2)) by (cbn; lia). cbn [raw]. fold (tk_at 5 t1). fold (tk_at 6 t2).
      rewrite !app_length. cbn [length]. pose proof (B_fit 6 t2 Ib ltac:(lia)). lia. }
    assert (HI : Iv (SMul op t1 t2)).
    { unfold Iv. rewrite own_mul. rewrite km_mul in HK. rewrite (tk_raw 5 (SMul op t1 t2)) in HK by (cbn; lia). cbn [prec]. lia. }
    split; [exact HI|split; [exact HK|split; [apply ka_fit|apply kr_fit]]]; auto; exact I.
  - destruct IHt1 as (Ia & _ & Ka & _). destruct IHt2 as (Ib & _).
    assert (HK : ka (SAdd op t1 t2) + 9 <= 16 * length (tk_at 4 (SAdd op t1 t2))).
    { rewrite ka_add, (tk_raw 4 (SAdd op t1 t2)) by (cbn; lia). cbn [raw]. fold (tk_at 4 t1). fold (tk_at 5 t2).
      rewrite !app_length. cbn [length]. pose proof (B_fit 5 t2 Ib ltac:(lia)). lia. }
    assert (HI : Iv (SAdd op t1 t2)).
    { unfold Iv. rewrite own_add. rewrite ka_add in HK. rewrite (tk_raw 4 (SAdd op t1 t2)) in HK by (cbn; lia). cbn [prec]. lia. }
    split; [exact HI|split; [apply km_fit|split; [exact HK|apply kr_fit]]]; auto; exact I.
  - destruct IHt1 as (Ia & _ & _ & Ka). destruct IHt2 as (Ib & _).
    assert (HK : kr (SRel op t1 t2) + 7 <= 16 * length (tk_at 3 (SRel op t1 t2))).
    { rewrite kr_rel, (tk_raw 3 (SRel op t1 t2)) by (cbn; lia). cbn [raw]. fold (tk_at 3 t1). fold (tk_at 4 t2).
      rewrite !app_length. cbn [length]. pose proof (B_fit 4 t2 Ib ltac:(lia)). lia. }
    assert (HI : Iv (SRel op t1 t2)).
    { unfold Iv. rewrite own_rel. rewrite kr_rel in HK. rewrite (tk_raw 3 (SRel op t1 t2)) in HK by (cbn; lia). cbn [prec]. lia. }
    split; [exact HI|split; [apply km_fit|split; [apply ka_fit|exact HK]]]; auto; exact I.
  - destruct IHt as (Ia & _).
    assert (Irs : Forall Iv rs) by (eapply Forall_impl; [|exact H]; intros r Hr; exact (proj1 Hr)).
    assert (HI : Iv (SAnd t rs)).
    { unfold Iv. rewrite own_and, raw_and, app_length. cbn [prec].
      pose proof (B_fit 3 t Ia ltac:(lia)). pose proof (chain_fit 3 TAndAnd rs ltac:(lia) Irs). lia. }
    split; [exact HI|split; [apply km_fit|split; [apply ka_fit|apply kr_fit]]]; auto; exact I.
  - destruct IHt as (Ia & _).
    assert (Irs : Forall Iv rs) by (eapply Forall_impl; [|exact H]; intros r Hr; exact (proj1 Hr)).
    assert (HI : Iv (SOr t rs)).
    { unfold Iv. rewrite own_or, raw_or, app_length. cbn [prec].
      pose proof (B_fit 2 t Ia ltac:(lia)). pose proof (chain_fit 2 TOrOr rs ltac:(lia) Irs). lia. }
    split; [exact HI|split; [apply km_fit|split; [apply ka_fit|apply kr_fit]]]; auto; exact I.
  - destruct IHt1 as (Ic & _). destruct IHt2 as (Ia & _). destruct IHt3 as (Ib & _).
    assert (HI : Iv (SCond t1 t2 t3)).
    { unfold Iv. change (own (SCond t1 t2 t3)) with (S (B 1 t1 + B 1 t2 + B 0 t3)). cbn [prec raw].
      fold (tk_at 1 t1). fold (tk_at 1 t2). rewrite !app_length. cbn [length].
      pose proof (B_fit 1 t1 Ic ltac:(lia)). pose proof (B_fit 1 t2 Ia ltac:(lia)). pose proof (B_fit 0 t3 Ib ltac:(lia)).
      rewrite (tk_raw 0 t3) in H1 by lia. lia. }
    split; [exact HI|split; [apply km_fit|split; [apply ka_fit|apply kr_fit]]]; auto; exact I.
  - destruct IHt as (Ia & _).
    assert (HI : Iv (SParen t)).
    { unfold Iv. change (own (SParen t)) with (S (S (B 0 t))). cbn [prec raw length]. rewrite app_length. cbn [length].
      pose proof (B_fit 0 t Ia ltac:(lia)). rewrite (tk_raw 0 t) in H by lia. lia. }
    split; [exact HI|split; [apply km_fit|split; [apply ka_fit|apply kr_fit]]]; auto; exact I.
Qed.

(** ** The round trip with the parser's own fuel *)
Theorem parse_tokens_roundtrip t : wf_st t -> parse_tokens (raw t) = CExpr (ast t).
Proof.
  intros W. destruct (broundtrip_all t W) as (HP & _).
  pose proof (HP 0 ltac:(lia) [] I) as H. cbn [p_at] in H. rewrite (tk_raw 0 t) in H by lia. rewrite app_nil_r in H.
  unfold parse_tokens. rewrite H; [reflexivity|].
  destruct (fit_all t) as (HI & _). unfold Iv in HI. rewrite (B_low 0 t) by lia. unfold parse_fuel. lia.
Qed.
