(** C04: the round trip with the fuel [compile] itself uses.  The parse of a rendered tree is
    established for all sufficiently large fuel (ParserRoundtrip); more fuel never changes an
    answer (ParserMono) and the fuel of [parse_tokens] is never exhausted (ParserTotal), so it
    is the answer of [parse_tokens]. *)
From Coq Require Import String Ascii.
From Cel.Model Require Import Surface.
From Cel.Proofs Require Import ParserRoundtrip ParserTotal ParserMono.

Theorem parse_tokens_roundtrip t : wf_st t -> parse_tokens (raw t) = CExpr (ast t).
Proof.
  intros W. apply parse_tokens_of_ev. destruct (parse_roundtrip t W) as [n H]. exists n. exact H.
Qed.
