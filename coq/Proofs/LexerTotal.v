(** C01: the lexer always makes progress and its fuel is never what makes it fail. *)
From Coq Require Import String Ascii Lia Arith.
From Cel.Model Require Import Parser.
Open Scope nat_scope.

Lemma span_len p s : length (fst (span p s)) + length (snd (span p s)) = length s.
Proof.
  induction s as [|c s IH]; cbn [span]; [reflexivity|].
  destruct (p c); [|cbn; lia]. destruct (span p s) as [a b]. cbn [fst snd length] in *. lia.
Qed.
Lemma span_head p c s : p c = true -> length (snd (span p (c :: s))) < length (c :: s).
Proof.
  intros H. cbn [span]. rewrite H. pose proof (span_len p s) as L. destruct (span p s) as [a b]. cbn [fst snd length] in *. lia.
Qed.

Lemma string_len_pos raw s n : string_len raw s = Some n -> 1 <= n.
Proof.
  unfold string_len. destruct s as [|q r]; [discriminate|]. destruct ((q =? 34) || (q =? 39))%N; [|discriminate].
  destruct (scan_short _ q raw r 0) as [a|]; cbn [option_map];
  destruct r as [|q2 [|q3 r3]]; try (intros [= <-]; lia); try discriminate;
  try (destruct ((q2 =? q) && (q3 =? q))%N; [destruct (scan_long _ q raw r3 0); cbn [option_map]|]; intros [= <-]; lia);
  try (destruct ((q2 =? q) && (q3 =? q))%N; [destruct (scan_long _ q raw r3 0); cbn [option_map]|]; try discriminate; intros [= <-]; lia).
Qed.
Lemma string_tok_len_pos s n : string_tok_len s = Some n -> 1 <= n.
Proof.
  unfold string_tok_len. destruct s as [|c r]; [discriminate|].
  destruct ((c =? ch "r") || (c =? ch "R"))%N.
  - destruct (string_len true r) as [k|]; cbn [option_map]; [intros [= <-]; lia|discriminate].
  - apply string_len_pos.
Qed.
Lemma bytes_tok_len_pos s n : bytes_tok_len s = Some n -> 1 <= n.
Proof.
  unfold bytes_tok_len. destruct s as [|c r]; [discriminate|]. destruct ((c =? ch "b") || (c =? ch "B"))%N; [|discriminate].
  destruct (string_tok_len r); cbn [option_map]; [intros [= <-]; lia|discriminate].
Qed.
Lemma skipn_lt {A} n (s : list A) : 1 <= n -> s <> [] -> length (skipn n s) < length s.
Proof. intros Hn Hs. rewrite skipn_length. destruct s; [congruence|]. cbn [length]. lia. Qed.

Definition okc (o : option (numkind * nat)) : Prop := match o with Some (_, x) => 1 <= x | None => True end.

Lemma best_okc a b : okc a -> okc b -> okc (best_num a b).
Proof.
  destruct a as [[ka x]|], b as [[kb y]|]; intros Ha Hb; try exact Ha; try exact Hb; try exact I.
  unfold best_num. destruct (Nat.ltb x y); [exact Hb|exact Ha].
Qed.

Lemma num_tok_pos s k n : num_tok s = Some (k, n) -> 1 <= n.
Proof.
  unfold num_tok. destruct (span is_digit s) as [ds r] eqn:E.
  destruct ds as [|d ds'].
  - destruct s as [|c r1]; [discriminate|]. destruct (c =? 46)%N; [|discriminate].
    destruct (span is_digit r1) as [fs r2]. destruct fs; [discriminate|]. intros [= _ <-]. lia.
  - set (n0 := length (d :: ds')). assert (Hn : 1 <= n0) by (unfold n0; cbn [length]; lia). clearbody n0.
    intros H.
    match type of H with ?b = _ => enough (G : okc b) by (rewrite H in G; exact G) end.
    apply best_okc; [apply best_okc|].
    + destruct r as [|c r1]; cbn [option_map okc]; [exact I|].
      destruct (c =? 46)%N.
      * destruct (span is_digit r1) as [fs r2]. destruct fs as [|f0 fs'];
          destruct (exponent_len (c :: r1)); cbn [option_map okc length]; try exact I; try lia.
      * destruct (exponent_len (c :: r1)); cbn [option_map okc]; [lia|exact I].
    + cbn [okc]. destruct s as [|z [|x r1]]; try lia.
      destruct ((z =? 48) && (x =? ch "x"))%N; [|lia].
      destruct (span is_hex r1) as [hs r2]. destruct hs; lia.
    + destruct s as [|z [|x r1]].
      * destruct (match r with c :: _ => ((c =? ch "u") || (c =? ch "U"))%N | [] => false end); unfold okc in *; [lia|exact I].
      * destruct (match r with c :: _ => ((c =? ch "u") || (c =? ch "U"))%N | [] => false end); unfold okc in *; [lia|exact I].
      * destruct ((z =? 48) && (x =? ch "x"))%N.
        -- destruct (span is_hex r1) as [hs r2]. destruct hs as [|h hs'].
           ++ destruct (match r with c :: _ => ((c =? ch "u") || (c =? ch "U"))%N | [] => false end); unfold okc; [lia|exact I].
           ++ destruct (match r with c :: _ => ((c =? ch "u") || (c =? ch "U"))%N | [] => false end);
                destruct (match r2 with c :: _ => ((c =? ch "u") || (c =? ch "U"))%N | [] => false end); unfold okc; cbn [length]; try exact I; lia.
        -- destruct (match r with c :: _ => ((c =? ch "u") || (c =? ch "U"))%N | [] => false end); unfold okc; [lia|exact I].
Qed.

(** every token (or skipped blank / comment) consumes at least one character *)
Lemma lex_one_progress s t rest : lex_one s = Some (t, rest) -> length rest < length s.
Proof.
  unfold lex_one. destruct s as [|c r]; [discriminate|].
  destruct (bytes_tok_len (c :: r)) as [n|] eqn:Eb.
  { apply bytes_tok_len_pos in Eb. intros [= _ <-]. apply skipn_lt; [exact Eb|discriminate]. }
  destruct (string_tok_len (c :: r)) as [n|] eqn:Es.
  { apply string_tok_len_pos in Es. intros [= _ <-]. apply skipn_lt; [exact Es|discriminate]. }
  destruct (is_ws c) eqn:Ew.
  { pose proof (span_head is_ws c r Ew) as L. destruct (span is_ws (c :: r)) as [a b]. intros [= _ <-]. exact L. }
  destruct (is_ident_start c) eqn:Ei.
  { assert (Hc : is_ident_char c = true) by (unfold is_ident_start, is_ident_char in *; apply Bool.orb_true_iff in Ei as [->| ->]; [reflexivity|now rewrite Bool.orb_true_r]).
    pose proof (span_head is_ident_char c r Hc) as L. destruct (span is_ident_char (c :: r)) as [a b]. intros [= _ <-]. exact L. }
  destruct (num_tok (c :: r)) as [[k n]|] eqn:En.
  { apply num_tok_pos in En. intros [= _ <-]. apply skipn_lt; [exact En|discriminate]. }
  destruct (c =? 96)%N.
  { pose proof (span_len is_esc_ident_char r) as L. destruct (span is_esc_ident_char r) as [body r2]. cbn [fst snd] in L.
    destruct body as [|b0 body']; [discriminate|]. destruct r2 as [|q rest']; [discriminate|].
    destruct (q =? 96)%N; [|discriminate]. intros [= _ <-]. cbn [length] in *. lia. }
  repeat match goal with
         | |- (if ?b then _ else _) = _ -> _ => destruct b
         | |- match (match r with _ => _ end) with _ => _ end = _ -> _ => destruct r as [|x r']
         | |- match (if ?b then _ else _) with _ => _ end = _ -> _ => destruct b
         end;
  try discriminate; try (intros [= _ <-]; cbn [length]; lia).
  all: try (pose proof (span_len (fun x => negb (x =? 10)%N) r') as L; destruct (span (fun x => negb (x =? 10)%N) r') as [a b];
            cbn [fst snd] in L; intros [= _ <-]; cbn [length]; lia).
Qed.

(** the lexer's fuel (one more than the number of characters) is never what makes it fail:
    when [lex] answers [None], following the lexer's own steps from the source one arrives at
    a non-empty remainder at which no token (and no blank or comment) starts *)
Inductive reach : str -> str -> Prop :=
| reach_refl s : reach s s
| reach_step a t b c : lex_one a = Some (t, b) -> reach b c -> reach a c.

Lemma lex_fuel_fail f : forall s acc, length s < f -> lex_fuel f s acc = None ->
  exists suf, reach s suf /\ suf <> [] /\ lex_one suf = None.
Proof.
  induction f as [|f IH]; intros s acc Hf H; [lia|].
  destruct s as [|c r]; [discriminate|]. cbn [lex_fuel] in H.
  destruct (lex_one (c :: r)) as [[t rest]|] eqn:E.
  - pose proof (lex_one_progress _ _ _ E) as L.
    assert (Hr : exists acc', lex_fuel f rest acc' = None) by (destruct t; eauto).
    destruct Hr as [acc' Hr]. destruct (IH rest acc' ltac:(lia) Hr) as (suf & R & Hn & Hl).
    exists suf. split; [eapply reach_step; eassumption|]. split; assumption.
  - exists (c :: r). split; [constructor|]. split; [discriminate|exact E].
Qed.

Theorem lex_none_genuine s : lex s = None -> exists suf, reach s suf /\ suf <> [] /\ lex_one suf = None.
Proof. unfold lex. apply lex_fuel_fail. lia. Qed.

(** ... and conversely the tokens [lex] returns are exactly the lexer's steps to the end *)
Theorem lex_some_reaches s ts : lex s = Some ts -> reach s [].
Proof.
  unfold lex. generalize (S (length s)) as f, (@nil tk) as acc. intros f. revert s ts.
  induction f as [|f IH]; intros s ts acc H.
  - destruct s; [constructor|discriminate].
  - destruct s as [|c r]; [constructor|]. cbn [lex_fuel] in H.
    destruct (lex_one (c :: r)) as [[t rest]|] eqn:E; [|discriminate].
    destruct t; (eapply reach_step; [exact E|eapply IH; exact H]).
Qed.

