(** C10: the comprehension macros compute their defining folds. *)
From Coq Require Import String.
From Cel.Model Require Import Eval Macros.
From Cel.Proofs Require Import EvalBase CtxEquiv LogicProofs.
From Coq Require Import Lia.

(** The context a macro body sees for one element: the enclosing context, the hidden
    accumulator, and the iteration variable (innermost). *)
Definition bind (c : ctx) (acc : value) (x : str) (it : value) : ctx :=
  define (define (push c) accu acc) x it.

(** Invariant of the loop context: it differs from the enclosing context only in the
    accumulator and (stale) iteration-variable bindings. *)
Definition loop_inv (c c' : ctx) (x : str) (acc : value) : Prop :=
  funs c' = funs c /\ lookup c' accu = Ok acc /\
  forall n, str_eqb n accu = false -> str_eqb n x = false -> lookup c' n = lookup c n.

Lemma str_eqb_refl s : str_eqb s s = true.
Proof. induction s as [|a s IH]; cbn; [reflexivity|now rewrite N.eqb_refl, IH]. Qed.

Lemma str_eqb_sym a b : str_eqb a b = str_eqb b a.
Proof.
  revert b; induction a as [|x a IH]; intros [|y b]; cbn; try reflexivity.
  now rewrite IH, N.eqb_sym.
Qed.

Lemma inv_init c x v : loop_inv c (define (push c) accu v) x v.
Proof.
  split; [reflexivity|split].
  - apply lookup_scopes_define_same.
  - intros n Hn _. now rewrite lookup_define, Hn, lookup_push.
Qed.

Lemma inv_step c c' x acc it acc' : str_eqb x accu = false ->
  loop_inv c c' x acc -> loop_inv c (define (define c' x it) accu acc') x acc'.
Proof.
  intros Hx (Hf & Ha & Ho). split; [exact Hf|split].
  - apply lookup_scopes_define_same.
  - intros n Hn Hnx. now rewrite !lookup_define, Hn, Hnx, Ho.
Qed.

Lemma inv_bind_equiv c c' x acc it : str_eqb x accu = false ->
  loop_inv c c' x acc -> ctx_equiv (define c' x it) (bind c acc x it).
Proof.
  intros Hx (Hf & Ha & Ho). split; [exact Hf|]. intros n. unfold bind.
  rewrite !lookup_define, lookup_push.
  destruct (str_eqb n x) eqn:E1; [reflexivity|].
  destruct (str_eqb n accu) eqn:E2.
  - assert (n = accu).
    { clear -E2. revert E2. generalize accu. induction n as [|a n IH]; intros [|b s]; cbn; try discriminate; auto.
      rewrite andb_true_iff, N.eqb_eq. intros [-> H]. f_equal. auto. }
    subst. exact Ha.
  - now apply Ho.
Qed.

(** ** Generic fold *)
Section GFold.
  Variable cont : value -> bool.
  Variable stepf : value -> value -> result.
  Variable resf : value -> outcome value.

  Fixpoint gfold (items : list value) (acc : value) (log : list event) : result :=
    match items with
    | [] => (resf acc, log)
    | it :: rest =>
        if cont acc then
          match stepf acc it with
          | (Ok a', l) => gfold rest a' (log ++ l)
          | (Err e, l) => (Err e, log ++ l)
          | (Crash s, l) => (Crash s, log ++ l)
          end
        else (resf acc, log)
    end.
End GFold.

Lemma comp_loop_gfold c x cond step res cont resf :
  str_eqb x accu = false ->
  (forall c' acc, lookup c' accu = Ok acc -> exists vc, eval c' cond = (Ok vc, []) /\ to_bool vc = cont acc) ->
  (forall c' acc, lookup c' accu = Ok acc -> eval c' res = (resf acc, [])) ->
  forall items c' acc log, loop_inv c c' x acc ->
  comp_loop eval x accu cond step res items c' log =
  gfold cont (fun acc it => eval (bind c acc x it) step) resf items acc log.
Proof.
  intros Hx Hcond Hres. induction items as [|it rest IH]; intros c' acc log Hinv;
    cbn [comp_loop gfold]; pose proof Hinv as (Hf & Ha & Ho).
  - rewrite (Hres c' acc Ha). now rewrite app_nil_r.
  - destruct (Hcond c' acc Ha) as (vc & Ec & Et). rewrite Ec, Et.
    destruct (cont acc).
    + rewrite (eval_equiv step _ _ (inv_bind_equiv c c' x acc it Hx Hinv)).
      destruct (eval (bind c acc x it) step) as [[va|e|s] ls]; rewrite ?app_nil_l; try reflexivity.
      apply IH. exact (inv_step c c' x acc it va Hx Hinv).
    + rewrite (Hres c' acc Ha). now rewrite !app_nil_r.
Qed.

Lemma rbind_nil v (k : value -> result) : rbind (Ok v, []) k = k v.
Proof. unfold rbind. destruct (k v); reflexivity. Qed.

(** Shape shared by the five macros: evaluate the range, then fold. *)
Lemma eval_comp_gfold c r x init cond step res vinit cont resf :
  str_eqb x accu = false ->
  (forall c0, eval c0 init = (Ok vinit, [])) ->
  (forall c' acc, lookup c' accu = Ok acc -> exists vc, eval c' cond = (Ok vc, []) /\ to_bool vc = cont acc) ->
  (forall c' acc, lookup c' accu = Ok acc -> eval c' res = (resf acc, [])) ->
  eval c (EComp r x accu init cond step res) =
  rbind (eval c r) (fun vr =>
    match range_items vr with
    | None => ret (Err EInvalid)
    | Some items => gfold cont (fun acc it => eval (bind c acc x it) step) resf items vinit []
    end).
Proof.
  intros Hx Hinit Hcond Hres. rewrite eval_comp, Hinit, rbind_nil.
  destruct (eval c r) as [[vr|e|s] lr]; cbn [rbind]; try reflexivity.
  destruct (range_items vr) as [items|]; [|reflexivity].
  rewrite (comp_loop_gfold c x cond step res cont resf Hx Hcond Hres items _ vinit []);
    [reflexivity|apply inv_init].
Qed.

(** Evaluation of the accumulator identifier and of the fixed pieces of the expansions. *)
Lemma eval_accu c' acc : lookup c' accu = Ok acc -> eval c' e_accu = (Ok acc, []).
Proof. intros H. unfold e_accu. now rewrite eval_ident, H. Qed.

(** ** all *)
Fixpoint all_spec (body : value -> result) (items : list value) : result :=
  match items with
  | [] => (Ok (VBool true), [])
  | it :: rest =>
      match body it with
      | (Ok v, l) => if to_bool v then let '(r, l') := all_spec body rest in (r, l ++ l')
                     else (Ok (VBool false), l)
      | (Err e, l) => (Err e, l)
      | (Crash s, l) => (Crash s, l)
      end
  end.

Definition all_cont (acc : value) : bool := match acc with VBool b => b | _ => true end.

Lemma gfold_shift cont stepf resf items acc log :
  gfold cont stepf resf items acc log =
  let '(r, l) := gfold cont stepf resf items acc [] in (r, log ++ l).
Proof.
  revert acc log; induction items as [|it rest IH]; intros acc log; cbn [gfold].
  - now rewrite app_nil_r.
  - destruct (cont acc); [|now rewrite app_nil_r].
    destruct (stepf acc it) as [[a'|e|s] l]; cbn [app]; try reflexivity.
    rewrite (IH a' (log ++ l)), (IH a' l).
    destruct (gfold cont stepf resf rest a' []) as [r l']. now rewrite app_assoc.
Qed.

Lemma lookup_bind_accu c acc x it : str_eqb x accu = false ->
  lookup (bind c acc x it) accu = Ok acc.
Proof.
  intros Hx. unfold bind. rewrite lookup_define, (str_eqb_sym accu x), Hx.
  apply lookup_scopes_define_same.
Qed.

Lemma lookup_bind_x c acc x it : lookup (bind c acc x it) x = Ok it.
Proof. apply lookup_scopes_define_same. Qed.

Lemma all_gfold c x p items : str_eqb x accu = false ->
  gfold all_cont (fun acc it => eval (bind c acc x it) (e_and e_accu p)) Ok items
        (VBool true) [] =
  all_spec (fun it => eval (bind c (VBool true) x it) p) items.
Proof.
  intros Hx. induction items as [|it rest IH]; cbn [gfold all_spec all_cont]; [reflexivity|].
  rewrite eval_and.
  rewrite (eval_accu _ (VBool true)) by now apply lookup_bind_accu.
  cbn [rbind to_bool app].
  destruct (eval (bind c (VBool true) x it) p) as [[v|e|s] l]; cbn [rbind ret]; rewrite ?app_nil_r;
    try reflexivity.
  destruct (to_bool v) eqn:Ev.
  - rewrite gfold_shift, IH. reflexivity.
  - destruct rest as [|it' rest']; reflexivity.
Qed.

Theorem all_correct c r x p : str_eqb x accu = false ->
  eval c (expand_all r x p) =
  rbind (eval c r) (fun vr =>
    match range_items vr with
    | None => ret (Err EInvalid)
    | Some items => all_spec (fun it => eval (bind c (VBool true) x it) p) items
    end).
Proof.
  intros Hx. unfold expand_all.
  rewrite (eval_comp_gfold c r x _ _ _ _ (VBool true) all_cont Ok Hx).
  - destruct (eval c r) as [[vr|e|s] lr]; cbn [rbind]; try reflexivity.
    destruct (range_items vr) as [items|]; [|reflexivity].
    change (call $"_&&_" [e_accu; p]) with (e_and e_accu p). now rewrite all_gfold.
  - reflexivity.
  - intros c' acc Ha. exists (match acc with VBool b => VBool b | _ => VBool true end). split.
    + unfold call. rewrite eval_call. cbn [map option_map call_dispatch].
      rewrite (eval_accu c' acc Ha). cbn. destruct acc; reflexivity.
    + destruct acc; reflexivity.
  - intros c' acc Ha. now apply eval_accu.
Qed.

(** ** exists: the accumulator holds the last (falsy) raw body value; the macro stops at the
    first truthy one and returns it. *)
Fixpoint exists_spec (body : value -> value -> result) (items : list value) (acc : value)
  : result :=
  match items with
  | [] => (Ok acc, [])
  | it :: rest =>
      match body acc it with
      | (Ok v, l) => if to_bool v then (Ok v, l)
                     else let '(r, l') := exists_spec body rest v in (r, l ++ l')
      | (Err e, l) => (Err e, l)
      | (Crash s, l) => (Crash s, l)
      end
  end.

Definition exists_cont (acc : value) : bool := negb (to_bool acc).

Lemma exists_gfold c x p items : str_eqb x accu = false ->
  forall acc, to_bool acc = false ->
  gfold exists_cont (fun acc it => eval (bind c acc x it) (e_or e_accu p)) Ok items acc [] =
  exists_spec (fun acc it => eval (bind c acc x it) p) items acc.
Proof.
  intros Hx. induction items as [|it rest IH]; intros acc Hacc; cbn [gfold exists_spec]; [reflexivity|].
  unfold exists_cont at 1. rewrite Hacc. cbn [negb].
  rewrite eval_or.
  rewrite (eval_accu _ acc) by now apply lookup_bind_accu.
  cbn [rbind]. rewrite Hacc. cbn [app].
  destruct (eval (bind c acc x it) p) as [[v|e|s] l]; try reflexivity.
  destruct (to_bool v) eqn:Ev.
  - destruct rest as [|it' rest']; cbn [gfold]; unfold exists_cont; rewrite ?Ev; reflexivity.
  - rewrite gfold_shift, (IH v Ev). reflexivity.
Qed.

Theorem exists_correct c r x p : str_eqb x accu = false ->
  eval c (expand_exists r x p) =
  rbind (eval c r) (fun vr =>
    match range_items vr with
    | None => ret (Err EInvalid)
    | Some items => exists_spec (fun acc it => eval (bind c acc x it) p) items (VBool false)
    end).
Proof.
  intros Hx. unfold expand_exists.
  rewrite (eval_comp_gfold c r x _ _ _ _ (VBool false) exists_cont Ok Hx).
  - destruct (eval c r) as [[vr|e|s] lr]; cbn [rbind]; try reflexivity.
    destruct (range_items vr) as [items|]; [|reflexivity].
    change (call $"_||_" [e_accu; p]) with (e_or e_accu p). now rewrite exists_gfold.
  - reflexivity.
  - intros c' acc Ha. exists (VBool (negb (to_bool acc))). split; [|reflexivity].
    unfold call. rewrite eval_call. cbn [map option_map call_dispatch].
    rewrite eval_call. cbn [map option_map call_dispatch].
    rewrite (eval_accu c' acc Ha). reflexivity.
  - intros c' acc Ha. now apply eval_accu.
Qed.

(** ** exists_one *)
Fixpoint count_spec (body : value -> value -> result) (items : list value) (n : Z)
  : outcome Z * list event :=
  match items with
  | [] => (Ok n, [])
  | it :: rest =>
      match body (VInt n) it with
      | (Ok v, l) => let '(r, l') := count_spec body rest (if to_bool v then n + 1 else n)%Z in
                     (r, l ++ l')
      | (Err e, l) => (Err e, l)
      | (Crash s, l) => (Crash s, l)
      end
  end.

Definition exists_one_spec (body : value -> value -> result) (items : list value) : result :=
  let '(r, l) := count_spec body items 0 in
  (match r with
   | Ok k => Ok (VBool (k =? 1)%Z)
   | Err e => Err e
   | Crash s => Crash s
   end, l).

Definition one_step (p : expr) : expr :=
  e_cond p (call $"_+_" [e_accu; ELit (VInt 1)]) e_accu.
Definition one_res (acc : value) : outcome value := Ok (VBool (v_eq acc (VInt 1))).

Lemma eval_plus_one c' n : lookup c' accu = Ok (VInt n) ->
  eval c' (call $"_+_" [e_accu; ELit (VInt 1)]) = (chk_i64 (n + 1), []).
Proof.
  intros Ha. unfold call. rewrite eval_call. cbn [map option_map call_dispatch].
  rewrite (eval_accu c' _ Ha). reflexivity.
Qed.

Lemma one_gfold c x p items : str_eqb x accu = false ->
  forall n, (i64_min <= n)%Z -> (n + Z.of_nat (length items) <= i64_max)%Z ->
  gfold (fun _ => true) (fun acc it => eval (bind c acc x it) (one_step p)) one_res items (VInt n) [] =
  let '(r, l) := count_spec (fun acc it => eval (bind c acc x it) p) items n in
  (match r with Ok k => Ok (VBool (k =? 1)%Z) | Err e => Err e | Crash s => Crash s end, l).
Proof.
  intros Hx. induction items as [|it rest IH]; intros n Hlo Hhi; cbn [gfold count_spec].
  - reflexivity.
  - unfold one_step at 1. rewrite eval_cond.
    destruct (eval (bind c (VInt n) x it) p) as [[v|e|s] l]; cbn [rbind]; try reflexivity.
    cbn [length] in Hhi.
    destruct (to_bool v).
    + rewrite (eval_plus_one _ n) by now apply lookup_bind_accu.
      unfold chk_i64.
      assert (E : in_i64 (n + 1) = true).
      { unfold in_i64. rewrite andb_true_iff, !Z.leb_le. unfold i64_min, i64_max in *. lia. }
      rewrite E. rewrite app_nil_r. rewrite gfold_shift, IH by (unfold i64_min, i64_max in *; lia).
      destruct (count_spec _ rest (n + 1)%Z) as [r l']. reflexivity.
    + rewrite (eval_accu _ (VInt n)) by now apply lookup_bind_accu.
      rewrite app_nil_r. rewrite gfold_shift, IH by (unfold i64_min, i64_max in *; lia).
      destruct (count_spec _ rest n) as [r l']. reflexivity.
Qed.

Theorem exists_one_correct c r x p : str_eqb x accu = false ->
  eval c (expand_exists_one r x p) =
  rbind (eval c r) (fun vr =>
    match range_items vr with
    | None => ret (Err EInvalid)
    | Some items =>
        if (Z.of_nat (length items) <=? i64_max)%Z
        then exists_one_spec (fun acc it => eval (bind c acc x it) p) items
        else gfold (fun _ => true) (fun acc it => eval (bind c acc x it) (one_step p)) one_res
                   items (VInt 0) []
    end).
Proof.
  intros Hx. unfold expand_exists_one.
  rewrite (eval_comp_gfold c r x _ _ _ _ (VInt 0) (fun _ => true) one_res Hx).
  - destruct (eval c r) as [[vr|e|s] lr]; cbn [rbind]; try reflexivity.
    destruct (range_items vr) as [items|]; [|reflexivity].
    destruct (Z.of_nat (length items) <=? i64_max)%Z eqn:E; [|reflexivity].
    apply Z.leb_le in E. unfold exists_one_spec.
    change (call $"_?_:_" [p; call $"_+_" [e_accu; ELit (VInt 1)]; e_accu]) with (one_step p).
    rewrite one_gfold; [reflexivity|assumption|unfold i64_min; lia|lia].
  - reflexivity.
  - intros c' acc Ha. exists (VBool true). split; reflexivity.
  - intros c' acc Ha. unfold call. rewrite eval_call. cbn [map option_map call_dispatch].
    rewrite (eval_accu c' acc Ha). reflexivity.
Qed.

(** ** map (with optional filter) and filter *)
Fixpoint map_spec (flt : option (value -> value -> result)) (body : value -> value -> result)
         (items : list value) (acc : list value) : result :=
  match items with
  | [] => (Ok (VList acc), [])
  | it :: rest =>
      let go_body (lf : list event) :=
        match body (VList acc) it with
        | (Ok v, l) => let '(r, l') := map_spec flt body rest (acc ++ [v]) in (r, lf ++ l ++ l')
        | (Err e, l) => (Err e, lf ++ l)
        | (Crash s, l) => (Crash s, lf ++ l)
        end in
      match flt with
      | None => go_body []
      | Some f =>
          match f (VList acc) it with
          | (Ok fv, lf) => if to_bool fv then go_body lf
                           else let '(r, l') := map_spec flt body rest acc in (r, lf ++ l')
          | (Err e, lf) => (Err e, lf)
          | (Crash s, lf) => (Crash s, lf)
          end
      end
  end.

Definition push_step (f : expr) : expr := call $"_+_" [e_accu; EList [f]].

Lemma eval_push_step c' acc f : lookup c' accu = Ok (VList acc) ->
  eval c' (push_step f) =
  match eval c' f with
  | (Ok v, l) => (Ok (VList (acc ++ [v])), l)
  | (Err e, l) => (Err e, l)
  | (Crash s, l) => (Crash s, l)
  end.
Proof.
  intros Ha. unfold push_step, call. rewrite eval_call. cbn [map option_map call_dispatch].
  rewrite (eval_accu c' _ Ha). rewrite eval_list. cbn [list_go].
  destruct (eval c' f) as [[v|e|s] l]; cbn; rewrite ?app_nil_r; reflexivity.
Qed.

Lemma map_gfold c x flt f items : str_eqb x accu = false ->
  forall acc,
  gfold (fun _ => true)
        (fun a it => eval (bind c a x it)
                          (match flt with Some p => e_cond p (push_step f) e_accu | None => push_step f end))
        Ok items (VList acc) [] =
  map_spec (option_map (fun p a it => eval (bind c a x it) p) flt)
           (fun a it => eval (bind c a x it) f) items acc.
Proof.
  intros Hx. induction items as [|it rest IH]; intros acc; cbn [gfold map_spec]; [reflexivity|].
  destruct flt as [p|]; cbn [option_map].
  - rewrite eval_cond.
    destruct (eval (bind c (VList acc) x it) p) as [[fv|e|s] lf]; cbn [rbind]; try reflexivity.
    destruct (to_bool fv).
    + rewrite (eval_push_step _ acc) by now apply lookup_bind_accu.
      destruct (eval (bind c (VList acc) x it) f) as [[v|e|s] l]; try reflexivity.
      rewrite gfold_shift, IH. destruct (map_spec _ _ rest (acc ++ [v])) as [r l']. cbn [app]. now rewrite <- ?app_assoc.
    + rewrite (eval_accu _ (VList acc)) by now apply lookup_bind_accu.
      rewrite app_nil_r. rewrite gfold_shift, IH. cbn [option_map app].
      destruct (map_spec _ _ rest acc) as [r l']. reflexivity.
  - rewrite (eval_push_step _ acc) by now apply lookup_bind_accu.
    destruct (eval (bind c (VList acc) x it) f) as [[v|e|s] l]; try reflexivity.
    rewrite gfold_shift, IH. destruct (map_spec _ _ rest (acc ++ [v])) as [r l']. cbn [app]. now rewrite <- ?app_assoc.
Qed.

Theorem map_correct c r x flt f : str_eqb x accu = false ->
  eval c (expand_map r x flt f) =
  rbind (eval c r) (fun vr =>
    match range_items vr with
    | None => ret (Err EInvalid)
    | Some items =>
        map_spec (option_map (fun p a it => eval (bind c a x it) p) flt)
                 (fun a it => eval (bind c a x it) f) items []
    end).
Proof.
  intros Hx. unfold expand_map.
  rewrite (eval_comp_gfold c r x _ _ _ _ (VList []) (fun _ => true) Ok Hx).
  - destruct (eval c r) as [[vr|e|s] lr]; cbn [rbind]; try reflexivity.
    destruct (range_items vr) as [items|]; [|reflexivity].
    rewrite <- (map_gfold c x flt f items Hx []). destruct flt; reflexivity.
  - reflexivity.
  - intros c' acc Ha. exists (VBool true). split; reflexivity.
  - intros c' acc Ha. now apply eval_accu.
Qed.

Lemma map_spec_ext flt b1 b2 : (forall a it, b1 a it = b2 a it) ->
  forall items acc, map_spec flt b1 items acc = map_spec flt b2 items acc.
Proof.
  intros Hb. induction items as [|it rest IH]; intros acc; cbn [map_spec]; [reflexivity|].
  rewrite Hb. destruct flt as [f|].
  - destruct (f (VList acc) it) as [[fv|e|s] lf]; try reflexivity.
    destruct (to_bool fv); [|now rewrite IH].
    destruct (b2 (VList acc) it) as [[v|e|s] l]; try reflexivity. now rewrite IH.
  - destruct (b2 (VList acc) it) as [[v|e|s] l]; try reflexivity. now rewrite IH.
Qed.

Theorem filter_correct c r x p : str_eqb x accu = false ->
  eval c (expand_filter r x p) =
  rbind (eval c r) (fun vr =>
    match range_items vr with
    | None => ret (Err EInvalid)
    | Some items =>
        map_spec (Some (fun a it => eval (bind c a x it) p))
                 (fun a it => (Ok it, [])) items []
    end).
Proof.
  intros Hx.
  change (expand_filter r x p) with (expand_map r x (Some p) (EIdent x)).
  rewrite map_correct by assumption.
  destruct (eval c r) as [[vr|e|s] lr]; cbn [rbind]; try reflexivity.
  destruct (range_items vr) as [items|]; [|reflexivity]. cbn [option_map].
  rewrite (map_spec_ext _ (fun a it => eval (bind c a x it) (EIdent x)) (fun a it => (Ok it, []))).
  - reflexivity.
  - intros a it. now rewrite eval_ident, lookup_bind_x.
Qed.

(** ** Pure boolean bodies: the folds are forallb / existsb / count / map / filter. *)
Lemma all_spec_pure (f : value -> bool) body items :
  (forall it, In it items -> body it = (Ok (VBool (f it)), [])) ->
  all_spec body items = (Ok (VBool (forallb f items)), []).
Proof.
  induction items as [|it rest IH]; intros H; cbn [all_spec forallb]; [reflexivity|].
  rewrite (H it (or_introl eq_refl)). cbn [to_bool].
  destruct (f it); cbn [andb]; [|reflexivity].
  rewrite IH; [reflexivity|]. intros it' Hin. apply H. now right.
Qed.

Lemma exists_spec_pure (f : value -> bool) body items :
  (forall acc it, In it items -> body acc it = (Ok (VBool (f it)), [])) ->
  exists_spec body items (VBool false) = (Ok (VBool (existsb f items)), []).
Proof.
  induction items as [|it rest IH]; intros H; cbn [exists_spec existsb]; [reflexivity|].
  rewrite (H _ it (or_introl eq_refl)). cbn [to_bool].
  destruct (f it); cbn [orb]; [reflexivity|].
  rewrite IH; [reflexivity|]. intros acc it' Hin. apply H. now right.
Qed.

Lemma count_spec_pure (f : value -> bool) body items n :
  (forall acc it, In it items -> body acc it = (Ok (VBool (f it)), [])) ->
  count_spec body items n = (Ok (n + Z.of_nat (length (filter f items)))%Z, []).
Proof.
  revert n; induction items as [|it rest IH]; intros n H; cbn [count_spec filter length].
  - now rewrite Z.add_0_r.
  - rewrite (H _ it (or_introl eq_refl)). cbn [to_bool].
    rewrite IH by (intros acc it' Hin; apply H; now right).
    destruct (f it); cbn [length app]; f_equal; f_equal; lia.
Qed.

Lemma map_spec_pure (g : value -> value) body items acc :
  (forall a it, In it items -> body a it = (Ok (g it), [])) ->
  map_spec None body items acc = (Ok (VList (acc ++ map g items)), []).
Proof.
  revert acc; induction items as [|it rest IH]; intros acc H; cbn [map_spec map].
  - now rewrite app_nil_r.
  - rewrite (H _ it (or_introl eq_refl)).
    rewrite IH by (intros a it' Hin; apply H; now right).
    cbn [app]. now rewrite <- app_assoc.
Qed.

Lemma filter_spec_pure (f : value -> bool) flt items acc :
  (forall a it, In it items -> flt a it = (Ok (VBool (f it)), [])) ->
  map_spec (Some flt) (fun a it => (Ok it, [])) items acc = (Ok (VList (acc ++ filter f items)), []).
Proof.
  revert acc; induction items as [|it rest IH]; intros acc H; cbn [map_spec filter].
  - now rewrite app_nil_r.
  - rewrite (H _ it (or_introl eq_refl)). cbn [to_bool].
    destruct (f it).
    + rewrite IH by (intros a it' Hin; apply H; now right). cbn [app]. now rewrite <- app_assoc.
    + rewrite IH by (intros a it' Hin; apply H; now right). reflexivity.
Qed.

(** Elements after the deciding one are not visited: the result and log of [all] / [exists]
    over [pre ++ d :: post] do not depend on [post] when [d] decides. *)
Lemma all_stops body pre d post l :
  (forall it, In it pre -> exists v lg, body it = (Ok v, lg) /\ to_bool v = true) ->
  body d = (Ok (VBool false), l) ->
  all_spec body (pre ++ d :: post) = all_spec body (pre ++ [d]).
Proof.
  induction pre as [|it pre IH]; intros Hpre Hd; cbn [app all_spec].
  - rewrite Hd. reflexivity.
  - destruct (Hpre it (or_introl eq_refl)) as (v & lg & Hb & Ht). rewrite Hb, Ht.
    rewrite IH; [reflexivity| |assumption]. intros it' Hin. apply Hpre. now right.
Qed.
