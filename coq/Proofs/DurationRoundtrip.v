(** C15: the print/parse round trip of durations, for every duration in signed 64-bit nanoseconds. *)
From Coq Require Import String Ascii.
From Cel.Model Require Import Builtins.
From Cel.Proofs Require Import NumericProofs CompareProofs DurationProofs.
From Coq Require Import Lia ZArith ZifyBool ZifyNat ZifyN.
Open Scope Z_scope.
Ltac Zify.zify_post_hook ::= Z.div_mod_to_equations.

(** ** Digit strings *)
Lemma span_app_stop (p : N -> bool) a b : forallb p a = true ->
  match b with c :: _ => p c = false | [] => True end -> span p (a ++ b) = (a, b).
Proof.
  induction a as [|x a IH]; cbn [app forallb span]; intros Ha Hb.
  - destruct b as [|c b]; [reflexivity|]. cbn [span]. now rewrite Hb.
  - apply andb_prop in Ha as [Hx Ha]. rewrite Hx, (IH Ha Hb). reflexivity.
Qed.

Lemma dec_num_zeros j : forall a, dec_num (repeat 48%N j) a = a * 10 ^ Z.of_nat j.
Proof.
  induction j as [|j IH]; intros a; cbn [repeat dec_num].
  - cbn. lia.
  - rewrite IH. rewrite Nat2Z.inj_succ, Z.pow_succ_r by lia. change (Z.of_N 48) with 48. lia.
Qed.

Lemma dec_num_scale l : forall a, dec_num l a = a * 10 ^ Z.of_nat (length l) + dec_num l 0.
Proof.
  induction l as [|c l IH]; intros a; cbn [dec_num length].
  - cbn. lia.
  - rewrite (IH (a * 10 + _)), (IH (0 * 10 + _)). rewrite Nat2Z.inj_succ, Z.pow_succ_r by lia. lia.
Qed.

Lemma strip_spec l : exists j, l = strip_trailing l ++ repeat 48%N j.
Proof.
  induction l as [|c l [j IH]]; cbn [strip_trailing]; [exists 0%nat; reflexivity|].
  destruct (strip_trailing l) as [|x r] eqn:E.
  - cbn [app] in IH. destruct (c =? 48)%N eqn:Ec.
    + apply N.eqb_eq in Ec. subst c. exists (S j). cbn [app repeat]. now rewrite IH.
    + exists j. cbn [app]. now rewrite IH.
  - exists j. cbn [app]. now rewrite IH at 1.
Qed.

Lemma strip_digits l : all_digits l = true -> all_digits (strip_trailing l) = true.
Proof.
  intros H. destruct (strip_spec l) as [j Hj]. rewrite Hj in H. unfold all_digits in *.
  rewrite forallb_app in H. now apply andb_prop in H as [H _].
Qed.

Lemma digits_fuel_len f : forall n k, 0 <= n < 10 ^ Z.of_nat (S k) -> (k <= f)%nat ->
  (length (digits_fuel (S f) n []) <= S k)%nat.
Proof.
  induction f as [|f IH]; intros n k Hn Hk.
  - assert (k = 0%nat) by lia. subst k. cbn [digits_fuel]. assert (n < 10) by (cbn in Hn; lia).
    destruct (Z.ltb_spec n 10); [cbn; lia|lia].
  - remember (S f) as g eqn:Eg. cbn [digits_fuel]. destruct (Z.ltb_spec n 10) as [H|H]; [cbn; lia|].
    rewrite (digits_fuel_acc g (n / 10) [Z.to_N (48 + n mod 10)]), app_length. cbn [length]. subst g.
    destruct k as [|k]; [cbn in Hn; lia|].
    assert (Hq : 0 <= n / 10 < 10 ^ Z.of_nat (S k)).
    { rewrite (Nat2Z.inj_succ (S k)), Z.pow_succ_r in Hn by lia. lia. }
    pose proof (IH (n / 10) k Hq ltac:(lia)). lia.
Qed.

Lemma nat_digits_len n k : 0 <= n < 10 ^ Z.of_nat (S k) -> (length (nat_digits n) <= S k)%nat.
Proof.
  intros Hn. unfold nat_digits.
  destruct (Nat.le_gt_cases k (Z.to_nat (Z.log2 n))) as [H|H].
  - now apply digits_fuel_len.
  - (* fewer fuel steps than k: the length is at most the fuel *)
    assert (G : forall f m acc, (length (digits_fuel f m acc) <= f + length acc)%nat).
    { induction f as [|f IHf]; intros m acc; cbn [digits_fuel]; [lia|].
      destruct (m <? 10); [cbn; lia|]. specialize (IHf (m / 10) (Z.to_N (48 + m mod 10) :: acc)). cbn [length] in IHf. lia. }
    specialize (G (S (Z.to_nat (Z.log2 n))) n []). cbn [length] in G. lia.
Qed.

Lemma pad_props prec v : (1 <= prec)%nat -> 0 <= v < 10 ^ Z.of_nat prec ->
  all_digits (pad_digits prec v) = true /\ length (pad_digits prec v) = prec /\ dec_num (pad_digits prec v) 0 = v.
Proof.
  intros Hp Hv. unfold pad_digits. destruct (nat_digits_ok v ltac:(lia)) as (H1 & H2 & H3).
  destruct prec as [|k]; [lia|]. pose proof (nat_digits_len v k Hv) as Hl.
  repeat split.
  - unfold all_digits in *. rewrite forallb_app, H2, andb_true_r. clear.
    induction (S k - length (nat_digits v))%nat; [reflexivity|]. cbn [repeat forallb]. now rewrite IHn.
  - rewrite app_length, repeat_length. lia.
  - rewrite dec_num_app, dec_num_zeros. cbn [Z.mul]. exact H1.
Qed.

(** the fraction digits [fmt_frac] prints denote exactly [v mod 10^prec] *)
Lemma frac_props prec v : (1 <= prec)%nat -> 0 <= v < 10 ^ Z.of_nat prec ->
  let ds := strip_trailing (pad_digits prec v) in
  all_digits ds = true /\ (length ds <= prec)%nat /\
  dec_num ds 0 * 10 ^ Z.of_nat prec / 10 ^ Z.of_nat (length ds) = v.
Proof.
  intros Hp Hv ds. destruct (pad_props prec v Hp Hv) as (A & L & D).
  destruct (strip_spec (pad_digits prec v)) as [j Hj]. fold ds in Hj.
  assert (Hlen : (length ds + j = prec)%nat).
  { rewrite <- L, Hj, app_length, repeat_length. reflexivity. }
  repeat split.
  - now apply strip_digits.
  - lia.
  - rewrite Hj, dec_num_app, dec_num_zeros in D.
    replace (Z.of_nat prec) with (Z.of_nat (length ds) + Z.of_nat j) by (unfold limit63; lia).
    rewrite Z.pow_add_r by lia.
    replace (dec_num ds 0 * (10 ^ Z.of_nat (length ds) * 10 ^ Z.of_nat j))
      with (dec_num ds 0 * 10 ^ Z.of_nat j * 10 ^ Z.of_nat (length ds)) by (unfold limit63; lia).
    rewrite Z.div_mul; [exact D|]. apply Z.pow_nonzero; lia.
Qed.

(** ** One term *)
Definition dotfrac (fpd : str) : str := match fpd with [] => [] | _ => 46%N :: fpd end.
Definition unit_ok (u : str) (ns : Z) : Prop :=
  unit_ns u = Some ns /\ forallb (fun c => negb (is_num_char c)) u = true /\ u <> [].
Definition stop_ok (rest : str) : Prop :=
  match rest with c :: _ => is_num_char c = true | [] => True end.

Lemma nonnum_nondigit c : negb (is_num_char c) = true -> is_digit c = false /\ (c =? 46)%N = false.
Proof. unfold is_num_char. destruct (is_digit c), (c =? 46)%N; cbn; intros; try discriminate; auto. Qed.

Lemma parse_term_ok ipd fpd u ns rest :
  all_digits ipd = true -> ipd <> [] -> all_digits fpd = true -> (length fpd <= 25)%nat ->
  unit_ok u ns -> stop_ok rest -> dec_num ipd 0 * ns <= limit63 ->
  parse_term (ipd ++ dotfrac fpd ++ u ++ rest) =
  Some (dec_num ipd 0 * ns + dec_num fpd 0 * ns / 10 ^ Z.of_nat (length fpd), rest).
Proof.
  intros Hip Hne Hfp Hlen (Hu & Hun & Hu0) Hstop Hlim. unfold parse_term.
  destruct u as [|uc u']; [congruence|]. cbn [forallb] in Hun. apply andb_prop in Hun as [Huc Hun'].
  destruct (nonnum_nondigit uc Huc) as [Hd H46].
  assert (Hspan_u : span (fun c => negb (is_num_char c)) ((uc :: u') ++ rest) = (uc :: u', rest)).
  { apply span_app_stop; [cbn [forallb]; now rewrite Huc|].
    destruct rest as [|c r]; [exact I|]. cbn in Hstop. now rewrite Hstop. }
  destruct fpd as [|f0 fp'].
  - cbn [dotfrac]. change ([] ++ (uc :: u') ++ rest) with ((uc :: u') ++ rest).
    rewrite (span_app_stop is_digit ipd ((uc :: u') ++ rest) Hip) by (cbn [app]; exact Hd).
    cbn [app]. rewrite H46. rewrite app_nil_r. destruct ipd as [|i0 ip']; [congruence|].
    change (uc :: u' ++ rest) with ((uc :: u') ++ rest). rewrite Hspan_u, Hu.
    destruct (Z.ltb_spec limit63 (dec_num (i0 :: ip') 0 * ns)); [lia|].
    cbn [firstn length dec_num]. cbn [Z.of_nat Z.pow]. rewrite Z.mul_0_l, Zdiv_0_l. reflexivity.
  - cbn [dotfrac]. rewrite (span_app_stop is_digit ipd ((46%N :: f0 :: fp') ++ (uc :: u') ++ rest) Hip) by reflexivity.
    cbn [app]. change ((46 =? 46)%N) with true. cbv iota.
    change (f0 :: fp' ++ uc :: u' ++ rest) with ((f0 :: fp') ++ (uc :: u') ++ rest).
    rewrite (span_app_stop is_digit (f0 :: fp') ((uc :: u') ++ rest) Hfp) by (cbn [app]; exact Hd).
    destruct ipd as [|i0 ip']; [congruence|]. cbn [app]. 
    change (uc :: u' ++ rest) with ((uc :: u') ++ rest). rewrite Hspan_u, Hu.
    change (i0 :: ip' ++ f0 :: fp') with ((i0 :: ip') ++ f0 :: fp') in *.
    destruct (Z.ltb_spec limit63 (dec_num (i0 :: ip') 0 * ns)); [lia|].
    rewrite (firstn_all2 (f0 :: fp')) by exact Hlen. reflexivity.
Qed.

(** ** Sequences of terms *)
Lemma parse_terms_step f s total t rest : s <> [] -> parse_term s = Some (t, rest) -> total + t <= limit63 ->
  parse_terms (S f) s total = parse_terms f rest (total + t).
Proof.
  intros Hs Ht Hl. destruct s as [|c s']; [congruence|]. cbn [parse_terms]. rewrite Ht.
  destruct (Z.ltb_spec limit63 (total + t)); [lia|reflexivity].
Qed.

Lemma parse_terms_mono f : forall f' s t x, (f <= f')%nat -> parse_terms f s t = Some x -> parse_terms f' s t = Some x.
Proof.
  induction f as [|f IH]; intros f' s t x Hf H.
  - destruct s; [|discriminate]. destruct f'; exact H.
  - destruct f' as [|f']; [lia|]. destruct s as [|c s']; [exact H|]. cbn [parse_terms] in *.
    destruct (parse_term (c :: s')) as [[v rest]|]; [|discriminate].
    destruct (limit63 <? t + v); [discriminate|]. apply IH; [lia|exact H].
Qed.

Lemma str_eqb_len a b : length a <> length b -> str_eqb a b = false.
Proof.
  revert b; induction a as [|x a IH]; intros [|y b] H; cbn in *; try reflexivity; try lia.
  rewrite IH by lia. apply andb_false_r.
Qed.

Lemma parse_duration_terms (neg : bool) text t n : (2 <= length text)%nat ->
  (exists c r, text = c :: r /\ is_digit c = true) ->
  (n <= S (length text))%nat -> parse_terms n text 0 = Some t -> (neg = false -> t < limit63) ->
  parse_duration ((if neg then [45%N] else []) ++ text) = Some (if neg then - t else t).
Proof.
  intros Hlen (c & r & -> & Hc) Hn Hp Hlt. unfold parse_duration.
  assert (E0 : str_eqb (c :: r) $"0" = false) by (apply str_eqb_len; cbn in *; lia).
  apply (parse_terms_mono n (S (length (c :: r)))) in Hp; [|exact Hn].
  destruct neg.
  - cbn [app]. change ((45 =? 45)%N) with true. cbv iota. rewrite E0, Hp. reflexivity.
  - cbn [app]. assert (E1 : (c =? 45)%N = false) by (unfold is_digit in Hc; lia).
    assert (E2 : (c =? 43)%N = false) by (unfold is_digit in Hc; lia).
    rewrite E1, E2, E0, Hp. destruct (Z.ltb_spec t limit63); [reflexivity|]. specialize (Hlt eq_refl). lia.
Qed.

(** ** The rendering, with the unit of microseconds as a parameter *)
Definition body_of (mu : str) (u : Z) : str :=
  if u =? 0 then $"0s"
  else if u <? 1000000000 then
    let '(prec, unit) := if u <? 1000 then (0%nat, $"ns")
                         else if u <? 1000000 then (3%nat, mu)
                         else (6%nat, $"ms") in
    let '(fr, ip) := fmt_frac u prec in
    nat_digits ip ++ fr ++ unit
  else
    let '(fr, secs) := fmt_frac u 9 in
    let s := secs mod 60 in
    let mins := secs / 60 in
    let tail := nat_digits s ++ fr ++ $"s" in
    if mins =? 0 then tail
    else
      let m := mins mod 60 in
      let hrs := mins / 60 in
      let tail2 := nat_digits m ++ $"m" ++ tail in
      if hrs =? 0 then tail2 else nat_digits hrs ++ $"h" ++ tail2.

Definition mu8 : str := [194; 181; 115]%N.
Definition micro : str := [181; 115]%N.

Lemma format_as_body d : in_i64 d = true ->
  format_duration d = (if d <? 0 then 45%N :: body_of mu8 (Z.abs d) else body_of mu8 (Z.abs d)).
Proof. intros H. unfold format_duration. rewrite H. reflexivity. Qed.

Definition asc (l : str) : Prop := forallb (fun c => (c <? 128)%N) l = true.
Lemma asc_app a b : asc a -> asc b -> asc (a ++ b).
Proof. unfold asc. intros Ha Hb. now rewrite forallb_app, Ha, Hb. Qed.
Lemma asc_enc l : asc l -> utf8_enc l = l.
Proof.
  unfold asc, utf8_enc. induction l as [|c l IH]; cbn [forallb flat_map]; [reflexivity|].
  intros H. apply andb_prop in H as [Hc Hl]. unfold utf8_enc1 at 1. rewrite Hc. cbn [app]. f_equal. now apply IH.
Qed.
Lemma enc_app a b : utf8_enc (a ++ b) = utf8_enc a ++ utf8_enc b.
Proof. unfold utf8_enc. apply flat_map_app. Qed.
Lemma digits_asc l : all_digits l = true -> asc l.
Proof.
  unfold all_digits, asc. induction l as [|c l IH]; cbn [forallb]; [reflexivity|].
  intros H. apply andb_prop in H as [Hc Hl]. rewrite (IH Hl), andb_true_r. unfold is_digit in Hc. lia.
Qed.
Lemma nat_digits_asc n : 0 <= n -> asc (nat_digits n).
Proof. intros H. apply digits_asc. now destruct (nat_digits_ok n H) as (_ & ? & _). Qed.

Lemma frac_asc v prec : 0 <= v -> asc (fst (fmt_frac v prec)).
Proof.
  intros Hv. unfold fmt_frac. cbn [fst].
  assert (A : all_digits (pad_digits prec (v mod 10 ^ Z.of_nat prec)) = true).
  { unfold pad_digits, all_digits. rewrite forallb_app.
    assert (0 <= v mod 10 ^ Z.of_nat prec) by (apply Z.mod_pos_bound; apply Z.pow_pos_nonneg; lia).
    destruct (nat_digits_ok (v mod 10 ^ Z.of_nat prec) ltac:(lia)) as (_ & H2 & _). unfold all_digits in H2. rewrite H2, andb_true_r.
    induction (prec - length (nat_digits (v mod 10 ^ Z.of_nat prec)))%nat; [reflexivity|]. cbn [repeat forallb]. now rewrite IHn. }
  apply strip_digits, digits_asc in A.
  destruct (strip_trailing _); [reflexivity|]. unfold asc in *. cbn [forallb] in *. exact A.
Qed.

Lemma enc_body u : 0 <= u -> utf8_enc (body_of micro u) = body_of mu8 u.
Proof.
  intros Hu. unfold body_of. destruct (u =? 0); [reflexivity|].
  destruct (u <? 1000000000).
  - destruct (u <? 1000); [|destruct (u <? 1000000)].
    + destruct (fmt_frac u 0) as [fr ip] eqn:E. apply asc_enc.
      pose proof (frac_asc u 0 Hu) as Hf. rewrite E in Hf. cbn [fst] in Hf.
      assert (0 <= ip) by (unfold fmt_frac in E; injection E as _ <-; apply Z.div_pos; lia).
      apply asc_app; [now apply nat_digits_asc|apply asc_app; [exact Hf|reflexivity]].
    + destruct (fmt_frac u 3) as [fr ip] eqn:E. rewrite !enc_app.
      pose proof (frac_asc u 3 Hu) as Hf. rewrite E in Hf. cbn [fst] in Hf.
      assert (0 <= ip) by (unfold fmt_frac in E; injection E as _ <-; apply Z.div_pos; lia).
      rewrite (asc_enc _ (nat_digits_asc ip H)), (asc_enc _ Hf). reflexivity.
    + destruct (fmt_frac u 6) as [fr ip] eqn:E. apply asc_enc.
      pose proof (frac_asc u 6 Hu) as Hf. rewrite E in Hf. cbn [fst] in Hf.
      assert (0 <= ip) by (unfold fmt_frac in E; injection E as _ <-; apply Z.div_pos; lia).
      apply asc_app; [now apply nat_digits_asc|apply asc_app; [exact Hf|reflexivity]].
  - destruct (fmt_frac u 9) as [fr secs] eqn:E.
    pose proof (frac_asc u 9 Hu) as Hf. rewrite E in Hf. cbn [fst] in Hf.
    assert (Hs : 0 <= secs) by (unfold fmt_frac in E; injection E as _ <-; apply Z.div_pos; lia).
    assert (T : asc (nat_digits (secs mod 60) ++ fr ++ $"s")).
    { apply asc_app; [apply nat_digits_asc; lia|apply asc_app; [exact Hf|reflexivity]]. }
    destruct (secs / 60 =? 0); [now apply asc_enc|].
    assert (T2 : asc (nat_digits ((secs / 60) mod 60) ++ $"m" ++ nat_digits (secs mod 60) ++ fr ++ $"s")).
    { apply asc_app; [apply nat_digits_asc; lia|apply asc_app; [reflexivity|exact T]]. }
    destruct (secs / 60 / 60 =? 0); [now apply asc_enc|].
    apply asc_enc. apply asc_app; [apply nat_digits_asc; lia|apply asc_app; [reflexivity|exact T2]].
Qed.

Lemma body_pred (P : str -> Prop) mu u : (forall a b, P a -> P b -> P (a ++ b)) -> (forall l, asc l -> P l) ->
  P mu -> 0 <= u -> P (body_of mu u).
Proof.
  intros Papp Pasc Pmu Hu. unfold body_of. destruct (u =? 0); [apply Pasc; reflexivity|].
  destruct (u <? 1000000000).
  - destruct (u <? 1000); [|destruct (u <? 1000000)].
    + destruct (fmt_frac u 0) as [fr ip] eqn:E.
      pose proof (frac_asc u 0 Hu) as Hf. rewrite E in Hf. cbn [fst] in Hf.
      assert (0 <= ip) by (unfold fmt_frac in E; injection E as _ <-; apply Z.div_pos; lia).
      apply Papp; [apply Pasc; now apply nat_digits_asc|apply Papp; [now apply Pasc|apply Pasc; reflexivity]].
    + destruct (fmt_frac u 3) as [fr ip] eqn:E.
      pose proof (frac_asc u 3 Hu) as Hf. rewrite E in Hf. cbn [fst] in Hf.
      assert (0 <= ip) by (unfold fmt_frac in E; injection E as _ <-; apply Z.div_pos; lia).
      apply Papp; [apply Pasc; now apply nat_digits_asc|apply Papp; [now apply Pasc|exact Pmu]].
    + destruct (fmt_frac u 6) as [fr ip] eqn:E.
      pose proof (frac_asc u 6 Hu) as Hf. rewrite E in Hf. cbn [fst] in Hf.
      assert (0 <= ip) by (unfold fmt_frac in E; injection E as _ <-; apply Z.div_pos; lia).
      apply Papp; [apply Pasc; now apply nat_digits_asc|apply Papp; [now apply Pasc|apply Pasc; reflexivity]].
  - destruct (fmt_frac u 9) as [fr secs] eqn:E.
    pose proof (frac_asc u 9 Hu) as Hf. rewrite E in Hf. cbn [fst] in Hf.
    assert (Hs : 0 <= secs) by (unfold fmt_frac in E; injection E as _ <-; apply Z.div_pos; lia).
    assert (T : asc (nat_digits (secs mod 60) ++ fr ++ $"s")).
    { apply asc_app; [apply nat_digits_asc; lia|apply asc_app; [exact Hf|reflexivity]]. }
    destruct (secs / 60 =? 0); [now apply Pasc|].
    assert (T2 : asc (nat_digits ((secs / 60) mod 60) ++ $"m" ++ nat_digits (secs mod 60) ++ fr ++ $"s")).
    { apply asc_app; [apply nat_digits_asc; lia|apply asc_app; [reflexivity|exact T]]. }
    destruct (secs / 60 / 60 =? 0); [now apply Pasc|].
    apply Pasc. apply asc_app; [apply nat_digits_asc; lia|apply asc_app; [reflexivity|exact T2]].
Qed.

Definition scal (l : str) : Prop := forallb is_scalar l = true.
Lemma asc_scal l : asc l -> scal l.
Proof.
  unfold asc, scal. induction l as [|c l IH]; cbn [forallb]; [reflexivity|]. intros H.
  apply andb_prop in H as [Hc Hl]. rewrite (IH Hl), andb_true_r. unfold is_scalar. lia.
Qed.

Definition format_cp (d : Z) : str :=
  if d <? 0 then 45%N :: body_of micro (Z.abs d) else body_of micro (Z.abs d).

Lemma format_str_cp d : in_i64 d = true -> format_duration_str d = format_cp d.
Proof.
  intros Hd. unfold format_duration_str, format_cp. rewrite (format_as_body d Hd).
  assert (Hu : 0 <= Z.abs d) by (unfold limit63; lia).
  assert (Hs : scal (body_of micro (Z.abs d))).
  { apply body_pred; [|apply asc_scal|reflexivity|exact Hu].
    unfold scal. intros a b Ha Hb. now rewrite forallb_app, Ha, Hb. }
  rewrite <- (enc_body _ Hu). destruct (d <? 0).
  - change (45%N :: utf8_enc (body_of micro (Z.abs d))) with (utf8_enc (45%N :: body_of micro (Z.abs d))).
    rewrite utf8_roundtrip; [reflexivity|]. unfold scal in Hs. cbn [forallb]. now rewrite Hs.
  - now rewrite utf8_roundtrip.
Qed.

(** ** Terms as [format_duration] writes them *)
Lemma fmt_frac_eq v prec :
  fmt_frac v prec = (dotfrac (strip_trailing (pad_digits prec (v mod 10 ^ Z.of_nat prec))), v / 10 ^ Z.of_nat prec).
Proof. unfold fmt_frac, dotfrac. now destruct (strip_trailing _). Qed.

Lemma term_int q unit ns rest : 0 <= q -> unit_ok unit ns -> stop_ok rest -> q * ns <= limit63 ->
  parse_term (nat_digits q ++ unit ++ rest) = Some (q * ns, rest).
Proof.
  intros Hq Hu Hr Hl. destruct (nat_digits_ok q Hq) as (H1 & H2 & H3).
  pose proof (parse_term_ok (nat_digits q) [] unit ns rest H2 H3 eq_refl ltac:(cbn; lia) Hu Hr) as P.
  rewrite H1 in P. specialize (P Hl). cbn [dotfrac app length dec_num] in P.
  rewrite P. f_equal. f_equal. change (Z.of_nat 0) with 0. rewrite Z.pow_0_r, Z.div_1_r. lia.
Qed.

Lemma term_frac q v prec unit rest : (1 <= prec <= 25)%nat -> 0 <= q -> 0 <= v ->
  unit_ok unit (10 ^ Z.of_nat prec) -> stop_ok rest -> q * 10 ^ Z.of_nat prec <= limit63 ->
  parse_term (nat_digits q ++ fst (fmt_frac v prec) ++ unit ++ rest) =
  Some (q * 10 ^ Z.of_nat prec + v mod 10 ^ Z.of_nat prec, rest).
Proof.
  intros Hp Hq Hv Hu Hr Hl. rewrite fmt_frac_eq. cbn [fst].
  set (p := 10 ^ Z.of_nat prec) in *. assert (Hpp : 0 < p) by (apply Z.pow_pos_nonneg; lia).
  assert (Hm : 0 <= v mod p < p) by (apply Z.mod_pos_bound; lia).
  destruct (frac_props prec (v mod p) ltac:(lia) Hm) as (A & L & D).
  destruct (nat_digits_ok q Hq) as (H1 & H2 & H3).
  pose proof (parse_term_ok (nat_digits q) _ unit p rest H2 H3 A ltac:(lia) Hu Hr) as P.
  rewrite H1 in P. specialize (P Hl). rewrite P. fold p in D. now rewrite D.
Qed.

Lemma unit_facts :
  unit_ok $"ns" 1 /\ unit_ok micro 1000 /\ unit_ok $"ms" 1000000 /\ unit_ok $"s" 1000000000 /\
  unit_ok $"m" 60000000000 /\ unit_ok $"h" 3600000000000.
Proof. repeat split; try reflexivity; discriminate. Qed.

Lemma nat_digits_stop n r : 0 <= n -> stop_ok (nat_digits n ++ r).
Proof.
  intros H. destruct (nat_digits_head n H) as (c & t & -> & Hc). cbn [app stop_ok]. unfold is_num_char. now rewrite Hc.
Qed.

Lemma head_digit n r : 0 <= n -> exists c t, nat_digits n ++ r = c :: t /\ is_digit c = true.
Proof. intros H. destruct (nat_digits_head n H) as (c & t & -> & Hc). exists c, (t ++ r). auto. Qed.

Lemma len2 n r : 0 <= n -> (1 <= length r)%nat -> (2 <= length (nat_digits n ++ r))%nat.
Proof.
  intros H Hr. destruct (nat_digits_head n H) as (c & t & -> & _). rewrite app_length. cbn [length]. lia.
Qed.

Lemma digits_ne n r : 0 <= n -> nat_digits n ++ r <> [].
Proof. intros H. destruct (nat_digits_head n H) as (c & t & -> & _). discriminate. Qed.

(** ** The round trip *)
Theorem body_roundtrip u : 0 < u <= limit63 ->
  exists n, (n <= S (length (body_of micro u)))%nat /\ parse_terms n (body_of micro u) 0 = Some u /\
            (2 <= length (body_of micro u))%nat /\
            exists c t, body_of micro u = c :: t /\ is_digit c = true.
Proof.
  intros Hu. destruct unit_facts as (Uns & Uus & Ums & Us & Um & Uh). unfold limit63 in *.
  unfold body_of. destruct (Z.eqb_spec u 0); [lia|].
  destruct (Z.ltb_spec u 1000000000) as [Hlt|Hge].
  - (* below one second: one term *)
    assert (G : forall prec unit, (1 <= prec <= 25)%nat -> unit_ok unit (10 ^ Z.of_nat prec) ->
              exists n, (n <= S (length (nat_digits (snd (fmt_frac u prec)) ++ fst (fmt_frac u prec) ++ unit)))%nat /\
                parse_terms n (nat_digits (snd (fmt_frac u prec)) ++ fst (fmt_frac u prec) ++ unit) 0 = Some u /\
                (2 <= length (nat_digits (snd (fmt_frac u prec)) ++ fst (fmt_frac u prec) ++ unit))%nat /\
                exists c t, nat_digits (snd (fmt_frac u prec)) ++ fst (fmt_frac u prec) ++ unit = c :: t /\ is_digit c = true).
    { intros prec unit Hp Hun. set (p := 10 ^ Z.of_nat prec). assert (0 < p) by (apply Z.pow_pos_nonneg; lia).
      assert (Hq : snd (fmt_frac u prec) = u / p) by (rewrite fmt_frac_eq; reflexivity). rewrite Hq.
      assert (0 <= u / p) by (apply Z.div_pos; lia).
      assert (Hlim : u / p * p <= 9223372036854775808) by (pose proof (Z.mul_div_le u p ltac:(lia)); lia).
      pose proof (term_frac (u / p) u prec unit [] Hp ltac:(lia) ltac:(lia) Hun I Hlim) as P.
      rewrite app_nil_r in P. fold p in P.
      exists 1%nat. repeat split.
      - lia.
      - rewrite (parse_terms_step 0 _ 0 _ [] (digits_ne (u / p) _ ltac:(lia)) P).
        + cbn [parse_terms]. f_equal. pose proof (Z.div_mod u p ltac:(lia)). lia.
        + unfold limit63. pose proof (Z.div_mod u p ltac:(lia)). lia.
      - apply len2; [lia|]. rewrite app_length. destruct Hun as (_ & _ & Hne). destruct unit; [congruence|cbn [length]; lia].
      - apply head_digit. lia. }
    destruct (Z.ltb_spec u 1000); [|destruct (Z.ltb_spec u 1000000)].
    + (* nanoseconds: no fraction *)
      assert (E : fmt_frac u 0 = ([], u)).
      { unfold fmt_frac. change (10 ^ Z.of_nat 0) with 1. rewrite Z.mod_1_r, Z.div_1_r. reflexivity. }
      rewrite E. cbn [app].
      pose proof (term_int u $"ns" 1 [] ltac:(lia) Uns I ltac:(unfold limit63; lia)) as P. rewrite app_nil_r in P.
      exists 1%nat. repeat split.
      * lia.
      * rewrite (parse_terms_step 0 _ 0 _ [] (digits_ne (u) _ ltac:(lia)) P); [cbn [parse_terms]; f_equal; lia|unfold limit63; lia].
      * apply len2; [lia|cbn; lia].
      * apply head_digit. lia.
    + specialize (G 3%nat micro ltac:(lia) Uus). destruct (fmt_frac u 3) as [fr ip]. exact G.
    + specialize (G 6%nat $"ms" ltac:(lia) Ums). destruct (fmt_frac u 6) as [fr ip]. exact G.
  - (* one second and more: [h] [m] s *)
    rewrite fmt_frac_eq. set (p := 10 ^ Z.of_nat 9). assert (Hp : p = 1000000000) by reflexivity.
    set (secs := u / p). set (fr := dotfrac (strip_trailing (pad_digits 9 (u mod p)))).
    assert (Hfr : fr = fst (fmt_frac u 9)) by (rewrite fmt_frac_eq; reflexivity).
    assert (Hsecs : 0 <= secs) by (apply Z.div_pos; lia).
    pose proof (Z.div_mod u p ltac:(lia)) as Du. fold secs in Du.
    pose proof (Z.mod_pos_bound u p ltac:(lia)) as Bu.
    set (s := secs mod 60). set (mins := secs / 60). set (m := mins mod 60). set (hrs := mins / 60).
    assert (Hs : 0 <= s < 60) by (apply Z.mod_pos_bound; lia).
    assert (Hmins : 0 <= mins) by (apply Z.div_pos; lia).
    assert (Hm : 0 <= m < 60) by (apply Z.mod_pos_bound; lia).
    assert (Hhrs : 0 <= hrs) by (apply Z.div_pos; lia).
    pose proof (Z.div_mod secs 60 ltac:(lia)) as Ds. fold s mins in Ds.
    pose proof (Z.div_mod mins 60 ltac:(lia)) as Dm. fold m hrs in Dm.
    (* the seconds term *)
    assert (Ts : parse_term (nat_digits s ++ fr ++ $"s") = Some (s * p + u mod p, [])).
    { rewrite Hfr. pose proof (term_frac s u 9 $"s" [] ltac:(lia) ltac:(lia) ltac:(lia) Us I ltac:(unfold limit63; fold p; lia)) as P.
      rewrite app_nil_r in P. exact P. }
    destruct (Z.eqb_spec mins 0) as [Em|Em].
    + exists 1%nat. repeat split.
      * lia.
      * rewrite (parse_terms_step 0 _ 0 _ [] (digits_ne (s) _ ltac:(lia)) Ts); [cbn [parse_terms]; f_equal; lia|unfold limit63; lia].
      * apply len2; [lia|rewrite app_length; cbn; lia].
      * apply head_digit. lia.
    + assert (Tm : forall rest, stop_ok rest -> parse_term (nat_digits m ++ $"m" ++ rest) = Some (m * 60000000000, rest))
        by (intros rest Hr; apply term_int; [lia|exact Um|exact Hr|unfold limit63; lia]).
      destruct (Z.eqb_spec hrs 0) as [Eh|Eh].
      * exists 2%nat. repeat split.
        -- assert (2 <= length (nat_digits m ++ $"m" ++ nat_digits s ++ fr ++ $"s"))%nat by (apply len2; [lia|cbn; lia]). lia.
        -- rewrite (parse_terms_step 1 _ 0 _ _ (digits_ne (m) _ ltac:(lia)) (Tm _ (nat_digits_stop s _ ltac:(lia)))) by (unfold limit63; lia).
           rewrite (parse_terms_step 0 _ _ _ [] (digits_ne (s) _ ltac:(lia)) Ts) by (unfold limit63; lia).
           cbn [parse_terms]. f_equal. lia.
        -- apply len2; [lia|cbn; lia].
        -- apply head_digit. lia.
      * assert (Th : forall rest, stop_ok rest -> parse_term (nat_digits hrs ++ $"h" ++ rest) = Some (hrs * 3600000000000, rest))
          by (intros rest Hr; apply term_int; [lia|exact Uh|exact Hr|unfold limit63; lia]).
        exists 3%nat. repeat split.
        -- pose proof (len2 hrs ($"h" ++ nat_digits m ++ $"m" ++ nat_digits s ++ fr ++ $"s") Hhrs ltac:(cbn; lia)). lia.
        -- rewrite (parse_terms_step 2 _ 0 _ _ (digits_ne (hrs) _ ltac:(lia)) (Th _ (nat_digits_stop m _ ltac:(lia)))) by (unfold limit63; lia).
           rewrite (parse_terms_step 1 _ _ _ _ (digits_ne (m) _ ltac:(lia)) (Tm _ (nat_digits_stop s _ ltac:(lia)))) by (unfold limit63; lia).
           rewrite (parse_terms_step 0 _ _ _ [] (digits_ne (s) _ ltac:(lia)) Ts) by (unfold limit63; lia).
           cbn [parse_terms]. f_equal. lia.
        -- apply len2; [lia|cbn; lia].
        -- apply head_digit. lia.
Qed.

Theorem duration_roundtrip d : in_i64 d = true -> parse_duration (format_duration_str d) = Some d.
Proof.
  intros Hd. rewrite (format_str_cp d Hd). unfold format_cp.
  destruct (Z.eq_dec d 0) as [->|Hnz]; [reflexivity|].
  assert (Hu : 0 < Z.abs d <= limit63) by (unfold in_i64, i64_min, i64_max, limit63 in *; lia).
  destruct (body_roundtrip (Z.abs d) Hu) as (n & Hn & Hp & Hl & Hh).
  pose proof (parse_duration_terms (d <? 0) (body_of micro (Z.abs d)) (Z.abs d) n Hl Hh Hn Hp) as R.
  destruct (Z.ltb_spec d 0).
  - cbn [app] in R. rewrite R; [f_equal; lia|discriminate].
  - cbn [app] in R. rewrite R; [f_equal; lia|]. intros _. unfold in_i64, i64_max, limit63 in *. lia.
Qed.
