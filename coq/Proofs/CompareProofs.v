(** C09: coherence of equality and ordering. *)
From Cel.Model Require Import Compare.
From Coq Require Import Lia QArith.
Open Scope Z_scope.

(** ** != is the negation of == (definitional in the model, as in the code). *)
Lemma ne_neg a b : v_ne a b = negb (v_eq a b).
Proof. reflexivity. Qed.

(** ** Strings: [str_cmp] is the lexicographic order on code points. *)
Inductive lex_lt : str -> str -> Prop :=
| lex_nil y b : lex_lt [] (y :: b)
| lex_head x y a b : (x < y)%N -> lex_lt (x :: a) (y :: b)
| lex_tail x a b : lex_lt a b -> lex_lt (x :: a) (x :: b).

Lemma str_cmp_lt a b : str_cmp a b = Lt <-> lex_lt a b.
Proof.
  revert b; induction a as [|x a IH]; intros [|y b]; cbn [str_cmp].
  - split; [discriminate|inversion 1].
  - split; [constructor|reflexivity].
  - split; [discriminate|inversion 1].
  - destruct (N.compare_spec x y) as [->|H|H].
    + rewrite IH. split; [apply lex_tail|]. inversion 1; subst; [lia|assumption].
    + split; [intros _; now apply lex_head|reflexivity].
    + split; [discriminate|]. inversion 1; subst; lia.
Qed.

Lemma str_cmp_eq a b : str_cmp a b = Eq <-> a = b.
Proof.
  revert b; induction a as [|x a IH]; intros [|y b]; cbn [str_cmp]; try (split; congruence).
  destruct (N.compare_spec x y) as [->|H|H].
  - rewrite IH. split; congruence.
  - split; [discriminate|]. intros [= -> _]; lia.
  - split; [discriminate|]. intros [= -> _]; lia.
Qed.

Lemma str_eqb_eq a b : str_eqb a b = true <-> a = b.
Proof.
  revert b; induction a as [|x a IH]; intros [|y b]; cbn [str_eqb]; try (split; congruence).
  rewrite andb_true_iff, N.eqb_eq, IH. split; [intros [-> ->]; reflexivity|intros [= -> ->]; auto].
Qed.

Lemma str_cmp_antisym a b : str_cmp b a = CompOpp (str_cmp a b).
Proof.
  revert b; induction a as [|x a IH]; intros [|y b]; cbn [str_cmp]; try reflexivity.
  rewrite (N.compare_antisym x y). destruct (N.compare x y); cbn [CompOpp]; auto.
Qed.

Lemma str_cmp_trans a b c : str_cmp a b = Lt -> str_cmp b c = Lt -> str_cmp a c = Lt.
Proof.
  revert b c; induction a as [|x a IH]; intros [|y b] [|z c]; cbn [str_cmp]; try congruence.
  destruct (N.compare_spec x y) as [->|H|H]; try discriminate.
  - destruct (N.compare_spec y z) as [->|H2|H2]; try discriminate; [apply IH|reflexivity].
  - intros _. destruct (N.compare_spec y z) as [->|H2|H2]; try discriminate; intros _.
    + destruct (N.compare_spec x z); try lia; reflexivity.
    + destruct (N.compare_spec x z); try lia; reflexivity.
Qed.

(** ** IEEE comparison as coded in SpecFloat is antisymmetric. *)
Lemma fcmp_antisym x y : fcmp y x = option_map CompOpp (fcmp x y).
Proof.
  unfold fcmp, SFcompare.
  destruct x as [sx|sx| |sx mx ex], y as [sy|sy| |sy my ey]; cbn [option_map];
    try reflexivity; try (destruct sx; reflexivity); try (destruct sy; reflexivity);
    try (destruct sx, sy; reflexivity).
  destruct sx, sy; cbn [CompOpp]; try reflexivity;
    rewrite (Z.compare_antisym ex ey); destruct (ex ?= ey) eqn:E; cbn [CompOpp]; try reflexivity;
    change (Pcompare my mx Eq) with (Pos.compare my mx);
    change (Pcompare mx my Eq) with (Pos.compare mx my);
    rewrite (Pos.compare_antisym mx my); destruct (mx ?= my)%positive; reflexivity.
Qed.

(** ** Exact comparison of an integer with a double. *)
Definition Qval (f : f64) : Q :=
  match f with
  | S754_finite s m e =>
      let v := if s then Zneg m else Zpos m in
      match e with
      | Z0 => inject_Z v
      | Zpos p => inject_Z (v * Z.pow_pos 2 p)
      | Zneg p => Qmake v (Pos.pow 2 p)
      end
  | _ => 0%Q
  end.

Lemma pow_pos_Zpos p : Z.pow_pos 2 p = Zpos (Pos.pow 2 p).
Proof. now rewrite Pos2Z.inj_pow_pos. Qed.

Lemma cmp_Z_f64_exact z f : is_finite f = true ->
  cmp_Z_f64 z f = Some (Qcompare (inject_Z z) (Qval f)).
Proof.
  destruct f as [s|s| |s m e]; try discriminate; intros _; cbn [cmp_Z_f64 Qval].
  - unfold Qcompare; cbn. now rewrite Z.mul_1_r.
  - destruct e as [|p|p]; unfold Qcompare, inject_Z; cbn [Qnum Qden];
      rewrite ?Z.mul_1_r; try reflexivity.
    now rewrite pow_pos_Zpos.
Qed.

Lemma cmp_Z_f64_inf z s : cmp_Z_f64 z (S754_infinity s) = Some (if s then Gt else Lt).
Proof. reflexivity. Qed.
Lemma cmp_Z_f64_nan z : cmp_Z_f64 z S754_nan = None.
Proof. reflexivity. Qed.

(** ** Coherence of [v_cmp] with [v_eq] *)
Lemma compopp_eq c : CompOpp c = Eq <-> c = Eq.
Proof. destruct c; cbn; split; congruence. Qed.

Lemma list_eqb_N_eq a b : list_eqb N.eqb a b = true <-> a = b.
Proof.
  revert b; induction a as [|x a IH]; intros [|y b]; cbn; try (split; congruence).
  rewrite andb_true_iff, N.eqb_eq, IH. split; [intros [-> ->]; auto|intros [= -> ->]; auto].
Qed.

Lemma cmp_eq_coherent a b c : v_cmp a b = Some c -> (v_eq a b = true <-> c = Eq).
Proof.
  destruct a, b; cbn [v_cmp v_eq]; try discriminate; intros H;
    try (injection H as <-; rewrite Z.eqb_eq, Z.compare_eq_iff; tauto).
  all: try (unfold cmp_is_eq; rewrite H; destruct c; split; congruence).
  all: try (unfold cmp_is_eq;
            match goal with
            | H : option_map CompOpp ?x = Some _ |- _ =>
                destruct x as [c'|]; [|discriminate]; cbn in H; injection H as <-;
                rewrite compopp_eq; destruct c'; split; congruence
            end).
  - unfold feq. rewrite H. destruct c; split; congruence.
  - injection H as <-. rewrite str_eqb_eq, str_cmp_eq. tauto.
  - injection H as <-. destruct b0, b; cbn; split; congruence.
  - injection H as <-. tauto.
Qed.

(** ** Antisymmetry: a < b iff b > a *)
Lemma cmp_antisym a b : v_cmp b a = option_map CompOpp (v_cmp a b).
Proof.
  destruct a, b; cbn [v_cmp option_map]; try reflexivity;
    try (now rewrite Z.compare_antisym);
    try (match goal with
         | |- context [cmp_Z_f64 ?z ?f] => destruct (cmp_Z_f64 z f) as [[]|]; reflexivity
         end).
  - apply fcmp_antisym.
  - now rewrite str_cmp_antisym.
  - destruct b0, b; reflexivity.
Qed.

(** ** The relational operators in terms of [v_cmp] / [v_eq] *)
Definition is_true (o : outcome value) : bool :=
  match o with Ok (VBool true) => true | _ => false end.

Lemma trichotomy a b c : v_cmp a b = Some c ->
  match c with
  | Lt => is_true (v_lt a b) = true /\ v_eq a b = false /\ is_true (v_gt a b) = false
  | Eq => is_true (v_lt a b) = false /\ v_eq a b = true /\ is_true (v_gt a b) = false
  | Gt => is_true (v_lt a b) = false /\ v_eq a b = false /\ is_true (v_gt a b) = true
  end.
Proof.
  intros H. pose proof (cmp_eq_coherent a b c H) as Hc.
  unfold v_lt, v_gt. rewrite H. destruct c; cbn [is_true]; repeat split;
    try (apply Hc; reflexivity);
    destruct (v_eq a b); try reflexivity; exfalso; assert (X : true = true) by reflexivity;
    apply Hc in X; discriminate.
Qed.

Lemma le_iff_lt_or_eq a b c : v_cmp a b = Some c ->
  is_true (v_le a b) = is_true (v_lt a b) || v_eq a b.
Proof.
  intros H. pose proof (trichotomy a b c H) as T. unfold v_le, v_lt in *. rewrite H in *.
  destruct c; destruct T as (T1 & T2 & T3); rewrite T2; reflexivity.
Qed.

Lemma lt_iff_gt a b : is_true (v_lt a b) = is_true (v_gt b a).
Proof.
  unfold v_lt, v_gt. rewrite (cmp_antisym a b). destruct (v_cmp a b) as [[]|]; reflexivity.
Qed.

(** ** Lists and maps *)
Lemma v_eq_list a b :
  v_eq (VList a) (VList b) = true <-> Forall2 (fun x y => v_eq x y = true) a b.
Proof.
  cbn [v_eq]. revert b; induction a as [|x a IH]; intros [|y b].
  - split; [constructor|reflexivity].
  - split; [discriminate|inversion 1].
  - split; [discriminate|inversion 1].
  - rewrite andb_true_iff, IH. split.
    + intros [H1 H2]; constructor; assumption.
    + inversion 1; subst; split; assumption.
Qed.

Lemma v_eq_map a b :
  v_eq (VMap a) (VMap b) = true <->
  length a = length b /\
  Forall (fun kv => exists v', assoc_get (fst kv) b = Some v' /\ v_eq (snd kv) v' = true) a.
Proof.
  cbn [v_eq]. rewrite andb_true_iff, Nat.eqb_eq.
  assert (G : forall m,
    (fix all_in (m : list (key * value)) : bool :=
       match m with
       | [] => true
       | (k, v) :: m' =>
           match assoc_get k b with
           | Some v' => v_eq v v' && all_in m'
           | None => false
           end
       end) m = true <->
    Forall (fun kv => exists v', assoc_get (fst kv) b = Some v' /\ v_eq (snd kv) v' = true) m).
  { induction m as [|[k v] m IH].
    - split; [constructor|reflexivity].
    - destruct (assoc_get k b) as [v'|] eqn:E.
      + rewrite andb_true_iff, IH. split.
        * intros [H1 H2]. constructor; [exists v'; cbn; auto|assumption].
        * inversion 1 as [|? ? [v'' [H1 H2]] H3]; subst. cbn in H1. rewrite E in H1.
          injection H1 as <-. auto.
      + split; [discriminate|]. inversion 1 as [|? ? [v'' [H1 H2]] H3]; subst.
        cbn in H1. congruence. }
  rewrite G. tauto.
Qed.

(** ** Unrelated types *)
Inductive vkind := KNum | KStrK | KBytesK | KBoolK | KNullK | KListK | KMapK | KFunK | KDurK | KTsK.
Definition kind_of (v : value) : vkind :=
  match v with
  | VInt _ | VUInt _ | VDbl _ => KNum
  | VStr _ => KStrK | VBytes _ => KBytesK | VBool _ => KBoolK | VNull => KNullK
  | VList _ => KListK | VMap _ => KMapK | VFun _ _ => KFunK | VDur _ => KDurK | VTs _ _ => KTsK
  end.

Lemma unrelated a b : kind_of a <> kind_of b -> v_eq a b = false /\ v_cmp a b = None.
Proof.
  destruct a, b; cbn [kind_of]; intros H; try (exfalso; apply H; reflexivity); split; reflexivity.
Qed.

(** NaN is unordered and unequal to every number. *)
Lemma nan_unordered b : kind_of b = KNum ->
  v_eq (VDbl S754_nan) b = false /\ v_cmp (VDbl S754_nan) b = None /\
  v_eq b (VDbl S754_nan) = false /\ v_cmp b (VDbl S754_nan) = None.
Proof.
  destruct b; try discriminate; intros _; cbn; repeat split; try reflexivity;
    destruct f; reflexivity.
Qed.

(** ** Transitivity on the classes where the model's order is a total order on its own:
    int/uint (mixed freely), strings, bools, durations, timestamps, null. *)
Definition zkey (v : value) : option Z :=
  match v with
  | VInt z | VUInt z => Some z
  | _ => None
  end.

Lemma cmp_intlike a b x y : zkey a = Some x -> zkey b = Some y -> v_cmp a b = Some (Z.compare x y).
Proof. destruct a, b; cbn; try discriminate; intros [= <-] [= <-]; reflexivity. Qed.

Lemma trans_intlike a b c x y z :
  zkey a = Some x -> zkey b = Some y -> zkey c = Some z ->
  v_cmp a b = Some Lt -> v_cmp b c = Some Lt -> v_cmp a c = Some Lt.
Proof.
  intros Ha Hb Hc. rewrite (cmp_intlike a b x y), (cmp_intlike b c y z), (cmp_intlike a c x z) by assumption.
  intros [= H1] [= H2]. f_equal. rewrite Z.compare_lt_iff in *. lia.
Qed.

Lemma trans_str a b c :
  v_cmp (VStr a) (VStr b) = Some Lt -> v_cmp (VStr b) (VStr c) = Some Lt ->
  v_cmp (VStr a) (VStr c) = Some Lt.
Proof. cbn. intros [= H1] [= H2]. f_equal. eapply str_cmp_trans; eassumption. Qed.

(** Mixed int/uint and double with one double among the three: by the exact denotation. *)
Lemma Qcompare_lt_trans (p q r : Q) : (p ?= q)%Q = Lt -> (q ?= r)%Q = Lt -> (p ?= r)%Q = Lt.
Proof. rewrite <- !Qlt_alt. apply Qlt_trans. Qed.

Lemma trans_zdz a b c x z f :
  zkey a = Some x -> b = VDbl f -> zkey c = Some z ->
  v_cmp a b = Some Lt -> v_cmp b c = Some Lt -> v_cmp a c = Some Lt.
Proof.
  intros Ha -> Hc H1 H2. rewrite (cmp_intlike a c x z) by assumption. f_equal.
  assert (E1 : cmp_Z_f64 x f = Some Lt) by (destruct a; cbn in *; try discriminate; congruence).
  assert (E2 : cmp_Z_f64 z f = Some Gt).
  { destruct c; cbn in *; try discriminate; injection Hc as ->;
      destruct (cmp_Z_f64 z f) as [[]|]; cbn in H2; congruence. }
  destruct f as [s|s| |s m e]; try discriminate.
  - cbn in E1, E2. injection E1 as E1. injection E2 as E2.
    rewrite Z.compare_lt_iff in *. rewrite Z.compare_gt_iff in E2. lia.
  - cbn in E1, E2. destruct s; discriminate.
  - rewrite cmp_Z_f64_exact in E1, E2 by reflexivity. injection E1 as E1. injection E2 as E2.
    rewrite <- Qgt_alt in E2. rewrite <- Qlt_alt in E1.
    pose proof (Qlt_trans _ _ _ E1 E2) as H. rewrite <- Zlt_Qlt in H. now apply Z.compare_lt_iff.
Qed.

(** ** max / min *)
Definition le_or_eq (c : option comparison) : Prop := c = Some Lt \/ c = Some Eq.

Lemma fold_pick_max_spec l : forall acc m,
  (forall x y z, In x (acc :: l) -> In y (acc :: l) -> In z (acc :: l) ->
     le_or_eq (v_cmp x y) -> le_or_eq (v_cmp y z) -> le_or_eq (v_cmp x z)) ->
  (forall x, In x (acc :: l) -> le_or_eq (v_cmp x x)) ->
  fold_pick Gt acc l = Ok m ->
  In m (acc :: l) /\ forall x, In x (acc :: l) -> le_or_eq (v_cmp x m).
Proof.
  induction l as [|y l IH]; intros acc m Htr Hrefl; cbn [fold_pick].
  - intros [= <-]. split; [now left|]. intros x [<-|[]]. apply Hrefl. now left.
  - destruct (v_cmp acc y) as [c|] eqn:E; [|discriminate].
    set (acc' := if match c with Gt => true | _ => false end then acc else y).
    replace (if match c, Gt with Gt, Gt => true | Lt, Lt => true | _, _ => false end then acc else y)
      with acc' by (subst acc'; destruct c; reflexivity).
    intros H.
    assert (Hin' : In acc' (acc :: y :: l)) by (subst acc'; destruct c; cbn; auto).
    assert (Hsub : forall x, In x (acc' :: l) -> In x (acc :: y :: l)).
    { intros x [<-|Hx]; [assumption|cbn; auto]. }
    destruct (IH acc' m) as [Hm Hb]; [| |exact H|].
    + intros x0 y0 z0 Hx Hy Hz. apply Htr; auto.
    + intros x0 Hx. apply Hrefl; auto.
    + split; [auto|].
      assert (Hacc' : le_or_eq (v_cmp acc' m)) by (apply Hb; now left).
      assert (Ha : le_or_eq (v_cmp acc acc') /\ le_or_eq (v_cmp y acc')).
      { subst acc'. destruct c.
        - split; [right; exact E|apply Hrefl; cbn; auto].
        - split; [left; exact E|apply Hrefl; cbn; auto].
        - split; [apply Hrefl; cbn; auto|].
          rewrite (cmp_antisym acc y), E. left; reflexivity. }
      destruct Ha as [Ha1 Ha2].
      assert (Hm' : In m (acc :: y :: l)) by (apply Hsub; exact Hm).
      intros x [<-|[<-|Hx]].
      * apply (Htr acc acc' m); [now left|exact Hin'|exact Hm'|exact Ha1|exact Hacc'].
      * apply (Htr y acc' m); [right; now left|exact Hin'|exact Hm'|exact Ha2|exact Hacc'].
      * apply Hb. now right.
Qed.

(** ** The numbers denoted, and exactness of mixed comparisons *)
Inductive xnum := XNaN | XInf (neg : bool) | XFin (q : Q).

Definition den (v : value) : option xnum :=
  match v with
  | VInt z | VUInt z => Some (XFin (inject_Z z))
  | VDbl f => Some match f with
                   | S754_nan => XNaN
                   | S754_infinity s => XInf s
                   | _ => XFin (Qval f)
                   end
  | _ => None
  end.

(** Comparison of extended rationals: NaN unordered, infinities at the ends. *)
Definition xcmp (a b : xnum) : option comparison :=
  match a, b with
  | XNaN, _ | _, XNaN => None
  | XInf s1, XInf s2 => Some (match s1, s2 with
                              | true, false => Lt | false, true => Gt | _, _ => Eq end)
  | XInf s, XFin _ => Some (if s then Lt else Gt)
  | XFin _, XInf s => Some (if s then Gt else Lt)
  | XFin p, XFin q => Some (Qcompare p q)
  end.

Definition is_dbl (v : value) : bool := match v with VDbl _ => true | _ => false end.

Lemma Qcompare_inject x y : Qcompare (inject_Z x) (inject_Z y) = Z.compare x y.
Proof. unfold Qcompare, inject_Z; cbn. now rewrite !Z.mul_1_r. Qed.

Lemma cmp_Z_f64_den z f :
  cmp_Z_f64 z f = match den (VDbl f) with Some d => xcmp (XFin (inject_Z z)) d | None => None end.
Proof.
  destruct f as [s|s| |s m e]; cbn [den].
  - cbn [cmp_Z_f64 xcmp Qval]. now rewrite <- Qcompare_inject.
  - reflexivity.
  - reflexivity.
  - cbn [xcmp]. now rewrite cmp_Z_f64_exact.
Qed.

Lemma xcmp_antisym a b : xcmp b a = option_map CompOpp (xcmp a b).
Proof.
  destruct a as [|s|p], b as [|t|q]; cbn; try reflexivity;
    try (destruct s; reflexivity); try (destruct t; reflexivity);
    try (destruct s, t; reflexivity).
  now rewrite <- Qcompare_antisym.
Qed.

Lemma cmp_exact a b da db :
  den a = Some da -> den b = Some db -> is_dbl a && is_dbl b = false ->
  v_cmp a b = xcmp da db.
Proof.
  destruct a, b; cbn [den is_dbl andb]; try discriminate; intros [= <-] [= <-] _;
    cbn [v_cmp]; try (cbn [xcmp]; now rewrite Qcompare_inject).
  - rewrite cmp_Z_f64_den. reflexivity.
  - rewrite cmp_Z_f64_den. reflexivity.
  - rewrite cmp_Z_f64_den. cbn [den]. now rewrite <- xcmp_antisym.
  - rewrite cmp_Z_f64_den. cbn [den]. now rewrite <- xcmp_antisym.
Qed.

Lemma eq_exact a b da db :
  den a = Some da -> den b = Some db -> is_dbl a && is_dbl b = false ->
  v_eq a b = match xcmp da db with Some Eq => true | _ => false end.
Proof.
  intros Ha Hb Hd. pose proof (cmp_exact a b da db Ha Hb Hd) as H.
  destruct (v_cmp a b) as [c|] eqn:E.
  - rewrite <- H. pose proof (cmp_eq_coherent a b c E) as Hc.
    destruct c; destruct (v_eq a b); try reflexivity;
      try (exfalso; assert (X : true = true) by reflexivity; apply Hc in X; discriminate);
      exfalso; destruct Hc as [_ Hc]; specialize (Hc eq_refl); discriminate.
  - rewrite <- H.
    destruct a, b; cbn in Ha, Hb, Hd, E |- *; try discriminate;
      unfold cmp_is_eq;
      match goal with
      | |- context [cmp_Z_f64 ?z ?f] => destruct (cmp_Z_f64 z f) as [[]|]; try discriminate; reflexivity
      end.
Qed.

(** max/min over int/uint lists (a class on which the order is total and transitive). *)
Lemma cmp_intlike_refl a x : zkey a = Some x -> le_or_eq (v_cmp a a).
Proof. intros H. right. rewrite (cmp_intlike a a x x H H). now rewrite Z.compare_refl. Qed.

Lemma le_or_eq_intlike a b x y : zkey a = Some x -> zkey b = Some y ->
  (le_or_eq (v_cmp a b) <-> (x <= y)%Z).
Proof.
  intros Ha Hb. rewrite (cmp_intlike a b x y Ha Hb). unfold le_or_eq. split.
  - intros [H|H]; injection H as H.
    + apply Z.compare_lt_iff in H. now apply Z.lt_le_incl.
    + apply Z.compare_eq_iff in H. subst. apply Z.le_refl.
  - intros H. destruct (Z.compare_spec x y) as [E|E|E]; [right|left|]; try reflexivity.
    exfalso. apply (Z.lt_irrefl x). eapply Z.le_lt_trans; eassumption.
Qed.

Lemma max_intlike l m :
  l <> [] -> Forall (fun v => zkey v <> None) l -> pick_list Gt l = Ok m ->
  In m l /\ forall x, In x l -> le_or_eq (v_cmp x m).
Proof.
  destruct l as [|a l]; [congruence|]. intros _ Hall. cbn [pick_list].
  assert (K : forall v, In v (a :: l) -> exists z, zkey v = Some z).
  { intros v Hv. rewrite Forall_forall in Hall. specialize (Hall v Hv).
    destruct (zkey v) as [z|]; [now exists z|congruence]. }
  apply fold_pick_max_spec.
  - intros x y z Hx Hy Hz. destruct (K x Hx) as [zx Ex], (K y Hy) as [zy Ey], (K z Hz) as [zz Ez].
    rewrite (le_or_eq_intlike x y zx zy), (le_or_eq_intlike y z zy zz), (le_or_eq_intlike x z zx zz)
      by assumption. apply Z.le_trans.
  - intros x Hx. destruct (K x Hx) as [zx Ex]. eapply cmp_intlike_refl; eassumption.
Qed.
