(** More fuel never changes an answer other than "out of fuel": [p_X f ts] is [PFuel] or equal
    to [p_X (S f) ts], for every parser function.  With ParserTotal (the fuel [compile] uses is
    never exhausted) a result established "for all sufficiently large fuel" is the result of
    [parse_tokens]. *)
From Coq Require Import String Ascii.
From Cel.Model Require Import Surface.
From Cel.Proofs Require Import ParserRoundtrip ParserTotal.
From Coq Require Import Lia Arith.
Open Scope nat_scope.

Definition le_res {A} (a b : pres A) : Prop := a = PFuel \/ a = b.
Lemma le_refl {A} (a : pres A) : le_res a a. Proof. now right. Qed.
Lemma le_fuel {A} (b : pres A) : le_res PFuel b. Proof. now left. Qed.

(** a sub-parse followed by a continuation that treats PFail / PFuel as themselves *)
Lemma le_bind {A B} (a a' : pres A) (k k' : A -> list tk -> pres B) :
  le_res a a' -> (forall x l, le_res (k x l) (k' x l)) ->
  le_res (match a with POk x l => k x l | PFail => PFail | PFuel => PFuel end)
         (match a' with POk x l => k' x l | PFail => PFail | PFuel => PFuel end).
Proof.
  intros [->| <-] Hk; [apply le_fuel|]. destruct a; [apply Hk|apply le_refl|apply le_refl].
Qed.

Record MIH (f : nat) : Prop := {
  Mexpr : forall ts, le_res (p_expr f ts) (p_expr (S f) ts);
  Mor : forall ts, le_res (p_or f ts) (p_or (S f) ts);
  Mand : forall ts, le_res (p_and f ts) (p_and (S f) ts);
  Mrel : forall ts, le_res (p_rel f ts) (p_rel (S f) ts);
  Madd : forall ts, le_res (p_add f ts) (p_add (S f) ts);
  Mmul : forall ts, le_res (p_mul f ts) (p_mul (S f) ts);
  Munary : forall ts, le_res (p_unary f ts) (p_unary (S f) ts);
  Mmember : forall ts, le_res (p_member f ts) (p_member (S f) ts);
  Mprimary : forall ts, le_res (p_primary f ts) (p_primary (S f) ts);
  Morl : forall acc ts, le_res (p_or_loop f acc ts) (p_or_loop (S f) acc ts);
  Mandl : forall acc ts, le_res (p_and_loop f acc ts) (p_and_loop (S f) acc ts);
  Mrell : forall l ts, le_res (p_rel_loop f l ts) (p_rel_loop (S f) l ts);
  Maddl : forall l ts, le_res (p_add_loop f l ts) (p_add_loop (S f) l ts);
  Mmull : forall l ts, le_res (p_mul_loop f l ts) (p_mul_loop (S f) l ts);
  Mpostfix : forall e ts, le_res (p_postfix f e ts) (p_postfix (S f) e ts);
  Margs : forall ts, le_res (p_args f ts) (p_args (S f) ts);
  Margsr : forall acc ts, le_res (p_args_rest f acc ts) (p_args_rest (S f) acc ts);
  Melems : forall acc ts, le_res (p_elems f acc ts) (p_elems (S f) acc ts);
  Mentries : forall acc ts, le_res (p_entries f acc ts) (p_entries (S f) acc ts);
  Mfields : forall acc ts, le_res (p_fields f acc ts) (p_fields (S f) acc ts)
}.

(** [step H]: the two sides scrutinise a sub-parse at fuel f and S f; align them *)
Ltac step H :=
  let E := fresh "E" in
  destruct H as [E|E]; [rewrite E; apply le_fuel | rewrite <- E; clear E].

Section Step.
Variable f : nat.
Hypothesis IH : MIH f.

Lemma m_expr ts : le_res (p_expr (S f) ts) (p_expr (S (S f)) ts).
Proof.
  rewrite (u_expr (S f)), (u_expr f).
  step (Mor f IH ts). destruct (p_or f ts) as [c l| |]; try apply le_refl.
  destruct l as [|t l]; [apply le_refl|]. destruct t; try apply le_refl.
  step (Mor f IH l). destruct (p_or f l) as [a l2| |]; try apply le_refl.
  destruct l2 as [|t l2]; [apply le_refl|]. destruct t; try apply le_refl.
  step (Mexpr f IH l2). apply le_refl.
Qed.

Lemma m_or ts : le_res (p_or (S f) ts) (p_or (S (S f)) ts).
Proof. rewrite (u_or (S f)), (u_or f). apply le_bind; [apply (Mand f IH)|intros; apply (Morl f IH)]. Qed.
Lemma m_and ts : le_res (p_and (S f) ts) (p_and (S (S f)) ts).
Proof. rewrite (u_and (S f)), (u_and f). apply le_bind; [apply (Mrel f IH)|intros; apply (Mandl f IH)]. Qed.
Lemma m_rel ts : le_res (p_rel (S f) ts) (p_rel (S (S f)) ts).
Proof. rewrite (u_rel (S f)), (u_rel f). apply le_bind; [apply (Madd f IH)|intros; apply (Mrell f IH)]. Qed.
Lemma m_add ts : le_res (p_add (S f) ts) (p_add (S (S f)) ts).
Proof. rewrite (u_add (S f)), (u_add f). apply le_bind; [apply (Mmul f IH)|intros; apply (Maddl f IH)]. Qed.
Lemma m_mul ts : le_res (p_mul (S f) ts) (p_mul (S (S f)) ts).
Proof. rewrite (u_mul (S f)), (u_mul f). apply le_bind; [apply (Munary f IH)|intros; apply (Mmull f IH)]. Qed.
Lemma m_member ts : le_res (p_member (S f) ts) (p_member (S (S f)) ts).
Proof. rewrite (u_member (S f)), (u_member f). apply le_bind; [apply (Mprimary f IH)|intros; apply (Mpostfix f IH)]. Qed.

Lemma m_or_loop acc ts : le_res (p_or_loop (S f) acc ts) (p_or_loop (S (S f)) acc ts).
Proof.
  rewrite (u_or_loop (S f)), (u_or_loop f). destruct ts as [|t ts]; [apply le_refl|]. destruct t; try apply le_refl.
  apply le_bind; [apply (Mand f IH)|intros; apply (Morl f IH)].
Qed.
Lemma m_and_loop acc ts : le_res (p_and_loop (S f) acc ts) (p_and_loop (S (S f)) acc ts).
Proof.
  rewrite (u_and_loop (S f)), (u_and_loop f). destruct ts as [|t ts]; [apply le_refl|]. destruct t; try apply le_refl.
  apply le_bind; [apply (Mrel f IH)|intros; apply (Mandl f IH)].
Qed.
Lemma m_rel_loop lhs ts : le_res (p_rel_loop (S f) lhs ts) (p_rel_loop (S (S f)) lhs ts).
Proof.
  rewrite (u_rel_loop (S f)), (u_rel_loop f). destruct ts as [|t ts]; [apply le_refl|].
  destruct (relop_name t); [|apply le_refl]. apply le_bind; [apply (Madd f IH)|intros; apply (Mrell f IH)].
Qed.
Lemma m_add_loop lhs ts : le_res (p_add_loop (S f) lhs ts) (p_add_loop (S (S f)) lhs ts).
Proof.
  rewrite (u_add_loop (S f)), (u_add_loop f). destruct ts as [|t ts]; [apply le_refl|].
  destruct (addop_name t); [|apply le_refl]. apply le_bind; [apply (Mmul f IH)|intros; apply (Maddl f IH)].
Qed.
Lemma m_mul_loop lhs ts : le_res (p_mul_loop (S f) lhs ts) (p_mul_loop (S (S f)) lhs ts).
Proof.
  rewrite (u_mul_loop (S f)), (u_mul_loop f). destruct ts as [|t ts]; [apply le_refl|].
  destruct (mulop_name t); [|apply le_refl]. apply le_bind; [apply (Munary f IH)|intros; apply (Mmull f IH)].
Qed.

Lemma m_unary ts : le_res (p_unary (S f) ts) (p_unary (S (S f)) ts).
Proof.
  rewrite (u_unary (S f)), (u_unary f).
  assert (P : forall P n, le_res
     (let '(k, ts1) := count_prefix P ts in
      match p_member f ts1 with POk m ts2 => POk (if Nat.odd k then ECall n None [m] else m) ts2 | r => r end)
     (let '(k, ts1) := count_prefix P ts in
      match p_member (S f) ts1 with POk m ts2 => POk (if Nat.odd k then ECall n None [m] else m) ts2 | r => r end)).
  { intros P n. destruct (count_prefix P ts) as [k ts1]. step (Mmember f IH ts1). apply le_refl. }
  destruct ts as [|t ts0]; [apply (Mmember f IH)|].
  destruct t; try apply (Mmember f IH).
  - destruct (is_number_tok ts0); [apply (Mmember f IH)|apply P].
  - apply P.
Qed.

Lemma m_postfix e ts : le_res (p_postfix (S f) e ts) (p_postfix (S (S f)) e ts).
Proof.
  rewrite (u_postfix (S f)), (u_postfix f).
  destruct ts as [|t ts]; [apply le_refl|]. destruct t; try apply le_refl.
  - assert (D : le_res match p_expr f ts with
      | POk i (TRBracket :: ts2) => p_postfix f (ECall $"_[_]" None [e; i]) ts2
      | POk _ _ => PFail | PFail => PFail | PFuel => PFuel end
      match p_expr (S f) ts with
      | POk i (TRBracket :: ts2) => p_postfix (S f) (ECall $"_[_]" None [e; i]) ts2
      | POk _ _ => PFail | PFail => PFail | PFuel => PFuel end).
    { step (Mexpr f IH ts). destruct (p_expr f ts) as [i l| |]; try apply le_refl.
      destruct l as [|t l]; [apply le_refl|]. destruct t; try apply le_refl. apply (Mpostfix f IH). }
    destruct ts as [|t ts]; [exact D|]. destruct t; try exact D. apply le_refl.
  - destruct ts as [|t ts]; [apply le_refl|]. destruct t; try apply le_refl; try apply (Mpostfix f IH).
    destruct ts as [|t ts]; [apply (Mpostfix f IH)|]. destruct t; try apply (Mpostfix f IH).
    step (Margs f IH ts). destruct (p_args f ts) as [args l| |]; try apply le_refl.
    destruct (mk_call text (Some e) args l); try apply le_refl. apply (Mpostfix f IH).
Qed.

Lemma m_args ts : le_res (p_args (S f) ts) (p_args (S (S f)) ts).
Proof.
  rewrite (u_args (S f)), (u_args f).
  destruct ts as [|t ts]; [apply (Margsr f IH)|]. destruct t; try apply (Margsr f IH). apply le_refl.
Qed.
Lemma m_args_rest acc ts : le_res (p_args_rest (S f) acc ts) (p_args_rest (S (S f)) acc ts).
Proof.
  rewrite (u_args_rest (S f)), (u_args_rest f).
  step (Mexpr f IH ts). destruct (p_expr f ts) as [a l| |]; try apply le_refl.
  destruct l as [|t l]; [apply le_refl|]. destruct t; try apply le_refl. apply (Margsr f IH).
Qed.
Lemma m_elems acc ts : le_res (p_elems (S f) acc ts) (p_elems (S (S f)) acc ts).
Proof.
  rewrite (u_elems (S f)), (u_elems f).
  assert (D : le_res match p_expr f ts with
      | POk a (TComma :: ts1) => p_elems f (a :: acc) ts1
      | POk a (TRBracket :: ts1) => POk (rev' (a :: acc)) ts1
      | POk _ _ => PFail | PFail => PFail | PFuel => PFuel end
      match p_expr (S f) ts with
      | POk a (TComma :: ts1) => p_elems (S f) (a :: acc) ts1
      | POk a (TRBracket :: ts1) => POk (rev' (a :: acc)) ts1
      | POk _ _ => PFail | PFail => PFail | PFuel => PFuel end).
  { step (Mexpr f IH ts). destruct (p_expr f ts) as [a l| |]; try apply le_refl.
    destruct l as [|t l]; [apply le_refl|]. destruct t; try apply le_refl. apply (Melems f IH). }
  destruct ts as [|t ts]; [exact D|]. destruct t; try exact D; apply le_refl.
Qed.
Lemma m_entries acc ts : le_res (p_entries (S f) acc ts) (p_entries (S (S f)) acc ts).
Proof.
  rewrite (u_entries (S f)), (u_entries f).
  assert (D : le_res match p_expr f ts with
      | POk k (TColon :: ts1) =>
          match p_expr f ts1 with
          | POk v (TComma :: ts2) => p_entries f ((k, v) :: acc) ts2
          | POk v (TRBrace :: ts2) => POk (rev' ((k, v) :: acc)) ts2
          | POk _ _ => PFail | PFail => PFail | PFuel => PFuel end
      | POk _ _ => PFail | PFail => PFail | PFuel => PFuel end
      match p_expr (S f) ts with
      | POk k (TColon :: ts1) =>
          match p_expr (S f) ts1 with
          | POk v (TComma :: ts2) => p_entries (S f) ((k, v) :: acc) ts2
          | POk v (TRBrace :: ts2) => POk (rev' ((k, v) :: acc)) ts2
          | POk _ _ => PFail | PFail => PFail | PFuel => PFuel end
      | POk _ _ => PFail | PFail => PFail | PFuel => PFuel end).
  { step (Mexpr f IH ts). destruct (p_expr f ts) as [k l| |]; try apply le_refl.
    destruct l as [|t l]; [apply le_refl|]. destruct t; try apply le_refl.
    step (Mexpr f IH l). destruct (p_expr f l) as [v l2| |]; try apply le_refl.
    destruct l2 as [|t l2]; [apply le_refl|]. destruct t; try apply le_refl. apply (Mentries f IH). }
  destruct ts as [|t ts]; [exact D|]. destruct t; try exact D; apply le_refl.
Qed.
Lemma m_fields acc ts : le_res (p_fields (S f) acc ts) (p_fields (S (S f)) acc ts).
Proof.
  rewrite (u_fields (S f)), (u_fields f).
  assert (D : forall n ts1, le_res match p_expr f ts1 with
      | POk v (TComma :: ts2) => p_fields f ((n, v) :: acc) ts2
      | POk v (TRBrace :: ts2) => POk (rev' ((n, v) :: acc)) ts2
      | POk _ _ => PFail | PFail => PFail | PFuel => PFuel end
      match p_expr (S f) ts1 with
      | POk v (TComma :: ts2) => p_fields (S f) ((n, v) :: acc) ts2
      | POk v (TRBrace :: ts2) => POk (rev' ((n, v) :: acc)) ts2
      | POk _ _ => PFail | PFail => PFail | PFuel => PFuel end).
  { intros n ts1. step (Mexpr f IH ts1). destruct (p_expr f ts1) as [v l| |]; try apply le_refl.
    destruct l as [|t l]; [apply le_refl|]. destruct t; try apply le_refl. apply (Mfields f IH). }
  destruct ts as [|t ts]; [apply le_refl|]. destruct t; try apply le_refl.
  - destruct ts as [|t ts]; [apply le_refl|]. destruct t; try apply le_refl. apply D.
  - destruct ts as [|t ts]; [apply le_refl|]. destruct t; try apply le_refl. apply D.
Qed.

Lemma m_ident_forms b ts0 : le_res (ident_forms f b ts0) (ident_forms (S f) b ts0).
Proof.
  unfold ident_forms. destruct (msg_prefix (S (length ts0)) ts0 []) as [[names r]|].
  - assert (D : le_res match p_fields f [] r with
      | POk fs ts2 => let n := join_dots names in POk (EStruct (if b then 46%N :: n else n) fs) ts2
      | PFail => PFail | PFuel => PFuel end
      match p_fields (S f) [] r with
      | POk fs ts2 => let n := join_dots names in POk (EStruct (if b then 46%N :: n else n) fs) ts2
      | PFail => PFail | PFuel => PFuel end).
    { step (Mfields f IH [] r). apply le_refl. }
    destruct r as [|t r]; [exact D|]. destruct t; try exact D.
    destruct r as [|t r]; [exact D|]. destruct t; try exact D. apply le_refl.
  - destruct ts0 as [|t ts]; [apply le_refl|]. destruct t; try apply le_refl.
    destruct ts as [|t ts]; [apply le_refl|]. destruct t; try apply le_refl.
    step (Margs f IH ts). apply le_refl.
Qed.

Lemma m_primary ts : le_res (p_primary (S f) ts) (p_primary (S (S f)) ts).
Proof.
  rewrite (u_primary (S f)), (u_primary f).
  destruct ts as [|t ts]; [apply le_refl|]. destruct t; try apply le_refl; try apply m_ident_forms.
  - assert (D : le_res match p_elems f [] ts with
      | POk es ts2 => POk (EList es) ts2 | PFail => PFail | PFuel => PFuel end
      match p_elems (S f) [] ts with
      | POk es ts2 => POk (EList es) ts2 | PFail => PFail | PFuel => PFuel end).
    { step (Melems f IH [] ts). apply le_refl. }
    destruct ts as [|t ts]; [exact D|]. destruct t; try exact D.
    destruct ts as [|t ts]; [exact D|]. destruct t; try exact D. apply le_refl.
  - assert (D : le_res match p_entries f [] ts with
      | POk es ts2 => POk (EMap es) ts2 | PFail => PFail | PFuel => PFuel end
      match p_entries (S f) [] ts with
      | POk es ts2 => POk (EMap es) ts2 | PFail => PFail | PFuel => PFuel end).
    { step (Mentries f IH [] ts). apply le_refl. }
    destruct ts as [|t ts]; [exact D|]. destruct t; try exact D.
    destruct ts as [|t ts]; [exact D|]. destruct t; try exact D. apply le_refl.
  - step (Mexpr f IH ts). apply le_refl.
Qed.
End Step.

Lemma all_mono : forall f, MIH f.
Proof.
  induction f as [|f IH].
  - constructor; intros; apply le_fuel.
  - constructor; intros.
    + now apply m_expr. + now apply m_or. + now apply m_and. + now apply m_rel. + now apply m_add.
    + now apply m_mul. + now apply m_unary. + now apply m_member. + now apply m_primary.
    + now apply m_or_loop. + now apply m_and_loop. + now apply m_rel_loop. + now apply m_add_loop.
    + now apply m_mul_loop. + now apply m_postfix. + now apply m_args. + now apply m_args_rest.
    + now apply m_elems. + now apply m_entries. + now apply m_fields.
Qed.

Lemma expr_mono f g ts : f <= g -> le_res (p_expr f ts) (p_expr g ts).
Proof.
  induction 1 as [|g Hle IHle]; [apply le_refl|].
  destruct IHle as [E|E]; [now left|]. rewrite E. apply (Mexpr g (all_mono g)).
Qed.

(** A parse established for all sufficiently large fuel is the parse [parse_tokens] finds. *)
Theorem parse_tokens_of_ev ts e : ev (fun f => p_expr f ts) (POk e []) -> parse_tokens ts = CExpr e.
Proof.
  intros [n H]. unfold parse_tokens.
  pose proof (parse_never_out_of_fuel ts) as NF. unfold parse_tokens in NF.
  destruct (expr_mono (parse_fuel ts) (Nat.max n (parse_fuel ts)) ts ltac:(lia)) as [E|E].
  - rewrite E in NF. now elim NF.
  - rewrite E, H by lia. reflexivity.
Qed.
Print Assumptions parse_tokens_of_ev.
