(** C20: function calls bind receiver and arguments predictably. *)
From Coq Require Import String.
From Cel.Model Require Import Eval.
From Cel.Proofs Require Import EvalBase MacroProofs.
From Coq Require Import Lia.

Definition positional (p : extractor) : bool :=
  match p with XArg _ | XArgOpt _ => true | _ => false end.

(** Positional extractors do not look at the receiver, and shifting the argument list by one
    shifts their indices by one. *)
Lemma extract_shift rest : forallb positional rest = true ->
  forall this this' r0 e0 rs es i acc log,
  extract rest this rs es i acc log = extract rest this' (r0 :: rs) (e0 :: es) (S i) acc log.
Proof.
  induction rest as [|p rest IH]; intros Hp this this' r0 e0 rs es i acc log; [reflexivity|].
  cbn [forallb] in Hp. apply andb_true_iff in Hp as [Hp Hrest].
  destruct p; try discriminate; cbn [extract nth_error].
  - destruct (nth_error rs i) as [[[v|c|s] l]|]; try reflexivity.
    destruct (from_value t false v); try reflexivity. now apply IH.
  - destruct (nth_error rs i) as [[[v|c|s] l]|]; try reflexivity.
    destruct (from_value t true v); try reflexivity. now apply IH.
Qed.

(** For a function whose first parameter is [This<T>] and whose other parameters are
    positional: receiver style with receiver value [v] = function style with [v] as the first
    (already evaluated, effect-free) argument. *)
Lemma extract_receiver_equiv t rest v e0 rs es log : forallb positional rest = true ->
  extract (XThis t :: rest) (Some v) rs es 0 [] log =
  extract (XThis t :: rest) None ((Ok v, []) :: rs) (e0 :: es) 0 [] log.
Proof.
  intros Hp. cbn [extract nth_error]. rewrite app_nil_r.
  destruct (from_value t false v); try reflexivity. now apply extract_shift.
Qed.

Definition plain_name (f : str) : Prop :=
  binop_of_name f = None /\ unop_of_name f = None /\ str_eqb f op_conditional = false.

Lemma dispatch_general c f rt rs args : plain_name f ->
  call_dispatch c f rt rs args = call_general c f rt rs args.
Proof.
  intros (H1 & H2 & H3). unfold call_dispatch. rewrite H1, H2, H3.
  destruct rs as [|? [|? [|? [|? ?]]]]; reflexivity.
Qed.

Theorem receiver_equiv c f d t rest x vx args :
  plain_name f -> get_function c f = Some d -> params d = XThis t :: rest ->
  forallb positional rest = true -> eval c x = (Ok vx, []) ->
  eval c (ECall f (Some x) args) = eval c (ECall f None (x :: args)).
Proof.
  intros Hf Hd Hp Hrest Hx. rewrite !eval_call. cbn [option_map map].
  rewrite !(dispatch_general _ _ _ _ _ Hf). unfold call_general. rewrite Hd, Hx.
  unfold call_fn. rewrite Hp. now rewrite (extract_receiver_equiv t rest vx x).
Qed.

(** Positional parameters receive the argument values in order, converted to their declared
    types; fewer arguments than parameters, or an argument of the wrong type, is an error and
    the function is not invoked. *)
Fixpoint bind_positional (ts : list vty) (vs : list value) : outcome (list value) :=
  match ts, vs with
  | [], _ => Ok []
  | _ :: _, [] => Err EArgCount
  | t :: ts', v :: vs' =>
      if has_vty t v then
        match bind_positional ts' vs' with
        | Ok xs => Ok (v :: xs)
        | Err c => Err c
        | Crash s => Crash s
        end
      else Err EInvalid
  end.

Definition okres (v : value) : result := (Ok v, []).

Lemma extract_positional ts : forall this vs pre es acc log,
  extract (map XArg ts) this (pre ++ map okres vs) es (length pre) acc log =
  match bind_positional ts vs with
  | Ok xs => (Ok (rev' acc ++ xs), log)
  | Err c => (Err c, log)
  | Crash s => (Crash s, log)
  end.
Proof.
  induction ts as [|t ts IH]; intros this vs pre es acc log; cbn [map extract bind_positional].
  - now rewrite app_nil_r.
  - rewrite nth_error_app2 by lia. rewrite Nat.sub_diag.
    destruct vs as [|v vs]; cbn [map nth_error]; [reflexivity|].
    unfold okres at 1. unfold from_value. destruct (has_vty t v); [|now rewrite app_nil_r].
    rewrite app_nil_r.
    specialize (IH this vs (pre ++ [okres v]) es (v :: acc) log).
    rewrite <- app_assoc in IH. cbn [app] in IH. rewrite app_length in IH. cbn [length] in IH.
    replace (length pre + 1)%nat with (S (length pre)) in IH by lia. rewrite IH.
    destruct (bind_positional ts vs); try reflexivity.
    unfold rev'. rewrite <- !rev_alt. cbn [rev]. now rewrite <- app_assoc.
Qed.

Theorem host_args_in_order name ts h vs es log0 :
  call_fn name {| params := map XArg ts; body := FHost h |} None (map okres vs) es log0 =
  match bind_positional ts vs with
  | Ok xs => (run_host h xs, log0 ++ [Called name xs])
  | Err c => (Err c, log0)
  | Crash s => (Crash s, log0)
  end.
Proof.
  unfold call_fn. cbn [params body].
  pose proof (extract_positional ts None vs [] es [] log0) as H. cbn [app length] in H. rewrite H.
  destruct (bind_positional ts vs); reflexivity.
Qed.

Lemma bind_positional_spec ts : forall vs xs, bind_positional ts vs = Ok xs ->
  xs = firstn (length ts) vs /\ (length ts <= length vs)%nat /\
  Forall2 (fun t v => has_vty t v = true) ts xs.
Proof.
  induction ts as [|t ts IH]; intros vs xs; cbn [bind_positional].
  - intros [= <-]. cbn [length firstn]. repeat split; [lia|constructor].
  - destruct vs as [|v vs]; [discriminate|]. destruct (has_vty t v) eqn:E; [|discriminate].
    destruct (bind_positional ts vs) as [ys| |] eqn:Eb; try discriminate. intros [= <-].
    destruct (IH vs ys Eb) as (H1 & H2 & H3). cbn [length firstn]. repeat split.
    + now rewrite <- H1.
    + lia.
    + constructor; assumption.
Qed.

(** A host function registered under a built-in's name replaces it. *)
Lemma override c f d : get_function (add_function c f d) f = Some d.
Proof. unfold get_function, add_function; cbn [funs str_assoc]. now rewrite str_eqb_refl. Qed.
