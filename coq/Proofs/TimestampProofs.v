(** C16: calendar arithmetic round trips (finite sweeps lifted to theorems), ordering by
    instant, timestamp +- duration. *)
From Coq Require Import String Ascii.
From Cel.Model Require Import Builtins.
From Coq Require Import Lia ZArith ZifyBool ZifyNat.
Ltac Zify.zify_post_hook ::= Z.div_mod_to_equations.
Open Scope Z_scope.

(** ** Checking a predicate on [lo, lo + 2^k) by halving *)
Fixpoint check_range (test : Z -> bool) (k : nat) (lo : Z) : bool :=
  match k with
  | O => test lo
  | S k' => check_range test k' lo && check_range test k' (lo + 2 ^ Z.of_nat k')
  end.

Lemma check_range_spec test k : forall lo, check_range test k lo = true ->
  forall n, lo <= n < lo + 2 ^ Z.of_nat k -> test n = true.
Proof.
  induction k as [|k IH]; intros lo H n Hn.
  - cbn in *. assert (n = lo) by lia. now subst.
  - cbn [check_range] in H. apply andb_true_iff in H as [H1 H2].
    rewrite Nat2Z.inj_succ, Z.pow_succ_r in Hn by lia.
    destruct (Z_lt_ge_dec n (lo + 2 ^ Z.of_nat k)).
    + apply (IH lo H1). lia.
    + apply (IH _ H2). lia.
Qed.

(** ** The calendar functions are periodic with the 400-year Gregorian cycle *)
Definition cycle : Z := 146097.

Lemma civil_period n :
  civil_from_days (n + cycle) = let '(y, m, d) := civil_from_days n in (y + 400, m, d).
Proof.
  unfold civil_from_days, cycle.
  assert (E1 : (n + 146097 + 719468) / 146097 = (n + 719468) / 146097 + 1) by lia.
  rewrite E1.
  assert (E2 : n + 146097 + 719468 - ((n + 719468) / 146097 + 1) * 146097 =
               n + 719468 - (n + 719468) / 146097 * 146097) by lia.
  rewrite E2.
  set (doe := n + 719468 - (n + 719468) / 146097 * 146097).
  set (yoe := (doe - doe / 1460 + doe / 36524 - doe / 146096) / 365).
  set (doy := doe - (365 * yoe + yoe / 4 - yoe / 100)).
  set (mp := (5 * doy + 2) / 153).
  destruct ((if mp <? 10 then mp + 3 else mp - 9) <=? 2); f_equal; f_equal; lia.
Qed.

Lemma days_period y m d : days_from_civil (y + 400) m d = days_from_civil y m d + cycle.
Proof.
  unfold days_from_civil, cycle.
  set (y' := if m <=? 2 then y - 1 else y).
  assert (E0 : (if m <=? 2 then y + 400 - 1 else y + 400) = y' + 400) by (subst y'; destruct (m <=? 2); lia).
  rewrite E0.
  assert (E1 : (y' + 400) / 400 = y' / 400 + 1) by lia. rewrite E1.
  assert (E2 : y' + 400 - (y' / 400 + 1) * 400 = y' - y' / 400 * 400) by lia. rewrite E2.
  lia.
Qed.

Lemma leap_period y : is_leap (y + 400) = is_leap y.
Proof.
  unfold is_leap.
  assert (E1 : (y + 400) mod 4 = y mod 4) by lia.
  assert (E2 : (y + 400) mod 100 = y mod 100) by lia.
  assert (E3 : (y + 400) mod 400 = y mod 400) by lia.
  now rewrite E1, E2, E3.
Qed.

Lemma valid_period y m d : valid_date (y + 400) m d = valid_date y m d.
Proof. unfold valid_date, days_in_month. now rewrite leap_period. Qed.

(** ** days -> civil -> days, for every day number *)
Definition day_ok (n : Z) : Prop :=
  let '(y, m, d) := civil_from_days n in days_from_civil y m d = n /\ valid_date y m d = true.

Definition day_test (n : Z) : bool :=
  let '(y, m, d) := civil_from_days n in
  (days_from_civil y m d =? n) && valid_date y m d.

(** one full cycle starting at 0001-01-01, checked by computation *)
Definition day_lo : Z := -719162.
Lemma day_sweep : check_range day_test 18 day_lo = true.
Proof. vm_compute. reflexivity. Qed.

Lemma day_ok_base n : day_lo <= n < day_lo + cycle -> day_ok n.
Proof.
  intros Hn. assert (Hr : day_lo <= n < day_lo + 2 ^ Z.of_nat 18) by (unfold cycle, day_lo in *; cbn; lia).
  pose proof (check_range_spec day_test 18 day_lo day_sweep n Hr) as H.
  unfold day_test, day_ok in *. destruct (civil_from_days n) as [[y m] d].
  apply andb_true_iff in H as [H1 H2]. split; [lia|exact H2].
Qed.

Lemma day_ok_shift n : day_ok n <-> day_ok (n + cycle).
Proof.
  unfold day_ok. rewrite civil_period. destruct (civil_from_days n) as [[y m] d].
  rewrite days_period, valid_period. split; intros [H1 H2]; split; auto; lia.
Qed.

Lemma day_ok_shift_k k : 0 <= k -> forall n, day_ok n <-> day_ok (n + k * cycle).
Proof.
  intros Hk. pattern k. apply natlike_ind; [| |exact Hk].
  - intros n. now replace (n + 0 * cycle) with n by lia.
  - intros x Hx IH n. replace (n + Z.succ x * cycle) with ((n + x * cycle) + cycle) by lia.
    rewrite <- day_ok_shift. apply IH.
Qed.

Theorem civil_roundtrip_days n : day_ok n.
Proof.
  set (k := (n - day_lo) / 146097). set (r := (n - day_lo) mod 146097).
  assert (Hn : n = day_lo + r + k * cycle) by (unfold k, r, cycle, day_lo; lia).
  assert (Hr : 0 <= r < 146097) by (unfold r, day_lo; lia).
  clearbody k r.
  destruct (Z_le_gt_dec 0 k) as [Hk|Hk].
  - rewrite Hn. apply (proj1 (day_ok_shift_k k Hk (day_lo + r))). apply day_ok_base. unfold cycle. lia.
  - assert (Hb : day_ok (day_lo + r)) by (apply day_ok_base; unfold cycle; lia).
    apply (proj2 (day_ok_shift_k (- k) ltac:(lia) n)).
    replace (n + - k * cycle) with (day_lo + r) by (rewrite Hn; lia). exact Hb.
Qed.

(** ** civil -> days -> civil, for every valid date of every year *)
Definition date_ok (y m d : Z) : Prop :=
  valid_date y m d = true -> civil_from_days (days_from_civil y m d) = (y, m, d).

Definition date_of_index (i : Z) : Z * Z * Z := (i / 372 + 1, (i mod 372) / 31 + 1, i mod 31 + 1).
Definition date_test (i : Z) : bool :=
  let '(y, m, d) := date_of_index i in
  if valid_date y m d then
    let '(y', m', d') := civil_from_days (days_from_civil y m d) in
    (y' =? y) && (m' =? m) && (d' =? d)
  else true.

(** years 1..400 (index 0 .. 148799), checked by computation *)
Lemma date_sweep : check_range date_test 18 0 = true.
Proof. vm_compute. reflexivity. Qed.

Lemma valid_bounds y m d : valid_date y m d = true -> 1 <= m <= 12 /\ 1 <= d <= 31.
Proof.
  unfold valid_date, days_in_month. intros Hv.
  repeat match type of Hv with context [if ?b then _ else _] => destruct b end; lia.
Qed.

Lemma date_ok_base y m d : 1 <= y <= 400 -> date_ok y m d.
Proof.
  intros Hy Hv. destruct (valid_bounds y m d Hv) as [Hm Hd].
  set (i := (y - 1) * 372 + (m - 1) * 31 + (d - 1)).
  assert (Hi : 0 <= i < 0 + 2 ^ Z.of_nat 18) by (subst i; cbn; lia).
  pose proof (check_range_spec date_test 18 0 date_sweep i Hi) as H.
  unfold date_test, date_of_index in H.
  replace (i / 372 + 1) with y in H by (subst i; lia).
  replace ((i mod 372) / 31 + 1) with m in H by (subst i; lia).
  replace (i mod 31 + 1) with d in H by (subst i; lia).
  rewrite Hv in H. destruct (civil_from_days (days_from_civil y m d)) as [[y' m'] d'].
  rewrite !andb_true_iff, !Z.eqb_eq in H. destruct H as [[-> ->] ->]. reflexivity.
Qed.

Lemma date_ok_shift y m d : date_ok y m d <-> date_ok (y + 400) m d.
Proof.
  unfold date_ok. rewrite valid_period, days_period, civil_period.
  destruct (civil_from_days (days_from_civil y m d)) as [[y' m'] d'].
  split; intros H Hv; specialize (H Hv); injection H as H1 H2 H3; subst; f_equal; f_equal; lia.
Qed.

Lemma date_ok_shift_k k : 0 <= k -> forall y m d, date_ok y m d <-> date_ok (y + k * 400) m d.
Proof.
  intros Hk. pattern k. apply natlike_ind; [| |exact Hk].
  - intros y m d. now replace (y + 0 * 400) with y by lia.
  - intros x Hx IH y m d. replace (y + Z.succ x * 400) with ((y + x * 400) + 400) by lia.
    rewrite <- date_ok_shift. apply IH.
Qed.

Theorem civil_roundtrip_date y m d : valid_date y m d = true ->
  civil_from_days (days_from_civil y m d) = (y, m, d).
Proof.
  set (k := (y - 1) / 400). set (r := (y - 1) mod 400).
  assert (Hy : y = (1 + r) + k * 400) by (unfold k, r; lia).
  assert (Hr : 0 <= r < 400) by (unfold r; lia).
  clearbody k r. fold (date_ok y m d).
  destruct (Z_le_gt_dec 0 k) as [Hk|Hk].
  - rewrite Hy. apply (proj1 (date_ok_shift_k k Hk (1 + r) m d)). apply date_ok_base. lia.
  - assert (Hb : date_ok (1 + r) m d) by (apply date_ok_base; lia).
    apply (proj2 (date_ok_shift_k (- k) ltac:(lia) y m d)).
    replace (y + - k * 400) with (1 + r) by (rewrite Hy; lia). exact Hb.
Qed.

(** ** Ordering and arithmetic *)
Lemma ts_order a o1 b o2 :
  v_cmp (VTs a o1) (VTs b o2) = Some (Z.compare a b) /\ v_eq (VTs a o1) (VTs b o2) = (a =? b).
Proof. split; reflexivity. Qed.

Lemma ts_add_sub t o d : ts_in_range t = true -> ts_in_range (t + d) = true ->
  v_add (VTs t o) (VDur d) = Ok (VTs (t + d) o) /\
  v_sub (VTs (t + d) o) (VDur d) = Ok (VTs t o) /\
  v_sub (VTs (t + d) o) (VTs t o) = Ok (VDur d).
Proof.
  intros H1 H2. cbn [v_add v_sub]. unfold chk_ts. rewrite H2.
  replace (t + d - d) with t by lia. rewrite H1. repeat split. f_equal. f_equal. lia.
Qed.

Lemma ts_add_overflow t o d : ts_in_range (t + d) = false ->
  v_add (VTs t o) (VDur d) = Err EOverflow /\ v_add (VDur d) (VTs t o) = Err EOverflow.
Proof. intros H. cbn [v_add]. unfold chk_ts. now rewrite H. Qed.

(** The calendar fields of a timestamp are those of the local time at its own offset: they
    form a valid date whose day number is the local day, and the time-of-day fields are in
    range. *)
Lemma fields_spec ns off :
  let f := local_fields ns off in
  let local := ns + off * ns_per_s in
  days_from_civil (f_year f) (f_month f) (f_day f) = local / ns_per_s / 86400 /\
  valid_date (f_year f) (f_month f) (f_day f) = true /\
  0 <= f_hour f <= 23 /\ 0 <= f_min f <= 59 /\ 0 <= f_sec f <= 59 /\ 0 <= f_nanos f < ns_per_s /\
  ((f_days f * 86400 + f_hour f * 3600 + f_min f * 60 + f_sec f) * ns_per_s + f_nanos f = local).
Proof.
  unfold local_fields, ns_per_s.
  set (local := ns + off * 1000000000). set (secs := local / 1000000000). set (days := secs / 86400).
  pose proof (civil_roundtrip_days days) as H. unfold day_ok in H.
  destruct (civil_from_days days) as [[y m] d]. cbn [f_year f_month f_day f_days f_hour f_min f_sec f_nanos].
  destruct H as [H1 H2]. split; [exact H1|split; [exact H2|]].
  unfold days, secs. repeat split; lia.
Qed.

Lemma accessor_origins ns off :
  0 <= access AMonth ns off <= 11 /\ 1 <= access ADate ns off <= 31 /\
  access ADayOfMonth ns off = access ADate ns off - 1 /\
  0 <= access ADayOfWeek ns off <= 6 /\ 0 <= access AHours ns off <= 23 /\
  0 <= access AMinutes ns off <= 59 /\ 0 <= access ASeconds ns off <= 59 /\
  0 <= access AMillis ns off <= 999.
Proof.
  pose proof (fields_spec ns off) as H. cbv zeta in H.
  destruct H as (H1 & H2 & H3 & H4 & H5 & H6 & H7).
  destruct (valid_bounds _ _ _ H2) as [Hm Hd].
  unfold access. unfold ns_per_s in *. repeat split; try lia.
Qed.
