(** C03: the operational model refines the reference semantics on well-typed terms. *)
From Coq Require Import String.
From Cel.Model Require Import Spec.
From Cel.Proofs Require Import EvalBase CtxEquiv LogicProofs MacroProofs CompareProofs NoCrash CallProofs.
From Coq Require Import Lia ZArith.

(** ** Induction principle for surface terms *)
Section TexprInd.
  Variable P : texpr -> Prop.
  Hypothesis Hlit : forall v, P (TLit v).
  Hypothesis Hvar : forall x, P (TVar x).
  Hypothesis Hun : forall o a, P a -> P (TUn o a).
  Hypothesis Hbin : forall o a b, P a -> P b -> P (TBin o a b).
  Hypothesis Hand : forall a b, P a -> P b -> P (TAnd a b).
  Hypothesis Hor : forall a b, P a -> P b -> P (TOr a b).
  Hypothesis Hcond : forall c a b, P c -> P a -> P b -> P (TCond c a b).
  Hypothesis Hlist : forall es, Forall P es -> P (TList es).
  Hypothesis Hmap : forall es, Forall (fun kv => P (fst kv) /\ P (snd kv)) es -> P (TMap es).
  Hypothesis Hsel : forall a f, P a -> P (TSelect a f).
  Hypothesis Hhas : forall a f, P a -> P (THas a f).
  Hypothesis Hcall : forall f recv args, Forall P args -> P (TCall f recv args).
  Hypothesis Hall : forall x r b, P r -> P b -> P (TAll x r b).
  Hypothesis Hexists : forall x r b, P r -> P b -> P (TExists x r b).
  Hypothesis Hone : forall x r b, P r -> P b -> P (TExistsOne x r b).
  Hypothesis Hmapm : forall x r flt b, P r -> (forall p, flt = Some p -> P p) -> P b -> P (TMapM x r flt b).
  Hypothesis Hfilter : forall x r b, P r -> P b -> P (TFilter x r b).

  Fixpoint texpr_ind' (t : texpr) : P t :=
    let many := (fix go (l : list texpr) : Forall P l :=
                   match l with
                   | [] => Forall_nil _
                   | a :: l' => Forall_cons _ (texpr_ind' a) (go l')
                   end) in
    match t with
    | TLit v => Hlit v
    | TVar x => Hvar x
    | TUn o a => Hun o a (texpr_ind' a)
    | TBin o a b => Hbin o a b (texpr_ind' a) (texpr_ind' b)
    | TAnd a b => Hand a b (texpr_ind' a) (texpr_ind' b)
    | TOr a b => Hor a b (texpr_ind' a) (texpr_ind' b)
    | TCond c a b => Hcond c a b (texpr_ind' c) (texpr_ind' a) (texpr_ind' b)
    | TList es => Hlist es (many es)
    | TMap es =>
        Hmap es ((fix go (l : list (texpr * texpr)) : Forall (fun kv => P (fst kv) /\ P (snd kv)) l :=
                    match l with
                    | [] => Forall_nil _
                    | (k, v) :: l' => Forall_cons (k, v) (conj (texpr_ind' k) (texpr_ind' v)) (go l')
                    end) es)
    | TSelect a f => Hsel a f (texpr_ind' a)
    | THas a f => Hhas a f (texpr_ind' a)
    | TCall f recv args => Hcall f recv args (many args)
    | TAll x r b => Hall x r b (texpr_ind' r) (texpr_ind' b)
    | TExists x r b => Hexists x r b (texpr_ind' r) (texpr_ind' b)
    | TExistsOne x r b => Hone x r b (texpr_ind' r) (texpr_ind' b)
    | TMapM x r flt b =>
        Hmapm x r flt b (texpr_ind' r)
              (match flt as f0 return forall p, f0 = Some p -> P p with
               | Some q => fun p H => match H in _ = z return match z with Some w => P w | None => True end
                                      with eq_refl => texpr_ind' q end
               | None => fun p H => match H in _ = z return match z with Some w => P w | None => True end
                                    with eq_refl => I end
               end)
              (texpr_ind' b)
    | TFilter x r b => Hfilter x r b (texpr_ind' r) (texpr_ind' b)
    end.
End TexprInd.

(** ** Named forms of the nested loops of [sem], [lower], [type_of] *)
Section WithEnv.
  Variable ρ : env.
  Fixpoint sem_list (l : list texpr) : outcome (list value) :=
    match l with
    | [] => Ok []
    | e :: l' => let! v := sem ρ e in let! vs := sem_list l' in Ok (v :: vs)
    end.
  Fixpoint sem_entries (l : list (texpr * texpr)) (m : list (key * value)) : outcome value :=
    match l with
    | [] => Ok (VMap m)
    | (ke, ve) :: l' =>
        let! kv := sem ρ ke in
        match key_of_value kv with
        | None => Err EInvalid
        | Some k => let! v := sem ρ ve in sem_entries l' (assoc_set k v m)
        end
    end.
End WithEnv.
Section WithTenv.
  Variable G : tenv.
  Fixpoint types_of (l : list texpr) : option (list ty) :=
    match l with
    | [] => Some []
    | e :: l' => match type_of G e, types_of l' with
                 | Some a, Some r => Some (a :: r)
                 | _, _ => None
                 end
    end.
  Fixpoint entries_ty (l : list (texpr * texpr)) : option ty :=
    match l with
    | [] => Some (TyM TyAny TyAny)
    | (ke, ve) :: l' =>
        match type_of G ke, type_of G ve with
        | Some _, Some _ => entries_ty l'
        | _, _ => None
        end
    end.
End WithTenv.

Lemma sem_tlist ρ es : sem ρ (TList es) = let! vs := sem_list ρ es in Ok (VList vs).
Proof. reflexivity. Qed.
Lemma sem_tmap ρ es : sem ρ (TMap es) = sem_entries ρ es [].
Proof. reflexivity. Qed.
Lemma sem_tcall ρ f recv args : sem ρ (TCall f recv args) = let! vs := sem_list ρ args in apply_fn f vs.
Proof. reflexivity. Qed.
Lemma type_tlist G es :
  type_of G (TList es) = match types_of G es with
                         | Some [] => Some (TyL TyAny)
                         | Some (a :: r) => Some (TyL (fold_left join r a))
                         | None => None
                         end.
Proof. reflexivity. Qed.
Lemma type_tmap G es : type_of G (TMap es) = entries_ty G es.
Proof. reflexivity. Qed.
Lemma type_tcall G f recv args :
  type_of G (TCall f recv args) =
  match types_of G args with
  | Some ts => if recv then (if recv_ok f then match ts with [] => None | _ => fn_ty f ts end else None)
               else fn_ty f ts
  | None => None
  end.
Proof. reflexivity. Qed.

(** ** Small facts *)
Lemma obind_ok {A B} (o : outcome A) (f : A -> outcome B) b :
  obind o f = Ok b -> exists a, o = Ok a /\ f a = Ok b.
Proof. destruct o; cbn; [eauto|discriminate|discriminate]. Qed.

Lemma as_bool_ok v b : as_bool v = Ok b -> v = VBool b.
Proof. destruct v; cbn; try discriminate. now intros [= ->]. Qed.

Lemma ty_eqb_eq a : forall b, ty_eqb a b = true -> a = b.
Proof.
  induction a; intros [] H; cbn in H; try discriminate; try reflexivity.
  - f_equal. now apply IHa.
  - apply andb_prop in H as [H1 H2]. f_equal; [now apply IHa1|now apply IHa2].
Qed.

Lemma vtyped_any v : vtyped v TyAny.
Proof. exact I. Qed.

Lemma vtyped_join_l v a b : vtyped v a -> vtyped v (join a b).
Proof. unfold join. destruct (ty_eqb a b); [auto|intros; exact I]. Qed.
Lemma vtyped_join_r v a b : vtyped v b -> vtyped v (join a b).
Proof. unfold join. destruct (ty_eqb a b) eqn:E; [apply ty_eqb_eq in E; now subst|intros; exact I]. Qed.

Lemma join_any_l b : join TyAny b = TyAny.
Proof. unfold join. now destruct (ty_eqb TyAny b). Qed.

Lemma fold_join_any r : fold_left join r TyAny = TyAny.
Proof. induction r as [|x r IH]; cbn [fold_left]; [reflexivity|]. now rewrite join_any_l. Qed.

Lemma vtyped_fold_join v r : forall a t, In t (a :: r) -> vtyped v t -> vtyped v (fold_left join r a).
Proof.
  induction r as [|x r IH]; intros a t Hin Hv; cbn [fold_left].
  - destruct Hin as [->|[]]. exact Hv.
  - unfold join at 2. destruct (ty_eqb a x) eqn:E.
    + apply ty_eqb_eq in E. subst x. apply (IH a t); [|exact Hv].
      destruct Hin as [->|[->|Hin]]; [now left|now left|now right].
    + rewrite fold_join_any. exact I.
Qed.

(** ** Type preservation of the reference semantics *)
Definition is_rel (o : binop) : bool :=
  match o with BEq | BNe | BLt | BLe | BGt | BGe | BIn => true | _ => false end.
Definition is_arith (o : binop) : bool :=
  match o with BAdd | BSub | BMul | BDiv | BRem => true | _ => false end.

Lemma rel_bool o x y v : is_rel o = true -> strict_binop o x y = Ok v -> exists b, v = VBool b.
Proof.
  destruct o; try discriminate; intros _; cbn [strict_binop];
    try (intros [= <-]; eauto);
    try (unfold v_lt, v_le, v_gt, v_ge; destruct (v_cmp x y); [intros [= <-]; eauto|discriminate]).
  unfold v_in. destruct x, y; try discriminate; try (intros [= <-]; eauto);
    try (destruct (key_of_value _); intros [= <-]; eauto).
Qed.

Lemma Forall_vtyped_join_l l a b : Forall (fun x => vtyped x a) l -> Forall (fun x => vtyped x (join a b)) l.
Proof. apply Forall_impl. intros x. apply vtyped_join_l. Qed.
Lemma Forall_vtyped_join_r l a b : Forall (fun x => vtyped x b) l -> Forall (fun x => vtyped x (join a b)) l.
Proof. apply Forall_impl. intros x. apply vtyped_join_r. Qed.

Lemma arith_preserved o ta tb t x y v : is_arith o = true -> arith_ty o ta tb = Some t ->
  vtyped x ta -> vtyped y tb -> strict_binop o x y = Ok v -> vtyped v t.
Proof.
  intros Ho Ht Hx Hy Hv.
  destruct ta, tb; cbn [arith_ty] in Ht; try discriminate;
    try (injection Ht as <-; exact I);
    try (destruct o; try discriminate; injection Ht as <-; exact I).
  - (* strings *)
    destruct o; try discriminate. injection Ht as <-.
    destruct Hx as [sx ->], Hy as [sy ->]. cbn in Hv. injection Hv as <-. cbn. eauto.
  - (* lists *)
    destruct o; try discriminate. injection Ht as <-.
    destruct Hx as (lx & -> & Fx), Hy as (ly & -> & Fy). cbn in Hv. injection Hv as <-.
    cbn [vtyped]. exists (lx ++ ly). split; [reflexivity|]. apply Forall_app. split.
    + now apply Forall_vtyped_join_l.
    + now apply Forall_vtyped_join_r.
Qed.

Lemma range_items_typed rv tr te items : vtyped rv tr -> elem_ty tr = Some te ->
  range_items rv = Some items -> Forall (fun it => vtyped it te) items.
Proof.
  destruct tr; cbn [elem_ty]; try discriminate; intros Hv [= <-] Hr.
  - destruct Hv as (l & -> & Hl). cbn in Hr. now injection Hr as <-.
  - destruct Hv as (m & -> & Hm). cbn in Hr. injection Hr as <-. rewrite Forall_map. exact Hm.
  - rewrite Forall_forall. intros; exact I.
Qed.

Lemma env_ok_cons G ρ x te it : env_ok G ρ -> vtyped it te -> env_ok ((x, te) :: G) ((x, it) :: ρ).
Proof.
  intros He Hv y t. unfold tlookup, elookup. cbn [str_assoc]. destruct (str_eqb y x).
  - intros [= <-] v [= <-]. exact Hv.
  - intros Ht v Hl. exact (He y t Ht v Hl).
Qed.

Lemma sem_all_bool body items v : sem_all body items = Ok v -> exists b, v = VBool b.
Proof.
  induction items as [|it rest IH]; cbn [sem_all]; [intros [= <-]; eauto|]. intros H.
  apply obind_ok in H as (w & _ & H). apply obind_ok in H as (b & _ & H).
  destruct b; [now apply IH|injection H as <-; eauto].
Qed.
Lemma sem_exists_bool body items v : sem_exists body items = Ok v -> exists b, v = VBool b.
Proof.
  induction items as [|it rest IH]; cbn [sem_exists]; [intros [= <-]; eauto|]. intros H.
  apply obind_ok in H as (w & _ & H). apply obind_ok in H as (b & _ & H).
  destruct b; [injection H as <-; eauto|now apply IH].
Qed.

Lemma sem_map_typed flt body items te : forall ys,
  (forall it y, In it items -> body it = Ok y -> vtyped y te) ->
  sem_map flt body items = Ok ys -> Forall (fun y => vtyped y te) ys.
Proof.
  induction items as [|it rest IH]; cbn [sem_map]; intros ys Hb H; [injection H as <-; constructor|].
  apply obind_ok in H as (keep & _ & H). destruct keep.
  - apply obind_ok in H as (y & Hy & H). apply obind_ok in H as (ys' & Hys & [= <-]). constructor.
    + apply (Hb it y); [now left|exact Hy].
    + apply IH; [|exact Hys]. intros it' y' Hin. apply Hb. now right.
  - apply IH; [|exact H]. intros it' y' Hin. apply Hb. now right.
Qed.

Lemma b_contains_bool v a r : b_contains v a = Ok r -> exists b, r = VBool b.
Proof.
  unfold b_contains, ferr. destruct v; try (intros [= <-]; eauto).
  - destruct (key_of_value a); [intros [= <-]; eauto|discriminate].
  - destruct a; intros [= <-]; eauto.
  - destruct a; intros [= <-]; eauto.
Qed.
Lemma b_string_str v r : b_string v = Ok r -> exists s, r = VStr s.
Proof.
  unfold b_string, ferr. destruct v; try discriminate; try (intros [= <-]; eauto).
  destruct (utf8_dec b); [intros [= <-]; eauto|discriminate].
Qed.

Lemma fn_preserved f ts t vs r : fn_ty f ts = Some t -> apply_fn f vs = Ok r -> vtyped r t.
Proof.
  intros Ht Hr. destruct f; cbn [fn_ty] in Ht.
  - destruct ts as [|? [|? ?]]; try discriminate. injection Ht as <-. exact I.
  - destruct ts as [|? [|? [|? ?]]]; try discriminate. injection Ht as <-.
    destruct vs as [|v [|a [|? ?]]]; try discriminate. cbn in Hr. now apply b_contains_bool in Hr.
  - destruct ts as [|[] [|[] [|? ?]]]; try discriminate. injection Ht as <-.
    destruct vs as [|[] [|[] [|? ?]]]; try discriminate. cbn in Hr. injection Hr as <-. cbn. eauto.
  - destruct ts as [|[] [|[] [|? ?]]]; try discriminate. injection Ht as <-.
    destruct vs as [|[] [|[] [|? ?]]]; try discriminate. cbn in Hr. injection Hr as <-. cbn. eauto.
  - destruct ts as [|? [|? ?]]; try discriminate. injection Ht as <-.
    destruct vs as [|v [|? ?]]; try discriminate. cbn in Hr. now apply b_string_str in Hr.
  - destruct ts as [|[] [|? ?]]; try discriminate. injection Ht as <-. exact I.
  - destruct ts as [|? [|? ?]]; try discriminate. injection Ht as <-. exact I.
  - destruct ts as [|? [|? ?]]; try discriminate. injection Ht as <-. exact I.
  - destruct ts as [|? [|? ?]]; try discriminate. injection Ht as <-. exact I.
  - injection Ht as <-. exact I.
  - injection Ht as <-. exact I.
Qed.

Definition preserves (t : texpr) : Prop :=
  forall G τ ρ v, type_of G t = Some τ -> env_ok G ρ -> sem ρ t = Ok v -> vtyped v τ.

Lemma sem_list_typed G ρ es : Forall preserves es -> env_ok G ρ -> forall ts vs,
  types_of G es = Some ts -> sem_list ρ es = Ok vs -> Forall2 vtyped vs ts.
Proof.
  induction 1 as [|e es He _ IH]; intros Hρ ts vs; cbn [types_of sem_list].
  - intros [= <-] [= <-]. constructor.
  - destruct (type_of G e) as [te|] eqn:Ete; [|discriminate].
    destruct (types_of G es) as [tr|] eqn:Etr; [|discriminate]. intros [= <-] H.
    apply obind_ok in H as (v & Hv & H). apply obind_ok in H as (vs' & Hvs & [= <-]).
    constructor; [exact (He G te ρ v Ete Hρ Hv)|now apply IH].
Qed.

Lemma Forall2_vtyped_fold vs : forall a r, Forall2 vtyped vs (a :: r) ->
  Forall (fun x => vtyped x (fold_left join r a)) vs.
Proof.
  intros a r F2.
  assert (G : forall ts, Forall2 vtyped vs ts -> (forall t, In t ts -> In t (a :: r)) ->
                         Forall (fun x => vtyped x (fold_left join r a)) vs).
  { clear F2. induction vs as [|v vs IH]; intros ts F2 Hsub; [constructor|].
    inversion F2 as [|? t ? ts' Hv F2']; subst. constructor.
    - apply (vtyped_fold_join v r a t); [apply Hsub; now left|exact Hv].
    - apply (IH ts' F2'). intros t' Hin. apply Hsub. now right. }
  apply (G (a :: r) F2). auto.
Qed.

Lemma sem_entries_map ρ es : forall m v, sem_entries ρ es m = Ok v -> exists m', v = VMap m'.
Proof.
  induction es as [|[ke ve] es IH]; intros m v; cbn [sem_entries]; [intros [= <-]; eauto|].
  intros H. apply obind_ok in H as (kv & _ & H). destruct (key_of_value kv); [|discriminate].
  apply obind_ok in H as (x & _ & H). now apply IH in H.
Qed.

Lemma entries_ty_shape G es t : entries_ty G es = Some t -> t = TyM TyAny TyAny.
Proof.
  induction es as [|[ke ve] es IH]; cbn [entries_ty]; [now intros [= <-]|].
  destruct (type_of G ke); [|discriminate]. destruct (type_of G ve); [|discriminate]. exact IH.
Qed.

Theorem sem_preserves t : preserves t.
Proof.
  induction t using texpr_ind'; unfold preserves in *; intros G τ ρ w Ht Hρ Hs.
  - (* literal *) cbn in Ht, Hs. injection Hs as <-. destruct v; try discriminate; injection Ht as <-; cbn; eauto.
  - (* variable *) cbn in Ht, Hs. destruct (var_ok x); [|discriminate]. exact (Hρ x τ Ht w Hs).
  - (* unary *) cbn [sem] in Hs. apply obind_ok in Hs as (v & Hv & Hs).
    destruct o; cbn [type_of] in Ht; try discriminate.
    + destruct (type_of G t) as [[]|]; try discriminate. injection Ht as <-.
      cbn in Hs. injection Hs as <-. cbn. eauto.
    + destruct (type_of G t) as [[]|]; try discriminate; injection Ht as <-; exact I.
  - (* strict binary *) cbn [sem] in Hs. apply obind_ok in Hs as (x & Hx & Hs). apply obind_ok in Hs as (y & Hy & Hs).
    cbn [type_of] in Ht. destruct (type_of G t1) as [ta|] eqn:Ea; [|discriminate].
    destruct (type_of G t2) as [tb|] eqn:Eb; [|discriminate].
    destruct o; try discriminate; cbv iota beta in Ht.
    all: try (injection Ht as <-; eapply rel_bool; [|exact Hs]; reflexivity).
    all: try (eapply arith_preserved; [|exact Ht| | |exact Hs]; [reflexivity|eapply IHt1; eauto|eapply IHt2; eauto]).
    injection Ht as <-. exact I.
  - (* && *) cbn [type_of] in Ht. destruct (type_of G t1) as [[]|]; try discriminate.
    destruct (type_of G t2) as [[]|]; try discriminate. injection Ht as <-.
    cbn [sem] in Hs. apply obind_ok in Hs as (x & _ & Hs). apply obind_ok in Hs as (p & _ & Hs).
    destruct p; [|injection Hs as <-; cbn; eauto].
    apply obind_ok in Hs as (y & _ & Hs). apply obind_ok in Hs as (q & _ & [= <-]). cbn. eauto.
  - (* || *) cbn [type_of] in Ht. destruct (type_of G t1) as [[]|]; try discriminate.
    destruct (type_of G t2) as [[]|]; try discriminate. injection Ht as <-.
    cbn [sem] in Hs. apply obind_ok in Hs as (x & _ & Hs). apply obind_ok in Hs as (p & _ & Hs).
    destruct p; [injection Hs as <-; cbn; eauto|].
    apply obind_ok in Hs as (y & _ & Hs). apply obind_ok in Hs as (q & _ & [= <-]). cbn. eauto.
  - (* ?: *) cbn [type_of] in Ht. destruct (type_of G t1) as [[]|]; try discriminate.
    destruct (type_of G t2) as [ta|] eqn:Ea; [|discriminate].
    destruct (type_of G t3) as [tb|] eqn:Eb; [|discriminate]. injection Ht as <-.
    cbn [sem] in Hs. apply obind_ok in Hs as (x & _ & Hs). apply obind_ok in Hs as (p & _ & Hs).
    destruct p; [apply vtyped_join_l; eauto|apply vtyped_join_r; eauto].
  - (* list *) rewrite type_tlist in Ht. rewrite sem_tlist in Hs.
    apply obind_ok in Hs as (vs & Hvs & [= <-]).
    destruct (types_of G es) as [ts|] eqn:Ets; [|discriminate].
    pose proof (sem_list_typed G ρ es H Hρ ts vs Ets Hvs) as F2.
    destruct ts as [|a r]; injection Ht as <-; cbn [vtyped]; exists vs; (split; [reflexivity|]).
    + rewrite Forall_forall. intros; exact I.
    + now apply Forall2_vtyped_fold.
  - (* map literal *) rewrite type_tmap in Ht. rewrite sem_tmap in Hs.
    apply entries_ty_shape in Ht. subst τ. apply sem_entries_map in Hs as [m' ->].
    cbn [vtyped]. exists m'. split; [reflexivity|]. rewrite Forall_forall. intros; exact I.
  - (* select *) cbn [type_of] in Ht. destruct (type_of G t) as [[]|]; try discriminate;
      destruct (has_function default_ctx f); try discriminate; injection Ht as <-; exact I.
  - (* has *) cbn [sem] in Hs. apply obind_ok in Hs as (v & _ & [= <-]).
    cbn [type_of] in Ht. destruct (type_of G t) as [[]|]; try discriminate; injection Ht as <-; cbn; eauto.
  - (* call *) rewrite type_tcall in Ht. rewrite sem_tcall in Hs. apply obind_ok in Hs as (vs & _ & Hs).
    destruct (types_of G args) as [ts|]; [|discriminate].
    destruct recv.
    + destruct (recv_ok f); [|discriminate]. destruct ts; [discriminate|]. exact (fn_preserved f _ τ vs w Ht Hs).
    + exact (fn_preserved f _ τ vs w Ht Hs).
  - (* all *) cbn [type_of] in Ht. destruct (type_of G t1) as [tr|]; [|discriminate].
    destruct (elem_ty tr); [|discriminate]. destruct (var_ok x); [|discriminate].
    destruct (type_of _ t2) as [[]|]; try discriminate. injection Ht as <-.
    cbn [sem] in Hs. apply obind_ok in Hs as (rv & _ & Hs). destruct (range_items rv); [|discriminate].
    now apply sem_all_bool in Hs.
  - (* exists *) cbn [type_of] in Ht. destruct (type_of G t1) as [tr|]; [|discriminate].
    destruct (elem_ty tr); [|discriminate]. destruct (var_ok x); [|discriminate].
    destruct (type_of _ t2) as [[]|]; try discriminate. injection Ht as <-.
    cbn [sem] in Hs. apply obind_ok in Hs as (rv & _ & Hs). destruct (range_items rv); [|discriminate].
    now apply sem_exists_bool in Hs.
  - (* exists_one *) cbn [type_of] in Ht. destruct (type_of G t1) as [tr|]; [|discriminate].
    destruct (elem_ty tr); [|discriminate]. destruct (var_ok x); [|discriminate].
    destruct (type_of _ t2) as [[]|]; try discriminate. injection Ht as <-.
    cbn [sem] in Hs. apply obind_ok in Hs as (rv & _ & Hs). destruct (range_items rv); [|discriminate].
    apply obind_ok in Hs as (n & _ & [= <-]). cbn. eauto.
  - (* map *) cbn [type_of] in Ht. destruct (type_of G t1) as [tr|] eqn:Er; [|discriminate].
    destruct (elem_ty tr) as [te|] eqn:Ee; [|discriminate]. destruct (var_ok x); [|discriminate].
    destruct (match flt with Some p => _ | None => true end); [|discriminate].
    destruct (type_of ((x, te) :: G) t2) as [tb|] eqn:Eb; [|discriminate]. injection Ht as <-.
    cbn [sem] in Hs. apply obind_ok in Hs as (rv & Hrv & Hs).
    destruct (range_items rv) as [items|] eqn:Eit; [|discriminate].
    apply obind_ok in Hs as (ys & Hys & [= <-]).
    pose proof (range_items_typed rv tr te items (IHt1 _ _ _ _ Er Hρ Hrv) Ee Eit) as Fit.
    cbn [vtyped]. exists ys. split; [reflexivity|].
    eapply sem_map_typed; [|exact Hys].
    intros it y Hin Hy. rewrite Forall_forall in Fit.
    apply (IHt2 ((x, te) :: G) tb ((x, it) :: ρ) y Eb); [|exact Hy]. apply env_ok_cons; auto.
  - (* filter *) cbn [type_of] in Ht. destruct (type_of G t1) as [tr|] eqn:Er; [|discriminate].
    destruct (elem_ty tr) as [te|] eqn:Ee; [|discriminate]. destruct (var_ok x); [|discriminate].
    destruct (type_of _ t2) as [[]|]; try discriminate. injection Ht as <-.
    cbn [sem] in Hs. apply obind_ok in Hs as (rv & Hrv & Hs).
    destruct (range_items rv) as [items|] eqn:Eit; [|discriminate].
    apply obind_ok in Hs as (ys & Hys & [= <-]).
    pose proof (range_items_typed rv tr te items (IHt1 _ _ _ _ Er Hρ Hrv) Ee Eit) as Fit.
    cbn [vtyped]. exists ys. split; [reflexivity|].
    eapply sem_map_typed; [|exact Hys].
    intros it y Hin [= <-]. rewrite Forall_forall in Fit. auto.
Qed.
(** ** The operational model refines the reference semantics *)
Definition rel (c : ctx) (ρ : env) : Prop := forall x, var_ok x = true -> lookup c x = elookup ρ x.
Definition std (c : ctx) : Prop := funs c = default_funs.

Lemma rbind_ret o k :
  rbind (ret o) k = match o with Ok v => k v | Err e => ret (Err e) | Crash s => ret (Crash s) end.
Proof. destruct o; [apply rbind_nil|reflexivity|reflexivity]. Qed.

Lemma unop_name_ok o : unop_of_name (unop_name o) = Some o.
Proof. destruct o; reflexivity. Qed.
Lemma binop_name_ok o : binop_of_name (binop_name o) = Some o.
Proof. destruct o; reflexivity. Qed.

Lemma eval_unop c o e r : eval c e = ret r ->
  eval c (call (unop_name o) [e]) = ret (let! v := r in v_unop o v).
Proof.
  intros H. unfold call. rewrite eval_call. cbn [map option_map call_dispatch].
  rewrite unop_name_ok, H, rbind_ret. now destruct r.
Qed.

Lemma eval_strict c o e1 e2 r1 r2 : o <> BOr -> o <> BAnd -> eval c e1 = ret r1 -> eval c e2 = ret r2 ->
  eval c (call (binop_name o) [e1; e2]) = ret (let! x := r1 in let! y := r2 in strict_binop o x y).
Proof.
  intros H1 H2 E1 E2. unfold call. rewrite eval_call. cbn [map option_map call_dispatch].
  rewrite binop_name_ok, E1, E2.
  destruct o; try contradiction; rewrite rbind_ret; destruct r1; try reflexivity;
    rewrite rbind_ret; destruct r2; reflexivity.
Qed.

Lemma eval_tand c e1 e2 r1 r2 : eval c e1 = ret r1 -> eval c e2 = ret r2 ->
  (forall v, r1 = Ok v -> exists b, v = VBool b) -> (forall v, r2 = Ok v -> exists b, v = VBool b) ->
  eval c (call $"_&&_" [e1; e2]) =
  ret (let! x := r1 in let! p := as_bool x in
       if p then (let! y := r2 in let! q := as_bool y in Ok (VBool q)) else Ok (VBool false)).
Proof.
  intros E1 E2 B1 B2. change (call $"_&&_" [e1; e2]) with (e_and e1 e2). rewrite eval_and, E1, E2, rbind_ret.
  destruct r1 as [v| |]; try reflexivity. destruct (B1 v eq_refl) as [b ->]. cbn [to_bool as_bool obind].
  destruct b; [|reflexivity]. rewrite rbind_ret. destruct r2 as [w| |]; try reflexivity.
  destruct (B2 w eq_refl) as [q ->]. reflexivity.
Qed.

Lemma eval_tor c e1 e2 r1 r2 : eval c e1 = ret r1 -> eval c e2 = ret r2 ->
  (forall v, r1 = Ok v -> exists b, v = VBool b) -> (forall v, r2 = Ok v -> exists b, v = VBool b) ->
  eval c (call $"_||_" [e1; e2]) =
  ret (let! x := r1 in let! p := as_bool x in
       if p then Ok (VBool true) else (let! y := r2 in let! q := as_bool y in Ok (VBool q))).
Proof.
  intros E1 E2 B1 B2. change (call $"_||_" [e1; e2]) with (e_or e1 e2). rewrite eval_or, E1, E2, rbind_ret.
  destruct r1 as [v| |]; try reflexivity. destruct (B1 v eq_refl) as [b ->]. cbn [to_bool as_bool obind].
  destruct b; [reflexivity|]. destruct r2 as [w| |]; try reflexivity.
  destruct (B2 w eq_refl) as [q ->]. reflexivity.
Qed.

Lemma eval_tcond c e0 e1 e2 r0 r1 r2 : eval c e0 = ret r0 -> eval c e1 = ret r1 -> eval c e2 = ret r2 ->
  (forall v, r0 = Ok v -> exists b, v = VBool b) ->
  eval c (call op_conditional [e0; e1; e2]) =
  ret (let! x := r0 in let! p := as_bool x in if p then r1 else r2).
Proof.
  intros E0 E1 E2 B0. change (call op_conditional [e0; e1; e2]) with (e_cond e0 e1 e2).
  rewrite eval_cond, E0, E1, E2, rbind_ret.
  destruct r0 as [v| |]; try reflexivity. destruct (B0 v eq_refl) as [b ->]. cbn [to_bool as_bool obind].
  now destruct b.
Qed.

Lemma rev'_rev {A} (l : list A) : rev' l = rev l.
Proof. unfold rev'. now rewrite <- rev_alt. Qed.

(** sequences of pure results *)
Fixpoint seq_o (os : list (outcome value)) : outcome (list value) :=
  match os with
  | [] => Ok []
  | o :: os' => let! v := o in let! vs := seq_o os' in Ok (v :: vs)
  end.

Lemma sem_list_seq ρ es : sem_list ρ es = seq_o (map (sem ρ) es).
Proof. induction es as [|e es IH]; cbn [sem_list map seq_o]; [reflexivity|]. now rewrite IH. Qed.

Lemma list_go_pure ev (f : expr -> outcome value) l : Forall (fun e => ev e = ret (f e)) l -> forall acc,
  list_go ev l acc [] = ret (let! vs := seq_o (map f l) in Ok (VList (rev acc ++ vs))).
Proof.
  induction 1 as [|e l He _ IH]; intros acc; cbn [list_go map seq_o obind].
  - now rewrite rev'_rev, app_nil_r.
  - rewrite He. unfold ret at 1. destruct (f e) as [v| |]; cbn [obind]; try reflexivity.
    rewrite app_nil_r, IH. cbn [rev]. destruct (seq_o (map f l)); cbn [obind]; try reflexivity.
    now rewrite <- app_assoc.
Qed.

Lemma map_go_pure ev (f : expr -> outcome value) l :
  Forall (fun kv => ev (fst kv) = ret (f (fst kv)) /\ ev (snd kv) = ret (f (snd kv))) l -> forall m,
  map_go ev l m [] =
  ret ((fix go (l : list (expr * expr)) (m : list (key * value)) : outcome value :=
          match l with
          | [] => Ok (VMap m)
          | (ke, ve) :: l' =>
              let! kv := f ke in
              match key_of_value kv with
              | None => Err EInvalid
              | Some k => let! v := f ve in go l' (assoc_set k v m)
              end
          end) l m).
Proof.
  induction 1 as [|[ke ve] l [Hk Hv] _ IH]; intros m; cbn [map_go]; [reflexivity|].
  cbn [fst snd] in Hk, Hv. rewrite Hk. unfold ret at 1. destruct (f ke) as [kv| |]; cbn [obind]; try reflexivity.
  destruct (key_of_value kv); [|reflexivity]. rewrite Hv. unfold ret at 1.
  destruct (f ve) as [v| |]; cbn [obind]; try reflexivity. rewrite !app_nil_r. apply IH.
Qed.

(** ** Calls of the standard functions *)
Lemma std_get c f : std c -> get_function c f = str_assoc f default_funs.
Proof. unfold std, get_function. now intros ->. Qed.

Lemma plain_fn f : plain_name (fn_name f).
Proof. destruct f; repeat split; reflexivity. Qed.

Definition arity1 (f : sfn) : bool :=
  match f with SSize | SString | SBytes | SDouble | SInt | SUint => true | _ => false end.

Lemma call1_fn c f e r : std c -> arity1 f = true -> eval c e = ret r ->
  eval c (ECall (fn_name f) None [e]) = ret (let! v := r in apply_fn f [v]).
Proof.
  intros Hs Hf He. rewrite eval_call. cbn [map option_map]. rewrite He.
  rewrite (dispatch_general _ _ _ _ _ (plain_fn f)). unfold call_general. rewrite (std_get _ _ Hs).
  destruct f; try discriminate; destruct r as [v| |]; try reflexivity.
  destruct v; reflexivity.
Qed.

Lemma call1_recv c f e r : std c -> arity1 f = true -> recv_ok f = true -> eval c e = ret r ->
  eval c (ECall (fn_name f) (Some e) []) = ret (let! v := r in apply_fn f [v]).
Proof.
  intros Hs Hf Hr He. rewrite eval_call. cbn [map option_map]. rewrite He.
  rewrite (dispatch_general _ _ _ _ _ (plain_fn f)). unfold call_general. rewrite (std_get _ _ Hs).
  destruct f; try discriminate; destruct r as [v| |]; reflexivity.
Qed.

Definition arity2 (f : sfn) : bool :=
  match f with SContains | SStartsWith | SEndsWith => true | _ => false end.
Definition needs_str (f : sfn) : bool :=
  match f with SStartsWith | SEndsWith => true | _ => false end.

Lemma call2_fn c f e1 e2 r1 r2 : std c -> arity2 f = true -> eval c e1 = ret r1 -> eval c e2 = ret r2 ->
  (needs_str f = true -> forall v, r1 = Ok v -> exists s, v = VStr s) ->
  eval c (ECall (fn_name f) None [e1; e2]) = ret (let! v1 := r1 in let! v2 := r2 in apply_fn f [v1; v2]).
Proof.
  intros Hs Hf H1 H2 Hstr. rewrite eval_call. cbn [map option_map]. rewrite H1, H2.
  rewrite (dispatch_general _ _ _ _ _ (plain_fn f)). unfold call_general. rewrite (std_get _ _ Hs).
  destruct f; try discriminate.
  - destruct r1 as [v1| |]; try reflexivity. destruct r2 as [v2| |]; reflexivity.
  - destruct r1 as [v1| |]; try reflexivity. destruct (Hstr eq_refl v1 eq_refl) as [s1 ->].
    destruct r2 as [v2| |]; try reflexivity. destruct v2; reflexivity.
  - destruct r1 as [v1| |]; try reflexivity. destruct (Hstr eq_refl v1 eq_refl) as [s1 ->].
    destruct r2 as [v2| |]; try reflexivity. destruct v2; reflexivity.
Qed.

Lemma call2_recv c f e1 e2 r1 r2 : std c -> arity2 f = true -> eval c e1 = ret r1 -> eval c e2 = ret r2 ->
  (needs_str f = true -> forall v, r1 = Ok v -> exists s, v = VStr s) ->
  eval c (ECall (fn_name f) (Some e1) [e2]) = ret (let! v1 := r1 in let! v2 := r2 in apply_fn f [v1; v2]).
Proof.
  intros Hs Hf H1 H2 Hstr. rewrite eval_call. cbn [map option_map]. rewrite H1, H2.
  rewrite (dispatch_general _ _ _ _ _ (plain_fn f)). unfold call_general. rewrite (std_get _ _ Hs).
  destruct f; try discriminate.
  - destruct r1 as [v1| |]; try reflexivity. destruct r2 as [v2| |]; reflexivity.
  - destruct r1 as [v1| |]; try reflexivity. destruct (Hstr eq_refl v1 eq_refl) as [s1 ->].
    destruct r2 as [v2| |]; try reflexivity. destruct v2; reflexivity.
  - destruct r1 as [v1| |]; try reflexivity. destruct (Hstr eq_refl v1 eq_refl) as [s1 ->].
    destruct r2 as [v2| |]; try reflexivity. destruct v2; reflexivity.
Qed.

Lemma all_args_pure os : forall vs,
  all_args (map ret os) vs [] =
  match seq_o os with
  | Ok ws => inl (rev ws ++ vs, [])
  | Err e => inr (Err e, [])
  | Crash s => inr (Crash s, [])
  end.
Proof.
  induction os as [|o os IH]; intros vs; cbn [map all_args seq_o obind]; [reflexivity|].
  unfold ret at 1. destruct o as [v| |]; cbn [obind]; try reflexivity.
  cbn [app]. rewrite IH. destruct (seq_o os); cbn [obind]; try reflexivity.
  cbn [rev]. now rewrite <- app_assoc.
Qed.

Lemma calln_fn c f es os : std c -> (f = SMax \/ f = SMin) -> map (eval c) es = map ret os ->
  eval c (ECall (fn_name f) None es) = ret (let! vs := seq_o os in apply_fn f vs).
Proof.
  intros Hs Hf He. rewrite eval_call. cbn [option_map]. rewrite He.
  rewrite (dispatch_general _ _ _ _ _ (plain_fn f)). unfold call_general. rewrite (std_get _ _ Hs).
  destruct Hf as [-> | ->].
  - change (str_assoc (fn_name SMax) default_funs) with (Some (bi [XArgs] FMax)).
    unfold call_fn. cbn [params body bi]. rewrite extract_xargs, all_args_pure.
    destruct (seq_o os) as [ws| |]; cbn [obind]; try reflexivity.
    cbn [extract]. rewrite !rev'_rev. cbn [rev app]. rewrite app_nil_r, rev_involutive. reflexivity.
  - change (str_assoc (fn_name SMin) default_funs) with (Some (bi [XArgs] FMin)).
    unfold call_fn. cbn [params body bi]. rewrite extract_xargs, all_args_pure.
    destruct (seq_o os) as [ws| |]; cbn [obind]; try reflexivity.
    cbn [extract]. rewrite !rev'_rev. cbn [rev app]. rewrite app_nil_r, rev_involutive. reflexivity.
Qed.

(** ** Macros *)
Lemma var_ok_accu x : var_ok x = true -> str_eqb x accu = false.
Proof.
  intros H. destruct (str_eqb x accu) eqn:E; [|reflexivity].
  apply str_eqb_eq in E. subst x. discriminate.
Qed.

Lemma rel_bind c ρ acc x it : rel c ρ -> rel (bind c acc x it) ((x, it) :: ρ).
Proof.
  intros H y Hy. unfold bind. rewrite lookup_define. unfold elookup. cbn [str_assoc].
  destruct (str_eqb y x); [reflexivity|]. rewrite lookup_define, (var_ok_accu y Hy), lookup_push.
  apply (H y Hy).
Qed.

Lemma std_bind c acc x it : std c -> std (bind c acc x it).
Proof. unfold std, bind, define, push. cbn [funs]. auto. Qed.

Definition boolish (B : value -> outcome value) (items : list value) : Prop :=
  forall it v, In it items -> B it = Ok v -> exists b, v = VBool b.

Lemma boolish_tail B it rest : boolish B (it :: rest) -> boolish B rest.
Proof. intros H i v Hin. apply H. now right. Qed.

Lemma all_refine ev B items : (forall it, In it items -> ev it = ret (B it)) -> boolish B items ->
  all_spec ev items = ret (sem_all B items).
Proof.
  induction items as [|it rest IH]; intros He Hb; cbn [all_spec sem_all]; [reflexivity|].
  rewrite (He it (or_introl eq_refl)). unfold ret at 1.
  destruct (B it) as [v| |] eqn:Ev; cbn [obind]; try reflexivity.
  destruct (Hb it v (or_introl eq_refl) Ev) as [b ->]. cbn [to_bool as_bool obind].
  destruct b; [|reflexivity].
  rewrite IH; [reflexivity| |now apply boolish_tail in Hb]. intros i Hi. apply He. now right.
Qed.

Lemma exists_refine (ev : value -> value -> result) B items :
  (forall acc it, In it items -> ev acc it = ret (B it)) -> boolish B items ->
  exists_spec ev items (VBool false) = ret (sem_exists B items).
Proof.
  induction items as [|it rest IH]; intros He Hb; cbn [exists_spec sem_exists]; [reflexivity|].
  rewrite (He _ it (or_introl eq_refl)). unfold ret at 1.
  destruct (B it) as [v| |] eqn:Ev; cbn [obind]; try reflexivity.
  destruct (Hb it v (or_introl eq_refl) Ev) as [b ->]. cbn [to_bool as_bool obind].
  destruct b; [reflexivity|].
  rewrite IH; [reflexivity| |now apply boolish_tail in Hb]. intros a i Hi. apply He. now right.
Qed.

Lemma exists_one_gfold c r x p : str_eqb x accu = false ->
  eval c (expand_exists_one r x p) =
  rbind (eval c r) (fun vr =>
    match range_items vr with
    | None => ret (Err EInvalid)
    | Some items =>
        gfold (fun _ => true) (fun acc it => eval (bind c acc x it) (one_step p)) one_res items (VInt 0) []
    end).
Proof.
  intros Hx. unfold expand_exists_one.
  rewrite (eval_comp_gfold c r x _ _ _ _ (VInt 0) (fun _ => true) one_res Hx).
  - reflexivity.
  - reflexivity.
  - intros c' acc Ha. exists (VBool true). split; reflexivity.
  - intros c' acc Ha. unfold call. rewrite eval_call. cbn [map option_map call_dispatch].
    rewrite (eval_accu c' acc Ha). reflexivity.
Qed.

Lemma one_refine c x p B items : str_eqb x accu = false ->
  (forall acc it, In it items -> eval (bind c acc x it) p = ret (B it)) -> boolish B items ->
  forall n,
  gfold (fun _ => true) (fun acc it => eval (bind c acc x it) (one_step p)) one_res items (VInt n) [] =
  ret (let! k := sem_count B items n in Ok (VBool (k =? 1)%Z)).
Proof.
  intros Hx. induction items as [|it rest IH]; intros He Hb n; cbn [gfold sem_count obind].
  - reflexivity.
  - unfold one_step at 1. rewrite eval_cond, (He _ it (or_introl eq_refl)), rbind_ret.
    destruct (B it) as [v| |] eqn:Ev; cbn [obind]; try reflexivity.
    destruct (Hb it v (or_introl eq_refl) Ev) as [b ->]. cbn [to_bool as_bool obind].
    assert (He' : forall acc i, In i rest -> eval (bind c acc x i) p = ret (B i)) by (intros; apply He; now right).
    apply boolish_tail in Hb. destruct b.
    + rewrite (eval_plus_one _ n) by now apply lookup_bind_accu.
      unfold chk_i64. destruct (in_i64 (n + 1)); [|reflexivity]. cbn [app]. apply (IH He' Hb).
    + rewrite (eval_accu _ (VInt n)) by now apply lookup_bind_accu. cbn [app]. apply (IH He' Hb).
Qed.

Lemma map_refine (fltE : option (value -> value -> result)) (bodyE : value -> value -> result)
      (fltB : option (value -> outcome value)) (B : value -> outcome value) items :
  match fltE, fltB with
  | Some fe, Some fb => (forall acc it, In it items -> fe acc it = ret (fb it)) /\ boolish fb items
  | None, None => True
  | _, _ => False
  end ->
  (forall acc it, In it items -> bodyE acc it = ret (B it)) ->
  forall acc, map_spec fltE bodyE items acc = ret (let! ys := sem_map fltB B items in Ok (VList (acc ++ ys))).
Proof.
  induction items as [|it rest IH]; intros Hf Hb acc; cbn [map_spec sem_map obind].
  - now rewrite app_nil_r.
  - assert (Hb' : forall a i, In i rest -> bodyE a i = ret (B i)) by (intros; apply Hb; now right).
    assert (Hf' : match fltE, fltB with
                  | Some fe, Some fb => (forall acc it, In it rest -> fe acc it = ret (fb it)) /\ boolish fb rest
                  | None, None => True
                  | _, _ => False
                  end).
    { destruct fltE, fltB; auto. destruct Hf as [H1 H2]. split; [intros; apply H1; now right|].
      now apply boolish_tail in H2. }
    assert (Body : forall lf, lf = [] ->
              match bodyE (VList acc) it with
              | (Ok v, l) => let '(r, l') := map_spec fltE bodyE rest (acc ++ [v]) in (r, lf ++ l ++ l')
              | (Err e, l) => (Err e, lf ++ l)
              | (Crash s, l) => (Crash s, lf ++ l)
              end = ret (let! y := B it in let! ys := sem_map fltB B rest in Ok (VList (acc ++ y :: ys)))).
    { intros lf ->. rewrite (Hb _ it (or_introl eq_refl)). unfold ret at 1.
      destruct (B it) as [y| |]; cbn [obind]; try reflexivity.
      rewrite (IH Hf' Hb'). unfold ret. cbn [app].
      destruct (sem_map fltB B rest); cbn [obind]; try reflexivity. now rewrite <- app_assoc. }
    destruct fltE as [fe|], fltB as [fb|]; try contradiction.
    + destruct Hf as [H1 H2]. rewrite (H1 _ it (or_introl eq_refl)). unfold ret at 1.
      destruct (fb it) as [fv| |] eqn:Ef; cbn [obind]; try reflexivity.
      destruct (H2 it fv (or_introl eq_refl) Ef) as [b ->]. cbn [to_bool as_bool obind].
      destruct b.
      * rewrite (Body [] eq_refl). destruct (B it); cbn [obind]; try reflexivity.
        destruct (sem_map (Some fb) B rest); reflexivity.
      * rewrite (IH Hf' Hb'). unfold ret. cbn [app]. reflexivity.
    + cbn [obind]. rewrite (Body [] eq_refl). destruct (B it); cbn [obind]; try reflexivity.
      destruct (sem_map None B rest); reflexivity.
Qed.

(** ** Lowering of the list-shaped constructs *)
Lemma lower_many es :
  (fix go (l : list texpr) : list expr := match l with [] => [] | e :: l' => lower e :: go l' end) es = map lower es.
Proof. induction es as [|e es IH]; [reflexivity|]. cbn [map]. now rewrite <- IH. Qed.

Lemma lower_tlist es : lower (TList es) = EList (map lower es).
Proof. cbn [lower]. now rewrite lower_many. Qed.

Definition lower_entry (kv : texpr * texpr) : expr * expr := (lower (fst kv), lower (snd kv)).
Lemma lower_tmap es : lower (TMap es) = EMap (map lower_entry es).
Proof.
  cbn [lower]. f_equal. induction es as [|[k v] es IH]; [reflexivity|]. cbn [map lower_entry fst snd]. now rewrite <- IH.
Qed.

Lemma lower_tcall f recv args :
  lower (TCall f recv args) =
  if recv then match args with
               | a0 :: rest => ECall (fn_name f) (Some (lower a0)) (map lower rest)
               | [] => ECall (fn_name f) None []
               end
  else ECall (fn_name f) None (map lower args).
Proof. cbn [lower]. destruct recv; [destruct args; [reflexivity|]|]; now rewrite lower_many. Qed.

Definition pure_at (c : ctx) (ρ : env) (t : texpr) : Prop := eval c (lower t) = ret (sem ρ t).

Lemma list_go_lower c ρ es : Forall (pure_at c ρ) es -> forall acc,
  list_go (eval c) (map lower es) acc [] = ret (let! vs := sem_list ρ es in Ok (VList (rev acc ++ vs))).
Proof.
  induction 1 as [|e l He _ IH]; intros acc; cbn [list_go map sem_list obind].
  - now rewrite rev'_rev, app_nil_r.
  - rewrite He. unfold ret at 1. destruct (sem ρ e) as [v| |]; cbn [obind]; try reflexivity.
    rewrite app_nil_r, IH. cbn [rev]. destruct (sem_list ρ l); cbn [obind]; try reflexivity.
    now rewrite <- app_assoc.
Qed.

Lemma map_go_lower c ρ es : Forall (fun kv => pure_at c ρ (fst kv) /\ pure_at c ρ (snd kv)) es -> forall m,
  map_go (eval c) (map lower_entry es) m [] = ret (sem_entries ρ es m).
Proof.
  induction 1 as [|[ke ve] l [Hk Hv] _ IH]; intros m; cbn [map_go map lower_entry fst snd sem_entries]; [reflexivity|].
  cbn [fst snd] in Hk, Hv. rewrite Hk. unfold ret at 1. destruct (sem ρ ke) as [kv| |]; cbn [obind]; try reflexivity.
  destruct (key_of_value kv); [|reflexivity]. rewrite Hv. unfold ret at 1.
  destruct (sem ρ ve) as [v| |]; cbn [obind]; try reflexivity. rewrite !app_nil_r. apply IH.
Qed.

Lemma types_of_each G es : forall ts, types_of G es = Some ts -> Forall2 (fun e t => type_of G e = Some t) es ts.
Proof.
  induction es as [|e es IH]; intros ts; cbn [types_of]; [intros [= <-]; constructor|].
  destruct (type_of G e) as [a|] eqn:Ea; [|discriminate].
  destruct (types_of G es) as [r|]; [|discriminate]. intros [= <-]. constructor; auto.
Qed.

Lemma entries_each G es t : entries_ty G es = Some t ->
  Forall (fun kv => (exists a, type_of G (fst kv) = Some a) /\ (exists b, type_of G (snd kv) = Some b)) es.
Proof.
  induction es as [|[k v] es IH]; cbn [entries_ty]; [constructor|].
  destruct (type_of G k) eqn:Ek; [|discriminate]. destruct (type_of G v) eqn:Ev; [|discriminate].
  intros H. constructor; [cbn; eauto|auto].
Qed.

Lemma map_pure c ρ es : Forall (pure_at c ρ) es -> map (eval c) (map lower es) = map ret (map (sem ρ) es).
Proof. induction 1 as [|e l He _ IH]; [reflexivity|]. cbn [map]. now rewrite He, IH. Qed.

Definition refines (t : texpr) : Prop :=
  forall G τ c ρ, type_of G t = Some τ -> env_ok G ρ -> rel c ρ -> std c -> pure_at c ρ t.

Lemma refines_args G c ρ es ts : Forall refines es -> types_of G es = Some ts ->
  env_ok G ρ -> rel c ρ -> std c -> Forall (pure_at c ρ) es.
Proof.
  intros H Hts Hρ Hr Hs. apply types_of_each in Hts. revert ts Hts.
  induction H as [|e es He _ IH]; intros ts F2; [constructor|].
  inversion F2 as [|? t ? ts' Ht F2']; subst. constructor; [exact (He G t c ρ Ht Hρ Hr Hs)|exact (IH ts' F2')].
Qed.

Lemma body_pure G ρ c x te items body τb : refines body -> type_of ((x, te) :: G) body = Some τb ->
  env_ok G ρ -> rel c ρ -> std c -> Forall (fun it => vtyped it te) items ->
  forall acc it, In it items -> eval (bind c acc x it) (lower body) = ret (sem ((x, it) :: ρ) body).
Proof.
  intros Hb Ht Hρ Hr Hs Fit acc it Hin. rewrite Forall_forall in Fit.
  apply (Hb ((x, te) :: G) τb (bind c acc x it) ((x, it) :: ρ) Ht).
  - apply env_ok_cons; auto.
  - now apply rel_bind.
  - now apply std_bind.
Qed.

Lemma body_boolish G ρ x te items body : type_of ((x, te) :: G) body = Some TyB ->
  env_ok G ρ -> Forall (fun it => vtyped it te) items -> boolish (fun it => sem ((x, it) :: ρ) body) items.
Proof.
  intros Ht Hρ Fit it v Hin Hv. rewrite Forall_forall in Fit.
  apply (sem_preserves body ((x, te) :: G) TyB ((x, it) :: ρ) v Ht); [|exact Hv]. apply env_ok_cons; auto.
Qed.

Theorem eval_refines t : refines t.
Proof.
  induction t using texpr_ind'; unfold refines, pure_at in *; intros G τ c ρ Ht Hρ Hr Hs.
  - reflexivity.
  - cbn [lower sem]. rewrite eval_ident. cbn [type_of] in Ht. destruct (var_ok x) eqn:Ex; [|discriminate].
    now rewrite (Hr x Ex).
  - cbn [lower sem]. apply eval_unop. cbn [type_of] in Ht.
    destruct o; try discriminate; destruct (type_of G t) as [ta|] eqn:Ea; try discriminate; exact (IHt G ta c ρ Ea Hρ Hr Hs).
  - cbn [lower sem]. cbn [type_of] in Ht.
    destruct (type_of G t1) as [ta|] eqn:Ea; [|discriminate]. destruct (type_of G t2) as [tb|] eqn:Eb; [|discriminate].
    apply eval_strict; [intros ->; discriminate|intros ->; discriminate|eauto|eauto].
  - cbn [lower sem]. cbn [type_of] in Ht.
    destruct (type_of G t1) as [[]|] eqn:Ea; try discriminate. destruct (type_of G t2) as [[]|] eqn:Eb; try discriminate.
    apply eval_tand; eauto; intros v Hv; [exact (sem_preserves t1 G TyB ρ v Ea Hρ Hv)|exact (sem_preserves t2 G TyB ρ v Eb Hρ Hv)].
  - cbn [lower sem]. cbn [type_of] in Ht.
    destruct (type_of G t1) as [[]|] eqn:Ea; try discriminate. destruct (type_of G t2) as [[]|] eqn:Eb; try discriminate.
    apply eval_tor; eauto; intros v Hv; [exact (sem_preserves t1 G TyB ρ v Ea Hρ Hv)|exact (sem_preserves t2 G TyB ρ v Eb Hρ Hv)].
  - cbn [lower sem]. cbn [type_of] in Ht.
    destruct (type_of G t1) as [[]|] eqn:E0; try discriminate.
    destruct (type_of G t2) as [ta|] eqn:Ea; [|discriminate]. destruct (type_of G t3) as [tb|] eqn:Eb; [|discriminate].
    apply eval_tcond; eauto. intros v Hv. exact (sem_preserves t1 G TyB ρ v E0 Hρ Hv).
  - (* list *) rewrite lower_tlist, eval_list, sem_tlist. rewrite type_tlist in Ht.
    destruct (types_of G es) as [ts|] eqn:Ets; [|discriminate].
    rewrite (list_go_lower c ρ es (refines_args G c ρ es ts H Ets Hρ Hr Hs) []). reflexivity.
  - (* map *) rewrite lower_tmap, eval_map, sem_tmap. rewrite type_tmap in Ht.
    apply map_go_lower. apply entries_each in Ht. rewrite Forall_forall in *. intros kv Hin.
    destruct (Ht kv Hin) as [[a Ea] [b Eb]]. destruct (H kv Hin) as [Hk Hv].
    split; [exact (Hk G a c ρ Ea Hρ Hr Hs)|exact (Hv G b c ρ Eb Hρ Hr Hs)].
  - (* select *) cbn [lower sem]. rewrite eval_select. cbn [type_of] in Ht.
    destruct (type_of G t) as [ta|] eqn:Ea; [|discriminate]. rewrite (IHt G ta c ρ Ea Hρ Hr Hs), rbind_ret.
    destruct (sem ρ t) as [v| |]; cbn [obind]; try reflexivity.
    assert (Hf : has_function c f = false).
    { unfold has_function. rewrite (std_get _ _ Hs).
      destruct ta; try discriminate; destruct (has_function default_ctx f) eqn:E; try discriminate; exact E. }
    unfold member. rewrite Hf. destruct v; try reflexivity.
  - (* has *) cbn [lower sem]. rewrite eval_select. cbn [type_of] in Ht.
    destruct (type_of G t) as [ta|] eqn:Ea; [|discriminate]. rewrite (IHt G ta c ρ Ea Hρ Hr Hs), rbind_ret.
    now destruct (sem ρ t).
  - (* call *) rewrite lower_tcall, sem_tcall, sem_list_seq. rewrite type_tcall in Ht.
    destruct (types_of G args) as [ts|] eqn:Ets; [|discriminate].
    pose proof (refines_args G c ρ args ts H Ets Hρ Hr Hs) as Hargs.
    pose proof (types_of_each G args ts Ets) as F2.
    assert (Hstr : forall a, In a args -> type_of G a = Some TyS -> forall v, sem ρ a = Ok v -> exists s, v = VStr s).
    { intros a _ Ea v Hv. exact (sem_preserves a G TyS ρ v Ea Hρ Hv). }
    destruct recv.
    + destruct (recv_ok f) eqn:Erecv; [|discriminate].
      destruct f; try discriminate; cbn [fn_ty] in Ht.
      * destruct ts as [|t0 [|? ?]]; try discriminate. inversion F2 as [|a0 ? r0 ? E0 F2']; subst. inversion F2'; subst.
        inversion Hargs; subst. cbn [map seq_o]. rewrite (call1_recv c SSize (lower a0) (sem ρ a0)); auto.
        destruct (sem ρ a0); reflexivity.
      * destruct ts as [|t0 [|t1 [|? ?]]]; try discriminate. inversion F2 as [|a0 ? r0 ? E0 F2']; subst.
        inversion F2' as [|a1 ? r1 ? E1 F2'']; subst. inversion F2''; subst.
        inversion Hargs as [|? ? P0 Hargs']; subst. inversion Hargs' as [|? ? P1 _]; subst. cbn [map seq_o].
        rewrite (call2_recv c SContains (lower a0) (lower a1) (sem ρ a0) (sem ρ a1)); auto; [|discriminate].
        destruct (sem ρ a0); cbn [obind]; try reflexivity. destruct (sem ρ a1); reflexivity.
      * destruct ts as [|[] [|[] [|? ?]]]; try discriminate. inversion F2 as [|a0 ? r0 ? E0 F2']; subst.
        inversion F2' as [|a1 ? r1 ? E1 F2'']; subst. inversion F2''; subst.
        inversion Hargs as [|? ? P0 Hargs']; subst. inversion Hargs' as [|? ? P1 _]; subst. cbn [map seq_o].
        rewrite (call2_recv c SStartsWith (lower a0) (lower a1) (sem ρ a0) (sem ρ a1)); auto.
        -- destruct (sem ρ a0); cbn [obind]; try reflexivity. destruct (sem ρ a1); reflexivity.
        -- intros _. apply (Hstr a0); [now left|exact E0].
      * destruct ts as [|[] [|[] [|? ?]]]; try discriminate. inversion F2 as [|a0 ? r0 ? E0 F2']; subst.
        inversion F2' as [|a1 ? r1 ? E1 F2'']; subst. inversion F2''; subst.
        inversion Hargs as [|? ? P0 Hargs']; subst. inversion Hargs' as [|? ? P1 _]; subst. cbn [map seq_o].
        rewrite (call2_recv c SEndsWith (lower a0) (lower a1) (sem ρ a0) (sem ρ a1)); auto.
        -- destruct (sem ρ a0); cbn [obind]; try reflexivity. destruct (sem ρ a1); reflexivity.
        -- intros _. apply (Hstr a0); [now left|exact E0].
      * destruct ts as [|t0 [|? ?]]; try discriminate. inversion F2 as [|a0 ? r0 ? E0 F2']; subst. inversion F2'; subst.
        inversion Hargs; subst. cbn [map seq_o]. rewrite (call1_recv c SString (lower a0) (sem ρ a0)); auto.
        destruct (sem ρ a0); reflexivity.
      * destruct ts as [|t0 [|? ?]]; try discriminate. inversion F2 as [|a0 ? r0 ? E0 F2']; subst. inversion F2'; subst.
        inversion Hargs; subst. cbn [map seq_o]. rewrite (call1_recv c SDouble (lower a0) (sem ρ a0)); auto.
        destruct (sem ρ a0); reflexivity.
      * destruct ts as [|t0 [|? ?]]; try discriminate. inversion F2 as [|a0 ? r0 ? E0 F2']; subst. inversion F2'; subst.
        inversion Hargs; subst. cbn [map seq_o]. rewrite (call1_recv c SInt (lower a0) (sem ρ a0)); auto.
        destruct (sem ρ a0); reflexivity.
      * destruct ts as [|t0 [|? ?]]; try discriminate. inversion F2 as [|a0 ? r0 ? E0 F2']; subst. inversion F2'; subst.
        inversion Hargs; subst. cbn [map seq_o]. rewrite (call1_recv c SUint (lower a0) (sem ρ a0)); auto.
        destruct (sem ρ a0); reflexivity.
    + destruct f; cbn [fn_ty] in Ht.
      * destruct ts as [|t0 [|? ?]]; try discriminate. inversion F2 as [|a0 ? r0 ? E0 F2']; subst. inversion F2'; subst.
        inversion Hargs; subst. cbn [map seq_o]. rewrite (call1_fn c SSize (lower a0) (sem ρ a0)); auto.
        destruct (sem ρ a0); reflexivity.
      * destruct ts as [|t0 [|t1 [|? ?]]]; try discriminate. inversion F2 as [|a0 ? r0 ? E0 F2']; subst.
        inversion F2' as [|a1 ? r1 ? E1 F2'']; subst. inversion F2''; subst.
        inversion Hargs as [|? ? P0 Hargs']; subst. inversion Hargs' as [|? ? P1 _]; subst. cbn [map seq_o].
        rewrite (call2_fn c SContains (lower a0) (lower a1) (sem ρ a0) (sem ρ a1)); auto; [|discriminate].
        destruct (sem ρ a0); cbn [obind]; try reflexivity. destruct (sem ρ a1); reflexivity.
      * destruct ts as [|[] [|[] [|? ?]]]; try discriminate. inversion F2 as [|a0 ? r0 ? E0 F2']; subst.
        inversion F2' as [|a1 ? r1 ? E1 F2'']; subst. inversion F2''; subst.
        inversion Hargs as [|? ? P0 Hargs']; subst. inversion Hargs' as [|? ? P1 _]; subst. cbn [map seq_o].
        rewrite (call2_fn c SStartsWith (lower a0) (lower a1) (sem ρ a0) (sem ρ a1)); auto.
        -- destruct (sem ρ a0); cbn [obind]; try reflexivity. destruct (sem ρ a1); reflexivity.
        -- intros _. apply (Hstr a0); [now left|exact E0].
      * destruct ts as [|[] [|[] [|? ?]]]; try discriminate. inversion F2 as [|a0 ? r0 ? E0 F2']; subst.
        inversion F2' as [|a1 ? r1 ? E1 F2'']; subst. inversion F2''; subst.
        inversion Hargs as [|? ? P0 Hargs']; subst. inversion Hargs' as [|? ? P1 _]; subst. cbn [map seq_o].
        rewrite (call2_fn c SEndsWith (lower a0) (lower a1) (sem ρ a0) (sem ρ a1)); auto.
        -- destruct (sem ρ a0); cbn [obind]; try reflexivity. destruct (sem ρ a1); reflexivity.
        -- intros _. apply (Hstr a0); [now left|exact E0].
      * destruct ts as [|t0 [|? ?]]; try discriminate. inversion F2 as [|a0 ? r0 ? E0 F2']; subst. inversion F2'; subst.
        inversion Hargs; subst. cbn [map seq_o]. rewrite (call1_fn c SString (lower a0) (sem ρ a0)); auto.
        destruct (sem ρ a0); reflexivity.
      * destruct ts as [|[] [|? ?]]; try discriminate. inversion F2 as [|a0 ? r0 ? E0 F2']; subst. inversion F2'; subst.
        inversion Hargs; subst. cbn [map seq_o]. rewrite (call1_fn c SBytes (lower a0) (sem ρ a0)); auto.
        destruct (sem ρ a0); reflexivity.
      * destruct ts as [|t0 [|? ?]]; try discriminate. inversion F2 as [|a0 ? r0 ? E0 F2']; subst. inversion F2'; subst.
        inversion Hargs; subst. cbn [map seq_o]. rewrite (call1_fn c SDouble (lower a0) (sem ρ a0)); auto.
        destruct (sem ρ a0); reflexivity.
      * destruct ts as [|t0 [|? ?]]; try discriminate. inversion F2 as [|a0 ? r0 ? E0 F2']; subst. inversion F2'; subst.
        inversion Hargs; subst. cbn [map seq_o]. rewrite (call1_fn c SInt (lower a0) (sem ρ a0)); auto.
        destruct (sem ρ a0); reflexivity.
      * destruct ts as [|t0 [|? ?]]; try discriminate. inversion F2 as [|a0 ? r0 ? E0 F2']; subst. inversion F2'; subst.
        inversion Hargs; subst. cbn [map seq_o]. rewrite (call1_fn c SUint (lower a0) (sem ρ a0)); auto.
        destruct (sem ρ a0); reflexivity.
      * apply calln_fn; auto. now apply map_pure.
      * apply calln_fn; auto. now apply map_pure.
  - (* all *) cbn [lower sem]. cbn [type_of] in Ht.
    destruct (type_of G t1) as [tr|] eqn:Er; [|discriminate]. destruct (elem_ty tr) as [te|] eqn:Ee; [|discriminate].
    destruct (var_ok x) eqn:Ex; [|discriminate]. destruct (type_of ((x, te) :: G) t2) as [[]|] eqn:Eb; try discriminate.
    rewrite (all_correct _ _ _ _ (var_ok_accu x Ex)), (IHt1 G tr c ρ Er Hρ Hr Hs), rbind_ret.
    destruct (sem ρ t1) as [rv| |] eqn:Erv; cbn [obind]; try reflexivity.
    destruct (range_items rv) as [items|] eqn:Eit; [|reflexivity].
    pose proof (range_items_typed rv tr te items (sem_preserves t1 G tr ρ rv Er Hρ Erv) Ee Eit) as Fit.
    apply all_refine; [|exact (body_boolish G ρ x te items t2 Eb Hρ Fit)].
    intros it Hin. exact (body_pure G ρ c x te items t2 TyB IHt2 Eb Hρ Hr Hs Fit (VBool true) it Hin).
  - (* exists *) cbn [lower sem]. cbn [type_of] in Ht.
    destruct (type_of G t1) as [tr|] eqn:Er; [|discriminate]. destruct (elem_ty tr) as [te|] eqn:Ee; [|discriminate].
    destruct (var_ok x) eqn:Ex; [|discriminate]. destruct (type_of ((x, te) :: G) t2) as [[]|] eqn:Eb; try discriminate.
    rewrite (exists_correct _ _ _ _ (var_ok_accu x Ex)), (IHt1 G tr c ρ Er Hρ Hr Hs), rbind_ret.
    destruct (sem ρ t1) as [rv| |] eqn:Erv; cbn [obind]; try reflexivity.
    destruct (range_items rv) as [items|] eqn:Eit; [|reflexivity].
    pose proof (range_items_typed rv tr te items (sem_preserves t1 G tr ρ rv Er Hρ Erv) Ee Eit) as Fit.
    apply exists_refine; [|exact (body_boolish G ρ x te items t2 Eb Hρ Fit)].
    intros acc it Hin. exact (body_pure G ρ c x te items t2 TyB IHt2 Eb Hρ Hr Hs Fit acc it Hin).
  - (* exists_one *) cbn [lower sem]. cbn [type_of] in Ht.
    destruct (type_of G t1) as [tr|] eqn:Er; [|discriminate]. destruct (elem_ty tr) as [te|] eqn:Ee; [|discriminate].
    destruct (var_ok x) eqn:Ex; [|discriminate]. destruct (type_of ((x, te) :: G) t2) as [[]|] eqn:Eb; try discriminate.
    rewrite (exists_one_gfold _ _ _ _ (var_ok_accu x Ex)), (IHt1 G tr c ρ Er Hρ Hr Hs), rbind_ret.
    destruct (sem ρ t1) as [rv| |] eqn:Erv; cbn [obind]; try reflexivity.
    destruct (range_items rv) as [items|] eqn:Eit; [|reflexivity].
    pose proof (range_items_typed rv tr te items (sem_preserves t1 G tr ρ rv Er Hρ Erv) Ee Eit) as Fit.
    apply (one_refine c x (lower t2) (fun it => sem ((x, it) :: ρ) t2) items (var_ok_accu x Ex));
      [|exact (body_boolish G ρ x te items t2 Eb Hρ Fit)].
    intros acc it Hin. exact (body_pure G ρ c x te items t2 TyB IHt2 Eb Hρ Hr Hs Fit acc it Hin).
  - (* map *) cbn [lower sem]. cbn [type_of] in Ht.
    destruct (type_of G t1) as [tr|] eqn:Er; [|discriminate]. destruct (elem_ty tr) as [te|] eqn:Ee; [|discriminate].
    destruct (var_ok x) eqn:Ex; [|discriminate].
    destruct (match flt with Some p => _ | None => true end) eqn:Ef; [|discriminate].
    destruct (type_of ((x, te) :: G) t2) as [tb|] eqn:Eb; [|discriminate].
    rewrite (map_correct _ _ _ _ _ (var_ok_accu x Ex)), (IHt1 G tr c ρ Er Hρ Hr Hs), rbind_ret.
    destruct (sem ρ t1) as [rv| |] eqn:Erv; cbn [obind]; try reflexivity.
    destruct (range_items rv) as [items|] eqn:Eit; [|reflexivity].
    pose proof (range_items_typed rv tr te items (sem_preserves t1 G tr ρ rv Er Hρ Erv) Ee Eit) as Fit.
    rewrite (map_refine _ _ (match flt with Some p => Some (fun it => sem ((x, it) :: ρ) p) | None => None end)
                        (fun it => sem ((x, it) :: ρ) t2) items).
    + reflexivity.
    + destruct flt as [p|]; cbn [option_map]; [|exact I].
      destruct (type_of ((x, te) :: G) p) as [[]|] eqn:Ep; try discriminate. split.
      * intros acc it Hin. exact (body_pure G ρ c x te items p TyB (H p eq_refl) Ep Hρ Hr Hs Fit acc it Hin).
      * exact (body_boolish G ρ x te items p Ep Hρ Fit).
    + intros acc it Hin. exact (body_pure G ρ c x te items t2 tb IHt2 Eb Hρ Hr Hs Fit acc it Hin).
  - (* filter *) cbn [lower sem]. cbn [type_of] in Ht.
    destruct (type_of G t1) as [tr|] eqn:Er; [|discriminate]. destruct (elem_ty tr) as [te|] eqn:Ee; [|discriminate].
    destruct (var_ok x) eqn:Ex; [|discriminate]. destruct (type_of ((x, te) :: G) t2) as [[]|] eqn:Eb; try discriminate.
    rewrite (filter_correct _ _ _ _ (var_ok_accu x Ex)), (IHt1 G tr c ρ Er Hρ Hr Hs), rbind_ret.
    destruct (sem ρ t1) as [rv| |] eqn:Erv; cbn [obind]; try reflexivity.
    destruct (range_items rv) as [items|] eqn:Eit; [|reflexivity].
    pose proof (range_items_typed rv tr te items (sem_preserves t1 G tr ρ rv Er Hρ Erv) Ee Eit) as Fit.
    rewrite (map_refine _ _ (Some (fun it => sem ((x, it) :: ρ) t2)) (fun it => Ok it) items).
    + reflexivity.
    + split; [|exact (body_boolish G ρ x te items t2 Eb Hρ Fit)].
      intros acc it Hin. exact (body_pure G ρ c x te items t2 TyB IHt2 Eb Hρ Hr Hs Fit acc it Hin).
    + reflexivity.
Qed.
Lemma str_assoc_app {B} x (a b : list (str * B)) :
  str_assoc x (a ++ b) = match str_assoc x a with Some v => Some v | None => str_assoc x b end.
Proof. induction a as [|[k v] a IH]; cbn [app str_assoc]; [reflexivity|]. now destruct (str_eqb x k). Qed.

Lemma lookup_env_of c x : lookup c x = elookup (env_of c) x.
Proof.
  unfold lookup, elookup, env_of. induction (scopes c) as [|s ss IH]; cbn [lookup_scopes concat]; [reflexivity|].
  rewrite str_assoc_app. destruct (str_assoc x s); [reflexivity|exact IH].
Qed.

Lemma rel_env_of c : rel c (env_of c).
Proof. intros x _. apply lookup_env_of. Qed.

Lemma no_unspec_list es : Forall (fun t => no_unspec (lower t)) es ->
  (fix go (l : list expr) : Prop := match l with [] => True | a :: l' => no_unspec a /\ go l' end) (map lower es).
Proof. induction 1 as [|e l He _ IH]; cbn [map]; [exact I|split; assumption]. Qed.

Theorem lower_no_unspec t : no_unspec (lower t).
Proof.
  induction t using texpr_ind'.
  - exact I.
  - exact I.
  - cbn. auto.
  - cbn. auto.
  - cbn. auto.
  - cbn. auto.
  - cbn. auto.
  - rewrite lower_tlist. cbn [no_unspec]. now apply no_unspec_list.
  - rewrite lower_tmap. cbn [no_unspec]. induction H as [|[k v] l [Hk Hv] _ IH]; cbn [map lower_entry fst snd]; [exact I|].
    cbn [fst snd] in Hk, Hv. split; [exact Hk|split; [exact Hv|exact IH]].
  - exact IHt.
  - exact IHt.
  - rewrite lower_tcall. destruct recv.
    + destruct args as [|a0 rest]; [cbn; auto|]. inversion H; subst. cbn [no_unspec]. split; [assumption|now apply no_unspec_list].
    + cbn [no_unspec]. split; [exact I|now apply no_unspec_list].
  - cbn; repeat split; auto.
  - cbn; repeat split; auto.
  - cbn; repeat split; auto.
  - destruct flt as [p|]; [pose proof (H p eq_refl) as Hp|]; cbn; repeat split; auto.
  - cbn; repeat split; auto.
Qed.
