(** C07: each operand is evaluated at most once, left to right, in bounded work. *)
From Coq Require Import String.
From Cel.Model Require Import Eval.
From Cel.Proofs Require Import EvalBase NoCrash.
From Coq Require Import Lia.

Definition logs_of (rs : list result) : list event := concat (map snd rs).

(** ** Extractor lists that resolve every argument at most once: no [Arguments] at all, or
    [Arguments] alone.  (A signature mixing [Arguments] with positional or receiver parameters
    resolves those arguments a second time - by construction of the extractors: [Arguments]
    resolves all arguments whatever the argument index is; no built-in has such a signature.) *)
Definition no_xargs (p : extractor) : bool := match p with XArgs => false | _ => true end.
Definition args_once (ps : list extractor) : bool :=
  forallb no_xargs ps || match ps with [XArgs] => true | _ => false end.

(** Without [Arguments]: the log grows by logs of arguments at indices >= idx only, each at
    most once. *)
Lemma extract_log_noargs ps : forallb no_xargs ps = true ->
  forall this rs es idx acc log o l,
  extract ps this rs es idx acc log = (o, l) ->
  exists used, l = log ++ used /\ (length used <= length (logs_of (skipn idx rs)))%nat.
Proof.
  induction ps as [|p ps IH]; intros Hp this rs es idx acc log o l H.
  - cbn [extract] in H. injection H as _ <-. exists []. split; [now rewrite app_nil_r|cbn; lia].
  - cbn [forallb] in Hp. apply andb_true_iff in Hp as [Hp1 Hp].
    assert (Pos : forall t opt missing,
      match nth_error rs idx with
      | None => (Err missing, log)
      | Some (r, l0) =>
          match r with
          | Ok v => match from_value t opt v with
                    | Ok x => extract ps this rs es (S idx) (x :: acc) (log ++ l0)
                    | Err c => (Err c, log ++ l0)
                    | Crash s => (Crash s, log ++ l0)
                    end
          | Err c => (Err c, log ++ l0)
          | Crash s => (Crash s, log ++ l0)
          end
      end = (o, l) ->
      exists used, l = log ++ used /\ (length used <= length (logs_of (skipn idx rs)))%nat).
    { intros t opt missing Hq.
      destruct (nth_error rs idx) as [[r l0]|] eqn:En.
      - assert (Es : skipn idx rs = (r, l0) :: skipn (S idx) rs).
        { clear -En. revert idx En. induction rs as [|x rs IHr]; intros [|i] E; cbn in *; try discriminate.
          - now injection E as ->.
          - now apply IHr. }
        rewrite Es. unfold logs_of. cbn [map concat snd]. rewrite app_length.
        destruct r as [v|c|s].
        + destruct (from_value t opt v).
          * destruct (IH Hp _ _ _ _ _ _ _ _ Hq) as (used & -> & Hu).
            exists (l0 ++ used). split; [now rewrite app_assoc|]. rewrite app_length. unfold logs_of in Hu. lia.
          * injection Hq as _ <-. exists l0. split; [reflexivity|lia].
          * injection Hq as _ <-. exists l0. split; [reflexivity|lia].
        + injection Hq as _ <-. exists l0. split; [reflexivity|lia].
        + injection Hq as _ <-. exists l0. split; [reflexivity|lia].
      - injection Hq as _ <-. exists []. split; [now rewrite app_nil_r|cbn; lia]. }
    assert (Skip : (length (logs_of (skipn (S idx) rs)) <= length (logs_of (skipn idx rs)))%nat).
    { clear. revert idx. induction rs as [|x rs IHr]; intros [|i]; cbn [skipn]; try lia.
      - unfold logs_of. cbn [map concat]. rewrite app_length. lia.
      - apply IHr. }
    cbn [extract] in H. destruct p as [t|t|t|t| | |]; try discriminate Hp1.
    + destruct this as [v|]; [|exact (Pos t false EArgCount H)].
      destruct (from_value t false v).
      * exact (IH Hp _ _ _ _ _ _ _ _ H).
      * injection H as _ <-. exists []. split; [now rewrite app_nil_r|cbn; lia].
      * injection H as _ <-. exists []. split; [now rewrite app_nil_r|cbn; lia].
    + destruct this as [v|]; [|exact (Pos t true EArgCount H)].
      destruct (from_value t true v).
      * exact (IH Hp _ _ _ _ _ _ _ _ H).
      * injection H as _ <-. exists []. split; [now rewrite app_nil_r|cbn; lia].
      * injection H as _ <-. exists []. split; [now rewrite app_nil_r|cbn; lia].
    + exact (Pos t false EArgCount H).
    + exact (Pos t true EArgCount H).
    + destruct (nth_error es idx) as [[]|]; try (injection H as _ <-; exists []; split; [now rewrite app_nil_r|cbn; lia]).
      destruct (IH Hp _ _ _ _ _ _ _ _ H) as (used & -> & Hu). exists used. split; [reflexivity|lia].
    + destruct (nth_error es idx); [|injection H as _ <-; exists []; split; [now rewrite app_nil_r|cbn; lia]].
      destruct (IH Hp _ _ _ _ _ _ _ _ H) as (used & -> & Hu). exists used. split; [reflexivity|lia].
Qed.

Lemma all_args_log rs : forall vs lg,
  match all_args rs vs lg with
  | inl (_, lg') => exists used, lg' = lg ++ used /\ (length used <= length (logs_of rs))%nat
  | inr (_, lg') => exists used, lg' = lg ++ used /\ (length used <= length (logs_of rs))%nat
  end.
Proof.
  induction rs as [|[r l0] rs IH]; intros vs lg; cbn [all_args].
  - exists []. split; [now rewrite app_nil_r|cbn; lia].
  - unfold logs_of. cbn [map concat snd]. rewrite app_length.
    destruct r as [v|c|s].
    + specialize (IH (v :: vs) (lg ++ l0)).
      destruct (all_args rs (v :: vs) (lg ++ l0)) as [[vs' lg']|[o lg']];
        destruct IH as (used & -> & Hu); exists (l0 ++ used); (split; [now rewrite app_assoc|]);
        rewrite app_length; unfold logs_of in Hu; lia.
    + exists l0. split; [reflexivity|lia].
    + exists l0. split; [reflexivity|lia].
Qed.

Lemma extract_log_once ps : args_once ps = true ->
  forall this rs es acc log o l,
  extract ps this rs es 0 acc log = (o, l) ->
  exists used, l = log ++ used /\ (length used <= length (logs_of rs))%nat.
Proof.
  intros Ha this rs es acc log o l H. unfold args_once in Ha. apply orb_true_iff in Ha as [Ha|Ha].
  - destruct (extract_log_noargs ps Ha _ _ _ _ _ _ _ _ H) as (used & E & Hu). exists used. now split.
  - destruct ps as [|[] [|? ?]]; try discriminate.
    rewrite extract_xargs in H. pose proof (all_args_log rs [] log) as Hl.
    destruct (all_args rs [] log) as [[vs lg]|[o' lg']].
    + cbn [extract] in H. injection H as _ <-. exact Hl.
    + injection H as _ <-. exact Hl.
Qed.

(** ** A linear bound on host-function invocations for comprehension-free programs *)
Open Scope nat_scope.
Fixpoint ncalls (e : expr) : nat :=
  match e with
  | EUnspec | ELit _ | EIdent _ => 0
  | ECall _ t args =>
      1 + match t with Some t' => ncalls t' | None => 0 end +
      (fix go (l : list expr) : nat := match l with [] => 0 | a :: l' => ncalls a + go l' end) args
  | ESelect o _ _ => ncalls o
  | EList es => (fix go (l : list expr) : nat := match l with [] => 0 | a :: l' => ncalls a + go l' end) es
  | EMap es => (fix go (l : list (expr * expr)) : nat :=
                  match l with [] => 0 | (k, v) :: l' => ncalls k + ncalls v + go l' end) es
  | EStruct _ _ => 0
  | EComp r _ _ i c s res => ncalls r + ncalls i + ncalls c + ncalls s + ncalls res
  end.

Fixpoint no_comp (e : expr) : Prop :=
  match e with
  | EUnspec | ELit _ | EIdent _ | EStruct _ _ => True
  | ECall _ t args =>
      match t with Some t' => no_comp t' | None => True end /\
      (fix go (l : list expr) : Prop := match l with [] => True | a :: l' => no_comp a /\ go l' end) args
  | ESelect o _ _ => no_comp o
  | EList es => (fix go (l : list expr) : Prop := match l with [] => True | a :: l' => no_comp a /\ go l' end) es
  | EMap es => (fix go (l : list (expr * expr)) : Prop :=
                  match l with [] => True | (k, v) :: l' => no_comp k /\ no_comp v /\ go l' end) es
  | EComp _ _ _ _ _ _ _ => False
  end.

Definition once_ctx (c : ctx) : Prop := Forall (fun nd => args_once (params (snd nd)) = true) (funs c).

Lemma default_ctx_once : once_ctx default_ctx.
Proof. unfold once_ctx, default_ctx, default_funs; cbn [funs]. repeat constructor. Qed.

Lemma get_function_once c f d : once_ctx c -> get_function c f = Some d -> args_once (params d) = true.
Proof.
  unfold once_ctx, get_function. induction (funs c) as [|[n d'] l IH]; cbn [str_assoc]; [discriminate|].
  intros H. inversion H as [|? ? H1 H2]; subst. destruct (str_eqb f n); [intros [= <-]; exact H1|now apply IH].
Qed.

Definition loglen (r : result) : nat := length (snd r).

Lemma rbind_loglen r k n m : (loglen r <= n)%nat -> (forall v, loglen (k v) <= m)%nat ->
  (loglen (rbind r k) <= n + m)%nat.
Proof.
  intros Hr Hk. destruct r as [[v|c|s] l]; unfold loglen in *; cbn [rbind snd] in *; try lia.
  specialize (Hk v). destruct (k v) as [o l']. cbn [snd] in *. rewrite app_length. lia.
Qed.

Lemma call_fn_loglen name d this rs es log0 : args_once (params d) = true ->
  (loglen (call_fn name d this rs es log0) <= length log0 + length (logs_of rs) + 1)%nat.
Proof.
  intros Ha. unfold call_fn, loglen.
  destruct (extract (params d) this rs es 0 [] log0) as [o l] eqn:E.
  destruct (extract_log_once _ Ha _ _ _ _ _ _ _ E) as (used & -> & Hu).
  destruct o as [xs|c|s]; cbn [snd]; [destruct (body d); cbn [snd]|..]; rewrite ?app_length; cbn [length]; lia.
Qed.

Lemma logs_of_cons r rs : length (logs_of (r :: rs)) = (loglen r + length (logs_of rs))%nat.
Proof. unfold logs_of, loglen. cbn [map concat]. now rewrite app_length. Qed.

Lemma call_dispatch_loglen c f rt rs args : once_ctx c ->
  loglen (call_dispatch c f rt rs args) <=
  1 + match rt with Some r => loglen r | None => 0 end + length (logs_of rs).
Proof.
  intros Hc.
  assert (G : loglen (call_general c f rt rs args) <=
              1 + match rt with Some r => loglen r | None => 0 end + length (logs_of rs)).
  { unfold call_general. destruct (get_function c f) as [d|] eqn:E; [|unfold loglen; cbn; lia].
    pose proof (get_function_once c f d Hc E) as Hd.
    destruct rt as [[[tv|x|s] lt]|].
    - pose proof (call_fn_loglen f d (Some tv) rs args lt Hd). unfold loglen in *. cbn [snd] in *. lia.
    - unfold loglen; cbn [snd]; lia.
    - unfold loglen; cbn [snd]; lia.
    - pose proof (call_fn_loglen f d None rs args [] Hd). cbn [length] in *. lia. }
  assert (Z0 : forall o', loglen (ret o') <= 0) by (intros; unfold loglen; cbn; lia).
  unfold call_dispatch.
  destruct rs as [|r1 [|r2 [|r3 [|r4 rs']]]]; try exact G.
  - destruct (unop_of_name f) as [u|]; [|exact G]. rewrite logs_of_cons.
    pose proof (rbind_loglen r1 (fun v => ret (v_unop u v)) (loglen r1) 0 (le_n _) (fun v => Z0 _)). lia.
  - destruct (binop_of_name f) as [o|]; [|exact G]. rewrite !logs_of_cons.
    assert (S : forall k, (forall l, loglen (k l) <= loglen r2) -> loglen (rbind r1 k) <= loglen r1 + loglen r2).
    { intros k Hk. now apply rbind_loglen. }
    assert (R2 : forall k', (forall r, loglen (k' r) <= 0) -> loglen (rbind r2 k') <= loglen r2).
    { intros k' Hk'. pose proof (rbind_loglen r2 k' (loglen r2) 0 (le_n _) Hk'). lia. }
    cbn [logs_of map concat length].
    destruct o;
      try match goal with
          | |- context [strict_binop ?op] =>
              pose proof (S (fun l => rbind r2 (fun r => ret (strict_binop op l r)))
                            (fun l => R2 _ (fun r => Z0 _))) as HH; cbn beta in HH; lia
          end.
    + assert (HH : loglen (rbind r1 (fun l => if to_bool l then ret (Ok l) else r2)) <= loglen r1 + loglen r2).
      { apply S. intros l. destruct (to_bool l); [pose proof (Z0 (Ok l)); lia|lia]. }
      lia.
    + assert (HH : loglen (rbind r1 (fun l => if to_bool l then rbind r2 (fun r => ret (Ok (VBool (to_bool r))))
                                              else ret (Ok (VBool false)))) <= loglen r1 + loglen r2).
      { apply S. intros l. destruct (to_bool l); [apply R2; intros; apply Z0|pose proof (Z0 (Ok (VBool false))); lia]. }
      lia.
  - destruct (str_eqb f op_conditional); [|exact G]. rewrite !logs_of_cons.
    pose proof (rbind_loglen r1 (fun vc => if to_bool vc then r2 else r3) (loglen r1) (loglen r2 + loglen r3)
                  (le_n _)) as HH.
    cbn [logs_of map concat length].
    assert (HK : forall v, loglen (if to_bool v then r2 else r3) <= loglen r2 + loglen r3)
      by (intros v; destruct (to_bool v); lia).
    specialize (HH HK). lia.
Qed.

Lemma list_sum_cons x l : list_sum (x :: l) = x + list_sum l.
Proof. reflexivity. Qed.

Lemma list_go_loglen ev l : forall acc log,
  loglen (list_go ev l acc log) <= length log + list_sum (map (fun a => loglen (ev a)) l).
Proof.
  induction l as [|a l IH]; intros acc log; cbn [list_go map]; [unfold loglen; cbn; lia|].
  rewrite list_sum_cons. unfold loglen in *. destruct (ev a) as [[v|x|s] la]; cbn [snd] in *.
  - specialize (IH (v :: acc) (log ++ la)). rewrite app_length in IH. lia.
  - rewrite app_length. lia.
  - rewrite app_length. lia.
Qed.

Lemma map_go_loglen ev l : forall m log,
  loglen (map_go ev l m log) <=
  length log + list_sum (map (fun kv => loglen (ev (fst kv)) + loglen (ev (snd kv))) l).
Proof.
  induction l as [|[k v] l IH]; intros m log; cbn [map_go map fst snd]; [unfold loglen; cbn; lia|].
  rewrite list_sum_cons. unfold loglen in *. destruct (ev k) as [[kv|x|s] lk]; cbn [snd] in *; try (rewrite app_length; lia).
  destruct (key_of_value kv); [|cbn [snd]; rewrite app_length; lia].
  destruct (ev v) as [[vv|x|s] lv]; cbn [snd] in *.
  - specialize (IH (assoc_set k0 vv m) (log ++ lk ++ lv)). rewrite !app_length in IH. lia.
  - rewrite !app_length. lia.
  - rewrite !app_length. lia.
Qed.

(** Without macros, the number of host-function invocations is at most the number of call
    nodes of the program: every operand is evaluated at most once. *)
Theorem loglen_linear e : forall c, once_ctx c -> no_comp e -> loglen (eval c e) <= ncalls e.
Proof.
  induction e using expr_ind'; intros c Hc Hn.
  - unfold loglen; cbn; lia.
  - unfold loglen; cbn; lia.
  - unfold loglen; cbn; lia.
  - rewrite eval_call. cbn [no_comp] in Hn. destruct Hn as [Ht Ha].
    pose proof (call_dispatch_loglen c f (option_map (eval c) target) (map (eval c) args) args Hc) as HD.
    assert (HT : match option_map (eval c) target with Some r => loglen r | None => 0 end <=
                 match target with Some t' => ncalls t' | None => 0 end).
    { destruct target as [t|]; cbn [option_map]; [now apply (H t)|lia]. }
    assert (HA : length (logs_of (map (eval c) args)) <=
                 (fix go (l : list expr) : nat := match l with [] => 0 | a :: l' => ncalls a + go l' end) args).
    { clear HD HT Ht H. induction args as [|a args IHa]; [cbn; lia|].
      cbn [map]. rewrite logs_of_cons. destruct Ha as [Ha1 Ha2]. inversion H0 as [|? ? P1 P2]; subst.
      specialize (P1 c Hc Ha1). specialize (IHa P2 Ha2). lia. }
    cbn [ncalls]. lia.
  - rewrite eval_select. cbn [ncalls].
    pose proof (rbind_loglen (eval c e)
                  (fun v => if t then ret (Ok (VBool (has_field v f))) else ret (member c v f))
                  (ncalls e) 0 (IHe c Hc Hn)
                  ltac:(intros v; destruct t; unfold loglen; cbn; lia)). lia.
  - rewrite eval_list. pose proof (list_go_loglen (eval c) es [] []) as HL. cbn [length] in HL.
    cbn [ncalls no_comp] in *.
    assert (list_sum (map (fun a => loglen (eval c a)) es) <=
            (fix go (l : list expr) : nat := match l with [] => 0 | a :: l' => ncalls a + go l' end) es).
    { clear HL. induction es as [|a es IHes]; [cbn; lia|]. destruct Hn as [Hn1 Hn2].
      inversion H as [|? ? P1 P2]; subst. cbn [map]. rewrite list_sum_cons. specialize (P1 c Hc Hn1). specialize (IHes P2 Hn2). lia. }
    lia.
  - rewrite eval_map. pose proof (map_go_loglen (eval c) es [] []) as HL. cbn [length] in HL.
    cbn [ncalls no_comp] in *.
    assert (list_sum (map (fun kv => loglen (eval c (fst kv)) + loglen (eval c (snd kv))) es) <=
            (fix go (l : list (expr * expr)) : nat :=
               match l with [] => 0 | (k, v) :: l' => ncalls k + ncalls v + go l' end) es).
    { clear HL. induction es as [|[k v] es IHes]; [cbn; lia|]. destruct Hn as (Hn1 & Hn2 & Hn3).
      inversion H as [|? ? [P1 P1'] P2]; subst. cbn [map fst snd] in *. rewrite list_sum_cons.
      specialize (P1 c Hc Hn1). specialize (P1' c Hc Hn2). specialize (IHes P2 Hn3). lia. }
    lia.
  - unfold loglen; cbn; lia.
  - destruct Hn.
Qed.

(** Operands of a strict binary operator are evaluated left to right: the log of the whole is
    the left operand's log followed by the right operand's. *)
Lemma binop_order c f o a b va la vb lb :
  binop_of_name f = Some o -> o <> BOr -> o <> BAnd ->
  eval c a = (Ok va, la) -> eval c b = (Ok vb, lb) ->
  eval c (ECall f None [a; b]) = (strict_binop o va vb, la ++ lb).
Proof.
  intros Hf H1 H2 Ha Hb. rewrite eval_call. cbn [map option_map call_dispatch]. rewrite Hf, Ha, Hb.
  destruct o; try congruence; cbn; now rewrite app_nil_r.
Qed.

(** The left operand's error aborts before the right operand is evaluated. *)
Lemma binop_left_error c f o a b x la :
  binop_of_name f = Some o -> eval c a = (Err x, la) ->
  eval c (ECall f None [a; b]) = (Err x, la).
Proof.
  intros Hf Ha. rewrite eval_call. cbn [map option_map call_dispatch]. rewrite Hf, Ha.
  destruct o; reflexivity.
Qed.

(** List elements (and likewise call arguments) are evaluated in source order, each once: the
    log of the list is the concatenation of the element logs in order. *)
Lemma list_order c es (rs : list (value * list event)) :
  Forall2 (fun e r => eval c e = (Ok (fst r), snd r)) es rs ->
  eval c (EList es) = (Ok (VList (map fst rs)), concat (map snd rs)).
Proof.
  intros H. rewrite eval_list.
  assert (G : forall acc log,
    list_go (eval c) es acc log = (Ok (VList (rev' acc ++ map fst rs)), log ++ concat (map snd rs))).
  { induction H as [|e [v l] es rs He _ IH]; intros acc log; cbn [list_go map concat fst snd].
    - now rewrite !app_nil_r.
    - cbn [fst snd] in He. rewrite He, IH. unfold rev'. rewrite <- !rev_alt. cbn [rev].
      now rewrite <- !app_assoc. }
  apply G.
Qed.

(** KNOWN FINDING K02.  The hypothesis [once_ctx] cannot be dropped: a host function whose
    signature combines the all-arguments extractor with another extractor that has already
    resolved an argument evaluates that argument again.  Witness: va : (This, Arguments) called
    in function style on one logged argument - one argument expression, two evaluations. *)
Definition mixctx : ctx :=
  add_function (add_function default_ctx $"tag" {| params := [XArg TyValue; XArg TyValue]; body := FHost (HArg 1) |})
               $"va" {| params := [XThis TyValue; XArgs]; body := FHost (HArg 1) |}.
Definition mixprog : expr := ECall $"va" None [ECall $"tag" None [ELit (VInt 1); ELit (VInt 10)]].
Lemma once_refuted_for_mixed_arguments :
  exists c e, no_comp e /\ ncalls e = 2 /\ loglen (eval c e) = 3 /\ ~ once_ctx c.
Proof.
  exists mixctx, mixprog. repeat split; try reflexivity.
  intros H. inversion H as [|x l Hx _]. cbn in Hx. discriminate.
Qed.
(** ... while the same call in receiver style evaluates its receiver and argument once each. *)
Example mixed_receiver_style_once :
  loglen (eval mixctx (ECall $"va" (Some (ECall $"tag" None [ELit (VInt 1); ELit (VInt 10)]))
                             [ECall $"tag" None [ELit (VInt 2); ELit (VInt 20)]])) = 3.
Proof. reflexivity. Qed.
