(** C17: host data -> CEL values. *)
From Coq Require Import String Ascii.
From Cel.Model Require Import Json.
From Cel.Proofs Require Import CompareProofs MacroProofs.
From Coq Require Import Lia ZArith.
Open Scope Z_scope.

(** ** Unfolding equations *)
Lemma to_value_seq l : to_value (SSeq l) = let! vs := tv_seq l [] in Ok (VList vs).
Proof. reflexivity. Qed.
Lemma to_value_tuple l : to_value (STuple l) = let! vs := tv_seq l [] in Ok (VList vs).
Proof. reflexivity. Qed.
Lemma to_value_tuplestruct l : to_value (STupleStruct l) = let! vs := tv_seq l [] in Ok (VList vs).
Proof. reflexivity. Qed.
Lemma to_value_tuplevariant n l :
  to_value (STupleVariant n l) = let! vs := tv_seq l [] in Ok (VMap [(KStr n, VList vs)]).
Proof. reflexivity. Qed.
Lemma to_value_map es : to_value (SMap es) = tv_map es [].
Proof. reflexivity. Qed.
Lemma to_value_struct fs : to_value (SStruct fs) = let! m := tv_fields fs [] in Ok (VMap m).
Proof. reflexivity. Qed.
Lemma to_value_structvariant n fs :
  to_value (SStructVariant n fs) = let! m := tv_fields fs [] in Ok (VMap [(KStr n, VMap m)]).
Proof. reflexivity. Qed.

(** ** Induction principle for [sdata] *)
Definition is_leaf (d : sdata) : bool :=
  match d with
  | SSome _ | SNewtypeStruct _ | SNewtypeVariant _ _ | SSeq _ | STuple _ | STupleStruct _
  | STupleVariant _ _ | SMap _ | SStruct _ | SStructVariant _ _ => false
  | _ => true
  end.

Section SdataInd.
  Variable P : sdata -> Prop.
  Hypothesis Hleaf : forall d, is_leaf d = true -> P d.
  Hypothesis Hsome : forall d, P d -> P (SSome d).
  Hypothesis Hnewtype : forall d, P d -> P (SNewtypeStruct d).
  Hypothesis Hnewtypevariant : forall n d, P d -> P (SNewtypeVariant n d).
  Hypothesis Hseq : forall l, Forall P l -> P (SSeq l).
  Hypothesis Htuple : forall l, Forall P l -> P (STuple l).
  Hypothesis Htuplestruct : forall l, Forall P l -> P (STupleStruct l).
  Hypothesis Htuplevariant : forall n l, Forall P l -> P (STupleVariant n l).
  Hypothesis Hmap : forall es, Forall (fun kx => P (fst kx) /\ P (snd kx)) es -> P (SMap es).
  Hypothesis Hstruct : forall fs, Forall (fun nx => P (snd nx)) fs -> P (SStruct fs).
  Hypothesis Hstructvariant : forall n fs, Forall (fun nx => P (snd nx)) fs -> P (SStructVariant n fs).

  Fixpoint sdata_ind' (d : sdata) : P d :=
    let many := (fix go (l : list sdata) : Forall P l :=
                   match l with
                   | [] => Forall_nil _
                   | a :: l' => Forall_cons _ (sdata_ind' a) (go l')
                   end) in
    let fields := (fix go (l : list (str * sdata)) : Forall (fun nx => P (snd nx)) l :=
                     match l with
                     | [] => Forall_nil _
                     | (n, x) :: l' => Forall_cons (n, x) (sdata_ind' x) (go l')
                     end) in
    match d with
    | SSome d' => Hsome d' (sdata_ind' d')
    | SNewtypeStruct d' => Hnewtype d' (sdata_ind' d')
    | SNewtypeVariant n d' => Hnewtypevariant n d' (sdata_ind' d')
    | SSeq l => Hseq l (many l)
    | STuple l => Htuple l (many l)
    | STupleStruct l => Htuplestruct l (many l)
    | STupleVariant n l => Htuplevariant n l (many l)
    | SMap es =>
        Hmap es ((fix go (l : list (sdata * sdata)) : Forall (fun kx => P (fst kx) /\ P (snd kx)) l :=
                    match l with
                    | [] => Forall_nil _
                    | (k, x) :: l' => Forall_cons (k, x) (conj (sdata_ind' k) (sdata_ind' x)) (go l')
                    end) es)
    | SStruct fs => Hstruct fs (fields fs)
    | SStructVariant n fs => Hstructvariant n fs (fields fs)
    | SBool b => Hleaf (SBool b) eq_refl
    | SInt z => Hleaf (SInt z) eq_refl
    | SUint z => Hleaf (SUint z) eq_refl
    | SBig => Hleaf SBig eq_refl
    | SFloat f => Hleaf (SFloat f) eq_refl
    | SChar c => Hleaf (SChar c) eq_refl
    | SStr s => Hleaf (SStr s) eq_refl
    | SBytes b => Hleaf (SBytes b) eq_refl
    | SNone => Hleaf SNone eq_refl
    | SUnit => Hleaf SUnit eq_refl
    | SUnitStruct => Hleaf SUnitStruct eq_refl
    | SUnitVariant v => Hleaf (SUnitVariant v) eq_refl
    | SDuration ns => Hleaf (SDuration ns) eq_refl
    | STimestamp ns off => Hleaf (STimestamp ns off) eq_refl
    end.
End SdataInd.

(** ** Conversion never panics *)
Definition nocrash {A} (o : outcome A) : Prop := match o with Crash _ => False | _ => True end.

Lemma key_ser_nocrash d : nocrash (key_ser d).
Proof.
  induction d using sdata_ind'; try (destruct d; try discriminate; exact I); cbn [key_ser]; auto; exact I.
Qed.

Lemma tv_seq_nocrash l : Forall (fun d => nocrash (to_value d)) l -> forall acc, nocrash (tv_seq l acc).
Proof.
  induction 1 as [|x l Hx _ IH]; intros acc; cbn [tv_seq]; [exact I|].
  destruct (to_value x); [apply IH|exact I|exact Hx].
Qed.
Lemma tv_fields_nocrash fs : Forall (fun nx => nocrash (to_value (snd nx))) fs -> forall m, nocrash (tv_fields fs m).
Proof.
  induction 1 as [|[n x] l Hx _ IH]; intros m; cbn [tv_fields]; [exact I|]. cbn [snd] in Hx.
  destruct (to_value x); [apply IH|exact I|exact Hx].
Qed.
Lemma tv_map_nocrash es :
  Forall (fun kx => nocrash (to_value (fst kx)) /\ nocrash (to_value (snd kx))) es -> forall m, nocrash (tv_map es m).
Proof.
  induction 1 as [|[k x] l [_ Hx] _ IH]; intros m; cbn [tv_map]; [exact I|]. cbn [snd] in Hx.
  pose proof (key_ser_nocrash k) as Hk. destruct (key_ser k); [|exact I|exact Hk].
  destruct (to_value x); [apply IH|exact I|exact Hx].
Qed.

Lemma bind_nocrash {A B} (o : outcome A) (f : A -> outcome B) :
  nocrash o -> (forall a, nocrash (f a)) -> nocrash (obind o f).
Proof. destruct o; cbn; auto. Qed.

Theorem to_value_nocrash d : nocrash (to_value d).
Proof.
  induction d using sdata_ind'.
  - destruct d; try discriminate; cbn [to_value]; try exact I.
    unfold ts_wrapper. now destruct (1440 <=? _).
  - exact IHd.
  - exact IHd.
  - cbn [to_value]. apply bind_nocrash; [exact IHd|intros; exact I].
  - rewrite to_value_seq. apply bind_nocrash; [now apply tv_seq_nocrash|intros; exact I].
  - rewrite to_value_tuple. apply bind_nocrash; [now apply tv_seq_nocrash|intros; exact I].
  - rewrite to_value_tuplestruct. apply bind_nocrash; [now apply tv_seq_nocrash|intros; exact I].
  - rewrite to_value_tuplevariant. apply bind_nocrash; [now apply tv_seq_nocrash|intros; exact I].
  - rewrite to_value_map. now apply tv_map_nocrash.
  - rewrite to_value_struct. apply bind_nocrash; [now apply tv_fields_nocrash|intros; exact I].
  - rewrite to_value_structvariant. apply bind_nocrash; [now apply tv_fields_nocrash|intros; exact I].
Qed.

(** ** The shape of the result *)
Definition set_all {B} (kvs : list (key * B)) (m0 : list (key * B)) : list (key * B) :=
  fold_left (fun m kv => assoc_set (fst kv) (snd kv) m) kvs m0.

(** [Conv d v]: [v] is the CEL value of the same shape as [d].  Maps and structs are built by
    inserting the converted entries in order ([set_all]: a later equal key replaces). *)
Inductive Conv : sdata -> value -> Prop :=
| CBool b : Conv (SBool b) (VBool b)
| CInt z : Conv (SInt z) (VInt z)
| CUint z : Conv (SUint z) (VUInt z)
| CFloat f : Conv (SFloat f) (VDbl f)
| CChar c : Conv (SChar c) (VStr [c])
| CStr s : Conv (SStr s) (VStr s)
| CBytes b : Conv (SBytes b) (VBytes b)
| CNone : Conv SNone VNull
| CUnit : Conv SUnit VNull
| CUnitStruct : Conv SUnitStruct VNull
| CSome d v : Conv d v -> Conv (SSome d) v
| CUnitVariant n : Conv (SUnitVariant n) (VStr n)
| CNewtype d v : Conv d v -> Conv (SNewtypeStruct d) v
| CNewtypeVariant n d v : Conv d v -> Conv (SNewtypeVariant n d) (VMap [(KStr n, v)])
| CSeq l vs : Forall2 Conv l vs -> Conv (SSeq l) (VList vs)
| CTuple l vs : Forall2 Conv l vs -> Conv (STuple l) (VList vs)
| CTupleStruct l vs : Forall2 Conv l vs -> Conv (STupleStruct l) (VList vs)
| CTupleVariant n l vs : Forall2 Conv l vs -> Conv (STupleVariant n l) (VMap [(KStr n, VList vs)])
| CMap es kvs :
    Forall2 (fun kx kv => key_ser (fst kx) = Ok (fst kv) /\ Conv (snd kx) (snd kv)) es kvs ->
    Conv (SMap es) (VMap (set_all kvs []))
| CStruct fs kvs :
    Forall2 (fun nx kv => fst kv = KStr (fst nx) /\ Conv (snd nx) (snd kv)) fs kvs ->
    Conv (SStruct fs) (VMap (set_all kvs []))
| CStructVariant n fs kvs :
    Forall2 (fun nx kv => fst kv = KStr (fst nx) /\ Conv (snd nx) (snd kv)) fs kvs ->
    Conv (SStructVariant n fs) (VMap [(KStr n, VMap (set_all kvs []))])
| CDuration ns : Conv (SDuration ns) (VDur ns)
| CTimestamp ns off ns' off' :
    (* the wrapper travels as text with the offset written to the minute *)
    off' = (if off <? 0 then -1 else 1) * ((Z.abs off + 30) / 60 * 60) ->
    ns' + off' * 1000000000 = ns + off * 1000000000 ->
    Conv (STimestamp ns off) (VTs ns' off').

Lemma rev'_rev {A} (l : list A) : rev' l = rev l.
Proof. unfold rev'. now rewrite <- rev_alt. Qed.

Definition conv_ok (d : sdata) : Prop := forall v, to_value d = Ok v -> Conv d v.

Lemma bind_ok {A B} (o : outcome A) (f : A -> outcome B) b :
  obind o f = Ok b -> exists a, o = Ok a /\ f a = Ok b.
Proof. destruct o; cbn; [eauto|discriminate|discriminate]. Qed.

Lemma tv_seq_conv l : Forall conv_ok l -> forall acc vs, tv_seq l acc = Ok vs ->
  exists ws, vs = rev acc ++ ws /\ Forall2 Conv l ws.
Proof.
  induction 1 as [|x l Hx _ IH]; intros acc vs; cbn [tv_seq].
  - intros [= <-]. exists []. rewrite rev'_rev, app_nil_r. split; [reflexivity|constructor].
  - destruct (to_value x) as [v| |] eqn:E; try discriminate. intros H.
    destruct (IH _ _ H) as (ws & -> & Hws). exists (v :: ws). split.
    + cbn [rev]. now rewrite <- app_assoc.
    + constructor; [now apply Hx|exact Hws].
Qed.

Lemma set_all_app {B} (a b : list (key * B)) m : set_all (a ++ b) m = set_all b (set_all a m).
Proof. unfold set_all. now rewrite fold_left_app. Qed.

Lemma tv_fields_conv fs : Forall (fun nx => conv_ok (snd nx)) fs -> forall m m', tv_fields fs m = Ok m' ->
  exists kvs, m' = set_all kvs m /\
    Forall2 (fun nx kv => fst kv = KStr (fst nx) /\ Conv (snd nx) (snd kv)) fs kvs.
Proof.
  induction 1 as [|[n x] l Hx _ IH]; intros m m'; cbn [tv_fields].
  - intros [= <-]. exists []. split; [reflexivity|constructor].
  - cbn [snd] in Hx. destruct (to_value x) as [v| |] eqn:E; try discriminate. intros H.
    destruct (IH _ _ H) as (kvs & -> & Hk). exists ((KStr n, v) :: kvs). split; [reflexivity|].
    constructor; [split; [reflexivity|now apply Hx]|exact Hk].
Qed.

Lemma tv_map_conv es : Forall (fun kx => conv_ok (fst kx) /\ conv_ok (snd kx)) es -> forall m v, tv_map es m = Ok v ->
  exists kvs, v = VMap (set_all kvs m) /\
    Forall2 (fun kx kv => key_ser (fst kx) = Ok (fst kv) /\ Conv (snd kx) (snd kv)) es kvs.
Proof.
  induction 1 as [|[k x] l [_ Hx] _ IH]; intros m v; cbn [tv_map].
  - intros [= <-]. exists []. split; [reflexivity|constructor].
  - cbn [snd] in Hx. destruct (key_ser k) as [k'| |] eqn:Ek; try discriminate.
    destruct (to_value x) as [w| |] eqn:E; try discriminate. intros H.
    destruct (IH _ _ H) as (kvs & -> & Hk). exists ((k', w) :: kvs). split; [reflexivity|].
    constructor; [split; [exact Ek|now apply Hx]|exact Hk].
Qed.

Lemma ts_wrapper_conv ns off v : ts_wrapper ns off = Ok v -> Conv (STimestamp ns off) v.
Proof.
  unfold ts_wrapper. destruct (1440 <=? _); [discriminate|]. intros [= <-].
  apply CTimestamp; destruct (off <? 0); lia.
Qed.

Theorem to_value_conv d : conv_ok d.
Proof.
  induction d using sdata_ind'; unfold conv_ok in *; intros v.
  - destruct d; try discriminate; cbn [to_value]; try (intros [= <-]; constructor); try discriminate.
    apply ts_wrapper_conv.
  - cbn [to_value]. intros H. constructor. now apply IHd.
  - cbn [to_value]. intros H. constructor. now apply IHd.
  - cbn [to_value]. intros H. destruct (bind_ok _ _ _ H) as (x & Hx & [= <-]). constructor. now apply IHd.
  - rewrite to_value_seq. intros H0. destruct (bind_ok _ _ _ H0) as (vs & Hs & [= <-]).
    destruct (tv_seq_conv _ H _ _ Hs) as (ws & -> & Hw). now constructor.
  - rewrite to_value_tuple. intros H0. destruct (bind_ok _ _ _ H0) as (vs & Hs & [= <-]).
    destruct (tv_seq_conv _ H _ _ Hs) as (ws & -> & Hw). now constructor.
  - rewrite to_value_tuplestruct. intros H0. destruct (bind_ok _ _ _ H0) as (vs & Hs & [= <-]).
    destruct (tv_seq_conv _ H _ _ Hs) as (ws & -> & Hw). now constructor.
  - rewrite to_value_tuplevariant. intros H0. destruct (bind_ok _ _ _ H0) as (vs & Hs & [= <-]).
    destruct (tv_seq_conv _ H _ _ Hs) as (ws & -> & Hw). now constructor.
  - rewrite to_value_map. intros H0. destruct (tv_map_conv _ H _ _ H0) as (kvs & -> & Hk). now constructor.
  - rewrite to_value_struct. intros H0. destruct (bind_ok _ _ _ H0) as (m & Hs & [= <-]).
    destruct (tv_fields_conv _ H _ _ Hs) as (kvs & -> & Hk). now constructor.
  - rewrite to_value_structvariant. intros H0. destruct (bind_ok _ _ _ H0) as (m & Hs & [= <-]).
    destruct (tv_fields_conv _ H _ _ Hs) as (kvs & -> & Hk). now constructor.
Qed.

(** ** What [set_all] builds: a map with distinct keys in which the last binding of a key wins *)
Lemma key_eqb_eq a b : key_eqb a b = true <-> a = b.
Proof.
  destruct a, b; cbn [key_eqb]; try (split; [discriminate|intros [=]]).
  - rewrite Z.eqb_eq. split; [now intros ->|now intros [= ->]].
  - rewrite Z.eqb_eq. split; [now intros ->|now intros [= ->]].
  - rewrite Bool.eqb_true_iff. split; [now intros ->|now intros [= ->]].
  - rewrite str_eqb_eq. split; [now intros ->|now intros [= ->]].
Qed.
Lemma key_eqb_refl k : key_eqb k k = true.
Proof. now apply key_eqb_eq. Qed.

Lemma assoc_get_set {B} k k' (v : B) m :
  assoc_get k (assoc_set k' v m) = if key_eqb k k' then Some v else assoc_get k m.
Proof.
  induction m as [|[k2 v2] m IH]; cbn [assoc_set assoc_get]; [reflexivity|].
  destruct (key_eqb k' k2) eqn:E2; cbn [assoc_get].
  - apply key_eqb_eq in E2. subst k2. now destruct (key_eqb k k').
  - destruct (key_eqb k k2) eqn:E3; [|exact IH].
    destruct (key_eqb k k') eqn:E4; [|reflexivity].
    apply key_eqb_eq in E3, E4. subst. rewrite key_eqb_refl in E2. discriminate.
Qed.

Lemma assoc_get_app {B} k (a b : list (key * B)) :
  assoc_get k (a ++ b) = match assoc_get k a with Some v => Some v | None => assoc_get k b end.
Proof.
  induction a as [|[k2 v2] a IH]; cbn [app assoc_get]; [reflexivity|]. now destruct (key_eqb k k2).
Qed.

Lemma assoc_get_set_all {B} k (kvs : list (key * B)) : forall m,
  assoc_get k (set_all kvs m) =
  match assoc_get k (rev kvs) with Some v => Some v | None => assoc_get k m end.
Proof.
  induction kvs as [|[k2 v2] kvs IH]; intros m; [reflexivity|].
  change (set_all ((k2, v2) :: kvs) m) with (set_all kvs (assoc_set k2 v2 m)).
  rewrite IH. cbn [rev]. rewrite assoc_get_app, assoc_get_set. cbn [assoc_get].
  destruct (assoc_get k (rev kvs)); [reflexivity|]. now destruct (key_eqb k k2).
Qed.

Lemma assoc_set_keys {B} k (v : B) m k' :
  In k' (map fst (assoc_set k v m)) <-> k' = k \/ In k' (map fst m).
Proof.
  induction m as [|[k2 v2] m IH]; cbn [assoc_set map fst In].
  - intuition.
  - destruct (key_eqb k k2) eqn:E; cbn [map fst In].
    + apply key_eqb_eq in E. subst k2. intuition.
    + rewrite IH. intuition.
Qed.

Lemma assoc_set_nodup {B} k (v : B) m : NoDup (map fst m) -> NoDup (map fst (assoc_set k v m)).
Proof.
  induction m as [|[k2 v2] m IH]; cbn [assoc_set map fst]; intros H.
  - constructor; [intros []|constructor].
  - inversion H as [|? ? Hn Hd]; subst. destruct (key_eqb k k2) eqn:E; cbn [map fst].
    + apply key_eqb_eq in E. subst k2. now constructor.
    + constructor; [|now apply IH]. rewrite assoc_set_keys. intros [->|Hin]; [|contradiction].
      rewrite key_eqb_refl in E. discriminate.
Qed.

Theorem set_all_semantics {B} (kvs : list (key * B)) :
  NoDup (map fst (set_all kvs [])) /\
  (forall k, assoc_get k (set_all kvs []) = assoc_get k (rev kvs)) /\
  (forall k, In k (map fst (set_all kvs [])) <-> In k (map fst kvs)).
Proof.
  split; [|split].
  - assert (G : forall m : list (key * B), NoDup (map fst m) -> NoDup (map fst (set_all kvs m))).
    { induction kvs as [|[k v] kvs IH]; intros m H; [exact H|]. apply IH. now apply assoc_set_nodup. }
    apply G. constructor.
  - intros k. rewrite assoc_get_set_all. now destruct (assoc_get k (rev kvs)).
  - intros k.
    assert (G : forall m : list (key * B), In k (map fst (set_all kvs m)) <-> In k (map fst kvs) \/ In k (map fst m)).
    { induction kvs as [|[k2 v2] kvs IH]; intros m; [cbn; intuition|].
      change (set_all ((k2, v2) :: kvs) m) with (set_all kvs (assoc_set k2 v2 m)).
      rewrite IH, assoc_set_keys. cbn [map fst In]. intuition. }
    rewrite G. cbn. intuition.
Qed.

(** ** Keys *)
Theorem key_ser_kinds d :
  match d with
  | SBool b => key_ser d = Ok (KBool b)
  | SInt z => key_ser d = Ok (KInt z)
  | SUint z => key_ser d = Ok (KUint z)
  | SChar c => key_ser d = Ok (KStr [c])
  | SStr s => key_ser d = Ok (KStr s)
  | SUnitVariant n => key_ser d = Ok (KStr n)
  | SSome d' | SNewtypeStruct d' => key_ser d = key_ser d'
  | STimestamp _ _ => key_ser d = Err EOracle
  | _ => key_ser d = Err EInvalid
  end.
Proof. destruct d; reflexivity. Qed.

Lemma key_okb_ser d : key_okb d = true <-> exists k, key_ser d = Ok k.
Proof.
  induction d using sdata_ind'; try (destruct d; try discriminate; cbn [key_okb key_ser];
    (split; [intros _; eauto|reflexivity]) || (split; [discriminate|intros [k [=]]])).
  1, 2: exact IHd.
  all: cbn; split; [discriminate|intros [k [=]]].
Qed.

(** A map converts only if every key is of a supported kind. *)
Theorem map_keys_supported es v : to_value (SMap es) = Ok v ->
  Forall (fun kx => key_okb (fst kx) = true) es.
Proof.
  rewrite to_value_map. generalize (@nil (key * value)) as m. revert v.
  induction es as [|[k x] es IH]; intros v m; cbn [tv_map]; [constructor|].
  destruct (key_ser k) as [k'| |] eqn:Ek; try discriminate.
  destruct (to_value x); try discriminate. intros H. constructor; [|now apply (IH v _ H)].
  apply key_okb_ser. eauto.
Qed.

(** ** Supported data converts *)
Definition total_ok (d : sdata) : Prop := supported d = true -> exists v, to_value d = Ok v.

Lemma tv_seq_total l : Forall total_ok l -> forallb supported l = true -> forall acc, exists vs, tv_seq l acc = Ok vs.
Proof.
  induction 1 as [|x l Hx _ IH]; cbn [forallb tv_seq]; intros Hs acc; [eauto|].
  apply andb_prop in Hs as [H1 H2]. destruct (Hx H1) as [v ->]. now apply IH.
Qed.
Lemma tv_fields_total fs : Forall (fun nx => total_ok (snd nx)) fs ->
  forallb (fun nx => match nx with (_, x) => supported x end) fs = true -> forall m, exists m', tv_fields fs m = Ok m'.
Proof.
  induction 1 as [|[n x] l Hx _ IH]; cbn [forallb tv_fields]; intros Hs m; [eauto|]. cbn [snd] in Hx.
  apply andb_prop in Hs as [H1 H2]. destruct (Hx H1) as [v ->]. now apply IH.
Qed.
Lemma tv_map_total es : Forall (fun kx => total_ok (fst kx) /\ total_ok (snd kx)) es ->
  forallb (fun kx => match kx with (k, x) => key_okb k && supported x end) es = true ->
  forall m, exists v, tv_map es m = Ok v.
Proof.
  induction 1 as [|[k x] l [_ Hx] _ IH]; cbn [forallb tv_map]; intros Hs m; [eauto|]. cbn [snd] in Hx.
  apply andb_prop in Hs as [H1 H2]. apply andb_prop in H1 as [H0 H1].
  apply key_okb_ser in H0 as [k' ->]. destruct (Hx H1) as [v ->]. now apply IH.
Qed.

Theorem supported_total d : total_ok d.
Proof.
  induction d using sdata_ind'; unfold total_ok in *; cbn [supported].
  - destruct d; try discriminate; cbn [to_value supported]; eauto; try discriminate.
    unfold ts_wrapper. intros Hoff. replace (1440 <=? (Z.abs off + 30) / 60) with false by lia. eauto.
  - exact IHd.
  - exact IHd.
  - intros Hs. cbn [to_value]. destruct (IHd Hs) as [v ->]. cbn. eauto.
  - intros Hs. rewrite to_value_seq. destruct (tv_seq_total _ H Hs []) as [vs ->]. cbn. eauto.
  - intros Hs. rewrite to_value_tuple. destruct (tv_seq_total _ H Hs []) as [vs ->]. cbn. eauto.
  - intros Hs. rewrite to_value_tuplestruct. destruct (tv_seq_total _ H Hs []) as [vs ->]. cbn. eauto.
  - intros Hs. rewrite to_value_tuplevariant. destruct (tv_seq_total _ H Hs []) as [vs ->]. cbn. eauto.
  - intros Hs. rewrite to_value_map. now apply tv_map_total.
  - intros Hs. rewrite to_value_struct. destruct (tv_fields_total _ H Hs []) as [m ->]. cbn. eauto.
  - intros Hs. rewrite to_value_structvariant. destruct (tv_fields_total _ H Hs []) as [m ->]. cbn. eauto.
Qed.
