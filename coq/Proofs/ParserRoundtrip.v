(** C04: parsing the minimal-parenthesis rendering of an operator tree gives back the tree. *)
From Coq Require Import String Ascii.
From Cel.Model Require Import Surface.
From Coq Require Import Lia Arith.
Open Scope nat_scope.

(** ** "For all sufficiently large fuel" *)
Definition ev {A} (p : nat -> pres A) (r : pres A) : Prop := exists n, forall f, n <= f -> p f = r.

Lemma ev_const {A} (r : pres A) : ev (fun _ => r) r.
Proof. exists 0. reflexivity. Qed.

(** what may follow an expression parsed at level [l]: no operator of that level or tighter,
    and nothing that would extend a primary *)
Definition starter (t : tk) : bool :=
  match t with TDot | TLBracket | TLParen | TLBrace => true | _ => false end.
Definition op_level (t : tk) : option nat :=
  match t with
  | TQuestion => Some 0 | TOrOr => Some 1 | TAndAnd => Some 2
  | TLt | TLe | TGe | TGt | TEq | TNe | TIn => Some 3
  | TPlus | TMinus => Some 4
  | TStar | TSlash | TPercent => Some 5
  | _ => None
  end.
Definition stops (l : nat) (rest : list tk) : Prop :=
  match rest with
  | [] => True
  | t :: _ => starter t = false /\ match op_level t with Some k => k < l | None => True end
  end.

Lemma stops_le l l' rest : l <= l' -> stops l rest -> stops l' rest.
Proof.
  intros H. destruct rest as [|t r]; [auto|]. cbn. intros [S1 S2]. split; [exact S1|].
  destruct (op_level t); [lia|exact I].
Qed.

(** ** One-step unfoldings *)
Lemma u_expr f ts : p_expr (S f) ts =
  match p_or f ts with
  | POk c (TQuestion :: ts1) =>
      match p_or f ts1 with
      | POk a (TColon :: ts2) =>
          match p_expr f ts2 with
          | POk b ts3 => POk (ECall op_conditional None [c; a; b]) ts3
          | PFail => PFail | PFuel => PFuel
          end
      | POk _ _ => PFail | PFail => PFail | PFuel => PFuel
      end
  | r => r
  end.
Proof. reflexivity. Qed.
Lemma u_or f ts : p_or (S f) ts = match p_and f ts with POk t ts1 => p_or_loop f [t] ts1 | r => r end.
Proof. reflexivity. Qed.
Lemma u_or_loop f acc ts : p_or_loop (S f) acc ts =
  match ts with
  | TOrOr :: ts1 => match p_and f ts1 with POk t ts2 => p_or_loop f (t :: acc) ts2 | r => r end
  | _ => POk (logic_tree $"_||_" (rev' acc)) ts
  end.
Proof. reflexivity. Qed.
Lemma u_and f ts : p_and (S f) ts = match p_rel f ts with POk t ts1 => p_and_loop f [t] ts1 | r => r end.
Proof. reflexivity. Qed.
Lemma u_and_loop f acc ts : p_and_loop (S f) acc ts =
  match ts with
  | TAndAnd :: ts1 => match p_rel f ts1 with POk t ts2 => p_and_loop f (t :: acc) ts2 | r => r end
  | _ => POk (logic_tree $"_&&_" (rev' acc)) ts
  end.
Proof. reflexivity. Qed.
Lemma u_rel f ts : p_rel (S f) ts = match p_add f ts with POk l ts1 => p_rel_loop f l ts1 | r => r end.
Proof. reflexivity. Qed.
Lemma u_rel_loop f lhs ts : p_rel_loop (S f) lhs ts =
  match ts with
  | op :: ts1 => match relop_name op with
                 | Some name => match p_add f ts1 with
                                | POk r ts2 => p_rel_loop f (ECall name None [lhs; r]) ts2
                                | x => x
                                end
                 | None => POk lhs ts
                 end
  | [] => POk lhs ts
  end.
Proof. reflexivity. Qed.
Lemma u_add f ts : p_add (S f) ts = match p_mul f ts with POk l ts1 => p_add_loop f l ts1 | r => r end.
Proof. reflexivity. Qed.
Lemma u_add_loop f lhs ts : p_add_loop (S f) lhs ts =
  match ts with
  | op :: ts1 => match addop_name op with
                 | Some name => match p_mul f ts1 with
                                | POk r ts2 => p_add_loop f (ECall name None [lhs; r]) ts2
                                | x => x
                                end
                 | None => POk lhs ts
                 end
  | [] => POk lhs ts
  end.
Proof. reflexivity. Qed.
Lemma u_mul f ts : p_mul (S f) ts = match p_unary f ts with POk l ts1 => p_mul_loop f l ts1 | r => r end.
Proof. reflexivity. Qed.
Lemma u_mul_loop f lhs ts : p_mul_loop (S f) lhs ts =
  match ts with
  | op :: ts1 => match mulop_name op with
                 | Some name => match p_unary f ts1 with
                                | POk r ts2 => p_mul_loop f (ECall name None [lhs; r]) ts2
                                | x => x
                                end
                 | None => POk lhs ts
                 end
  | [] => POk lhs ts
  end.
Proof. reflexivity. Qed.
Lemma u_member f ts : p_member (S f) ts = match p_primary f ts with POk p ts1 => p_postfix f p ts1 | r => r end.
Proof. reflexivity. Qed.

(** ** Primaries, postfix, member *)
Lemma prim_id f x rest : stops 7 rest -> p_primary (S f) (TIdent x :: rest) = POk (EIdent x) rest.
Proof.
  intros Hs. destruct rest as [|t r]; [reflexivity|]. destruct Hs as [Hs _].
  destruct t; try discriminate; reflexivity.
Qed.

Lemma postfix_stop f e rest : stops 7 rest -> p_postfix (S f) e rest = POk e rest.
Proof.
  intros Hs. destruct rest as [|t r]; [reflexivity|]. destruct Hs as [Hs _].
  destruct t; try discriminate; reflexivity.
Qed.

Lemma member_id x rest : stops 7 rest -> ev (fun f => p_member f (TIdent x :: rest)) (POk (EIdent x) rest).
Proof.
  intros Hs. exists 2. intros [|[|f]] Hf; try lia. rewrite u_member, prim_id by exact Hs. now apply postfix_stop.
Qed.

Lemma u_prim_paren f ts1 : p_primary (S f) (TLParen :: ts1) =
  match p_expr f ts1 with
  | POk e (TRParen :: ts2) => POk e ts2
  | POk _ _ => PFail
  | r => r
  end.
Proof. reflexivity. Qed.

Lemma member_paren ts e rest : stops 7 rest ->
  ev (fun f => p_expr f (ts ++ TRParen :: rest)) (POk e (TRParen :: rest)) ->
  ev (fun f => p_member f (TLParen :: ts ++ TRParen :: rest)) (POk e rest).
Proof.
  intros Hs [n H]. exists (S (S n)). intros [|[|f]] Hf; try lia.
  rewrite u_member, u_prim_paren, H by lia. now apply postfix_stop.
Qed.

(** ** Levels that only pass an expression of a tighter level through *)
Lemma head_not {A} (P : tk -> bool) (rest : list tk) (a b : A) :
  match rest with [] => True | t :: _ => P t = false end ->
  (match rest with t :: _ => if P t then a else b | [] => b end) = b.
Proof. destruct rest as [|t r]; [reflexivity|]. now intros ->. Qed.

Lemma pass_unary t0 ts e rest :
  match t0 with TBang | TMinus => False | _ => True end ->
  ev (fun f => p_member f ((t0 :: ts) ++ rest)) (POk e rest) -> ev (fun f => p_unary f ((t0 :: ts) ++ rest)) (POk e rest).
Proof.
  intros Hh [n H]. exists (S n). intros [|f] Hf; [lia|].
  replace (p_unary (S f) ((t0 :: ts) ++ rest)) with (p_member f ((t0 :: ts) ++ rest)); [apply H; lia|].
  cbn [app]. destruct t0; try contradiction; reflexivity.
Qed.

Lemma mul_loop_stop f lhs rest : stops 5 rest -> p_mul_loop (S f) lhs rest = POk lhs rest.
Proof.
  intros Hs. rewrite u_mul_loop. destruct rest as [|t r]; [reflexivity|]. destruct Hs as [_ Hs].
  destruct t; cbn in Hs; try lia; reflexivity.
Qed.
Lemma add_loop_stop f lhs rest : stops 4 rest -> p_add_loop (S f) lhs rest = POk lhs rest.
Proof.
  intros Hs. rewrite u_add_loop. destruct rest as [|t r]; [reflexivity|]. destruct Hs as [_ Hs].
  destruct t; cbn in Hs; try lia; reflexivity.
Qed.
Lemma rel_loop_stop f lhs rest : stops 3 rest -> p_rel_loop (S f) lhs rest = POk lhs rest.
Proof.
  intros Hs. rewrite u_rel_loop. destruct rest as [|t r]; [reflexivity|]. destruct Hs as [_ Hs].
  destruct t; cbn in Hs; try lia; reflexivity.
Qed.
Lemma and_loop_stop f acc rest : stops 2 rest -> p_and_loop (S f) acc rest = POk (logic_tree $"_&&_" (rev' acc)) rest.
Proof.
  intros Hs. rewrite u_and_loop. destruct rest as [|t r]; [reflexivity|]. destruct Hs as [_ Hs].
  destruct t; cbn in Hs; try lia; reflexivity.
Qed.
Lemma or_loop_stop f acc rest : stops 1 rest -> p_or_loop (S f) acc rest = POk (logic_tree $"_||_" (rev' acc)) rest.
Proof.
  intros Hs. rewrite u_or_loop. destruct rest as [|t r]; [reflexivity|]. destruct Hs as [_ Hs].
  destruct t; cbn in Hs; try lia; reflexivity.
Qed.

Lemma pass_mul ts e rest : stops 5 rest ->
  ev (fun f => p_unary f (ts ++ rest)) (POk e rest) -> ev (fun f => p_mul f (ts ++ rest)) (POk e rest).
Proof.
  intros Hs [n H]. exists (S (S n)). intros [|[|f]] Hf; try lia. rewrite u_mul, H by lia. now apply mul_loop_stop.
Qed.
Lemma pass_add ts e rest : stops 4 rest ->
  ev (fun f => p_mul f (ts ++ rest)) (POk e rest) -> ev (fun f => p_add f (ts ++ rest)) (POk e rest).
Proof.
  intros Hs [n H]. exists (S (S n)). intros [|[|f]] Hf; try lia. rewrite u_add, H by lia. now apply add_loop_stop.
Qed.
Lemma pass_rel ts e rest : stops 3 rest ->
  ev (fun f => p_add f (ts ++ rest)) (POk e rest) -> ev (fun f => p_rel f (ts ++ rest)) (POk e rest).
Proof.
  intros Hs [n H]. exists (S (S n)). intros [|[|f]] Hf; try lia. rewrite u_rel, H by lia. now apply rel_loop_stop.
Qed.
Lemma pass_and ts e rest : stops 2 rest ->
  ev (fun f => p_rel f (ts ++ rest)) (POk e rest) -> ev (fun f => p_and f (ts ++ rest)) (POk e rest).
Proof.
  intros Hs [n H]. exists (S (S n)). intros [|[|f]] Hf; try lia. rewrite u_and, H by lia.
  now rewrite and_loop_stop.
Qed.
Lemma pass_or ts e rest : stops 1 rest ->
  ev (fun f => p_and f (ts ++ rest)) (POk e rest) -> ev (fun f => p_or f (ts ++ rest)) (POk e rest).
Proof.
  intros Hs [n H]. exists (S (S n)). intros [|[|f]] Hf; try lia. rewrite u_or, H by lia.
  now rewrite or_loop_stop.
Qed.
Lemma pass_expr ts e rest : stops 0 rest ->
  ev (fun f => p_or f (ts ++ rest)) (POk e rest) -> ev (fun f => p_expr f (ts ++ rest)) (POk e rest).
Proof.
  intros Hs [n H]. exists (S n). intros [|f] Hf; try lia. rewrite u_expr, H by lia.
  destruct rest as [|t r]; [reflexivity|]. destruct Hs as [_ Hs]. destruct t; cbn in Hs; try lia; reflexivity.
Qed.

Definition p_at (l : nat) : nat -> list tk -> pres expr :=
  match l with
  | 0 => p_expr | 1 => p_or | 2 => p_and | 3 => p_rel | 4 => p_add | 5 => p_mul | 6 => p_unary | _ => p_member
  end.

Definition plain_head (ts : list tk) : Prop :=
  match ts with TBang :: _ | TMinus :: _ | [] => False | _ => True end.

(** an expression parsed at a tighter level [p] is parsed, with the same result, at every
    looser level [l], provided what follows cannot extend it there *)
Lemma down p l ts e rest : l <= p -> p <= 7 -> (p = 7 -> l <= 6 -> plain_head ts) -> stops l rest ->
  ev (fun f => p_at p f (ts ++ rest)) (POk e rest) -> ev (fun f => p_at l f (ts ++ rest)) (POk e rest).
Proof.
  intros Hlp Hp Hh Hs H.
  assert (S7 : stops 7 rest) by (eapply stops_le; [|exact Hs]; lia).
  assert (Step6 : 6 <= p -> l <= 6 -> ev (fun f => p_unary f (ts ++ rest)) (POk e rest)).
  { intros H6 Hl6. destruct (Nat.eq_dec p 6) as [->|Hn]; [exact H|]. assert (p = 7) by lia. subst p.
    specialize (Hh eq_refl Hl6). destruct ts as [|t0 ts']; [contradiction|].
    apply pass_unary; [destruct t0; try contradiction; exact I|exact H]. }
  assert (Step5 : 5 <= p -> l <= 5 -> ev (fun f => p_mul f (ts ++ rest)) (POk e rest)).
  { intros H5 Hl5. destruct (Nat.eq_dec p 5) as [->|Hn]; [exact H|].
    apply pass_mul; [eapply stops_le; [|exact Hs]; lia|apply Step6; lia]. }
  assert (Step4 : 4 <= p -> l <= 4 -> ev (fun f => p_add f (ts ++ rest)) (POk e rest)).
  { intros H4 Hl4. destruct (Nat.eq_dec p 4) as [->|Hn]; [exact H|].
    apply pass_add; [eapply stops_le; [|exact Hs]; lia|apply Step5; lia]. }
  assert (Step3 : 3 <= p -> l <= 3 -> ev (fun f => p_rel f (ts ++ rest)) (POk e rest)).
  { intros H3 Hl3. destruct (Nat.eq_dec p 3) as [->|Hn]; [exact H|].
    apply pass_rel; [eapply stops_le; [|exact Hs]; lia|apply Step4; lia]. }
  assert (Step2 : 2 <= p -> l <= 2 -> ev (fun f => p_and f (ts ++ rest)) (POk e rest)).
  { intros H2 Hl2. destruct (Nat.eq_dec p 2) as [->|Hn]; [exact H|].
    apply pass_and; [eapply stops_le; [|exact Hs]; lia|apply Step3; lia]. }
  assert (Step1 : 1 <= p -> l <= 1 -> ev (fun f => p_or f (ts ++ rest)) (POk e rest)).
  { intros H1 Hl1. destruct (Nat.eq_dec p 1) as [->|Hn]; [exact H|].
    apply pass_or; [eapply stops_le; [|exact Hs]; lia|apply Step2; lia]. }
  assert (Step0 : l = 0 -> ev (fun f => p_expr f (ts ++ rest)) (POk e rest)).
  { intros ->. destruct (Nat.eq_dec p 0) as [->|Hn]; [exact H|].
    apply pass_expr; [exact Hs|apply Step1; lia]. }
  destruct l as [|[|[|[|[|[|[|l]]]]]]]; cbn [p_at].
  - now apply Step0.
  - apply Step1; lia.
  - apply Step2; lia.
  - apply Step3; lia.
  - apply Step4; lia.
  - apply Step5; lia.
  - apply Step6; lia.
  - assert (p = 7) by lia. subst p. exact H.
Qed.

(** ** Induction principle *)
Section StInd.
  Variable P : st -> Prop.
  Hypothesis Hid : forall x, P (SId x).
  Hypothesis Hnot : forall n a, P a -> P (SNot n a).
  Hypothesis Hneg : forall n a, P a -> P (SNeg n a).
  Hypothesis Hmul : forall op a b, P a -> P b -> P (SMul op a b).
  Hypothesis Hadd : forall op a b, P a -> P b -> P (SAdd op a b).
  Hypothesis Hrel : forall op a b, P a -> P b -> P (SRel op a b).
  Hypothesis Hand : forall a rs, P a -> Forall P rs -> P (SAnd a rs).
  Hypothesis Hor : forall a rs, P a -> Forall P rs -> P (SOr a rs).
  Hypothesis Hcond : forall c a b, P c -> P a -> P b -> P (SCond c a b).
  Hypothesis Hparen : forall a, P a -> P (SParen a).
  Fixpoint st_ind' (t : st) : P t :=
    let many := (fix go (l : list st) : Forall P l :=
                   match l with [] => Forall_nil _ | r :: l' => Forall_cons _ (st_ind' r) (go l') end) in
    match t with
    | SId x => Hid x
    | SNot n a => Hnot n a (st_ind' a)
    | SNeg n a => Hneg n a (st_ind' a)
    | SMul op a b => Hmul op a b (st_ind' a) (st_ind' b)
    | SAdd op a b => Hadd op a b (st_ind' a) (st_ind' b)
    | SRel op a b => Hrel op a b (st_ind' a) (st_ind' b)
    | SAnd a rs => Hand a rs (st_ind' a) (many rs)
    | SOr a rs => Hor a rs (st_ind' a) (many rs)
    | SCond c a b => Hcond c a b (st_ind' c) (st_ind' a) (st_ind' b)
    | SParen a => Hparen a (st_ind' a)
    end.
End StInd.

(** ** The statements *)
Definition Par (t : st) : Prop :=
  forall l, l <= 7 -> forall rest, stops l rest ->
  ev (fun f => p_at l f (tk_at l t ++ rest)) (POk (ast t) rest).

Definition Kmul (t : st) : Prop := forall R X, stops 6 R ->
  ev (fun f => p_mul_loop f (ast t) R) X -> ev (fun f => p_mul f (tk_at 5 t ++ R)) X.
Definition Kadd (t : st) : Prop := forall R X, stops 5 R ->
  ev (fun f => p_add_loop f (ast t) R) X -> ev (fun f => p_add f (tk_at 4 t ++ R)) X.
Definition Krel (t : st) : Prop := forall R X, stops 4 R ->
  ev (fun f => p_rel_loop f (ast t) R) X -> ev (fun f => p_rel f (tk_at 3 t ++ R)) X.

(** unfolded forms of [raw] *)
Lemma raw_and a rs : raw (SAnd a rs) = tk_at 3 a ++ flat_map (fun r => TAndAnd :: tk_at 3 r) rs.
Proof.
  cbn [raw]. change (if 3 <=? prec a then raw a else TLParen :: raw a ++ [TRParen]) with (tk_at 3 a).
  apply f_equal. induction rs as [|r rs IH]; [reflexivity|]. cbn [flat_map app]. rewrite <- IH. reflexivity.
Qed.
Lemma raw_or a rs : raw (SOr a rs) = tk_at 2 a ++ flat_map (fun r => TOrOr :: tk_at 2 r) rs.
Proof.
  cbn [raw]. change (if 2 <=? prec a then raw a else TLParen :: raw a ++ [TRParen]) with (tk_at 2 a).
  apply f_equal. induction rs as [|r rs IH]; [reflexivity|]. cbn [flat_map app]. rewrite <- IH. reflexivity.
Qed.
Lemma ast_and a rs : ast (SAnd a rs) = logic_tree $"_&&_" (ast a :: map ast rs).
Proof.
  cbn [ast]. apply f_equal. apply f_equal. induction rs as [|r rs IH]; [reflexivity|]. cbn [map]. rewrite <- IH. reflexivity.
Qed.
Lemma ast_or a rs : ast (SOr a rs) = logic_tree $"_||_" (ast a :: map ast rs).
Proof.
  cbn [ast]. apply f_equal. apply f_equal. induction rs as [|r rs IH]; [reflexivity|]. cbn [map]. rewrite <- IH. reflexivity.
Qed.

Lemma tk7_head t : plain_head (tk_at 7 t).
Proof. unfold tk_at. destruct t; cbn; exact I. Qed.

Lemma tk_raw l t : l <= prec t -> tk_at l t = raw t.
Proof. intros H. unfold tk_at. destruct (Nat.leb_spec l (prec t)); [reflexivity|lia]. Qed.
Lemma tk_paren l t : prec t < l -> tk_at l t = TLParen :: raw t ++ [TRParen].
Proof. intros H. unfold tk_at. destruct (Nat.leb_spec l (prec t)); [lia|reflexivity]. Qed.

(** parenthesised occurrences, given the parse at level 0 *)
Lemma par_paren t : (forall rest, stops 0 rest -> ev (fun f => p_expr f (raw t ++ rest)) (POk (ast t) rest)) ->
  forall l, l <= 7 -> prec t < l -> forall rest, stops l rest ->
  ev (fun f => p_at l f (tk_at l t ++ rest)) (POk (ast t) rest).
Proof.
  intros H0 l Hl Hp rest Hs. rewrite (tk_paren l t Hp).
  assert (S7 : stops 7 rest) by (eapply stops_le; [|exact Hs]; lia).
  assert (M : ev (fun f => p_member f ((TLParen :: raw t ++ [TRParen]) ++ rest)) (POk (ast t) rest)).
  { cbn [app]. rewrite <- app_assoc. cbn [app]. apply member_paren; [exact S7|]. apply H0. cbn. auto. }
  apply (down 7 l _ _ _ Hl (le_n 7)); [intros _ _; exact I|exact Hs|exact M].
Qed.

(** from the parse at the tree's own level to every level *)
Lemma par_all t : (forall rest, stops (prec t) rest ->
                     ev (fun f => p_at (prec t) f (raw t ++ rest)) (POk (ast t) rest)) ->
  (prec t = 7 -> plain_head (raw t)) -> Par t.
Proof.
  intros Hown Hh.
  assert (Hlow : forall l, l <= prec t -> forall rest, stops l rest ->
                 ev (fun f => p_at l f (raw t ++ rest)) (POk (ast t) rest)).
  { intros l Hl rest Hs. apply (down (prec t) l); auto.
    - destruct t; cbn; lia.
    - eapply Hown, stops_le; [|exact Hs]; exact Hl. }
  intros l Hl rest Hs. destruct (Nat.le_gt_cases l (prec t)) as [H|H].
  - rewrite (tk_raw l t H). now apply Hlow.
  - apply par_paren; auto. intros r Hr. apply (Hlow 0); [lia|exact Hr].
Qed.

Lemma rev'_rev {A} (l : list A) : rev' l = rev l.
Proof. unfold rev'. now rewrite <- rev_alt. Qed.

Lemma stops_chain (tk0 : tk) l (f : st -> list tk) rs rest :
  starter tk0 = false -> (match op_level tk0 with Some k => k < l | None => True end) ->
  stops l rest -> stops l (flat_map (fun r => tk0 :: f r) rs ++ rest).
Proof. intros H1 H2 Hs. destruct rs as [|r rs]; [exact Hs|]. cbn. auto. Qed.

Lemma and_chain rs : Forall Par rs -> forall acc rest, stops 2 rest ->
  ev (fun f => p_and_loop f acc (flat_map (fun r => TAndAnd :: tk_at 3 r) rs ++ rest))
     (POk (logic_tree $"_&&_" (rev' (rev (map ast rs) ++ acc))) rest).
Proof.
  induction 1 as [|r rs Hr _ IH]; intros acc rest Hs.
  - exists 1. intros [|f] Hf; [lia|]. cbn [flat_map map rev app]. now apply and_loop_stop.
  - cbn [flat_map app]. rewrite <- app_assoc.
    assert (S3 : stops 3 (flat_map (fun r0 => TAndAnd :: tk_at 3 r0) rs ++ rest)).
    { apply stops_chain; [reflexivity|cbn; lia|eapply stops_le; [|exact Hs]; lia]. }
    destruct (Hr 3 ltac:(lia) _ S3) as [n1 H1]. destruct (IH (ast r :: acc) rest Hs) as [n2 H2].
    exists (S (max n1 n2)). intros [|f] Hf; [lia|]. rewrite u_and_loop. cbn [p_at] in H1. rewrite H1 by lia.
    rewrite H2 by lia. cbn [map rev]. now rewrite <- app_assoc.
Qed.

Lemma or_chain rs : Forall Par rs -> forall acc rest, stops 1 rest ->
  ev (fun f => p_or_loop f acc (flat_map (fun r => TOrOr :: tk_at 2 r) rs ++ rest))
     (POk (logic_tree $"_||_" (rev' (rev (map ast rs) ++ acc))) rest).
Proof.
  induction 1 as [|r rs Hr _ IH]; intros acc rest Hs.
  - exists 1. intros [|f] Hf; [lia|]. cbn [flat_map map rev app]. now apply or_loop_stop.
  - cbn [flat_map app]. rewrite <- app_assoc.
    assert (S2 : stops 2 (flat_map (fun r0 => TOrOr :: tk_at 2 r0) rs ++ rest)).
    { apply stops_chain; [reflexivity|cbn; lia|eapply stops_le; [|exact Hs]; lia]. }
    destruct (Hr 2 ltac:(lia) _ S2) as [n1 H1]. destruct (IH (ast r :: acc) rest Hs) as [n2 H2].
    exists (S (max n1 n2)). intros [|f] Hf; [lia|]. rewrite u_or_loop. cbn [p_at] in H1. rewrite H1 by lia.
    rewrite H2 by lia. cbn [map rev]. now rewrite <- app_assoc.
Qed.

(** the prefix-operator runs *)
Lemma count_bangs n ts : match ts with TBang :: _ => False | _ => True end ->
  count_prefix is_bang (repeat TBang n ++ ts) = (n, ts).
Proof.
  intros H. induction n as [|n IH]; cbn [repeat app count_prefix is_bang].
  - destruct ts as [|t r]; [reflexivity|]. cbn [count_prefix]. destruct t; try contradiction; reflexivity.
  - now rewrite IH.
Qed.
Lemma count_minus n ts : match ts with TMinus :: _ => False | _ => True end ->
  count_prefix is_minus (repeat TMinus n ++ ts) = (n, ts).
Proof.
  intros H. induction n as [|n IH]; cbn [repeat app count_prefix is_minus].
  - destruct ts as [|t r]; [reflexivity|]. cbn [count_prefix]. destruct t; try contradiction; reflexivity.
  - now rewrite IH.
Qed.

Lemma u_unary_bang f ts : p_unary (S f) (TBang :: ts) =
  let '(n, ts1) := count_prefix is_bang (TBang :: ts) in
  match p_member f ts1 with
  | POk m ts2 => POk (if Nat.odd n then ECall $"!_" None [m] else m) ts2
  | r => r
  end.
Proof. reflexivity. Qed.
Lemma u_unary_minus f ts0 : p_unary (S f) (TMinus :: ts0) =
  if is_number_tok ts0 then p_member f (TMinus :: ts0)
  else let '(n, ts1) := count_prefix is_minus (TMinus :: ts0) in
       match p_member f ts1 with
       | POk m ts2 => POk (if Nat.odd n then ECall $"-_" None [m] else m) ts2
       | r => r
       end.
Proof. reflexivity. Qed.

Lemma tk7_not_bang t rest : match tk_at 7 t ++ rest with TBang :: _ => False | _ => True end.
Proof. pose proof (tk7_head t) as H. destruct (tk_at 7 t) as [|t0 r]; [contradiction|]. cbn [app]. destruct t0; auto. Qed.
Lemma tk7_not_minus t rest : match tk_at 7 t ++ rest with TMinus :: _ => False | _ => True end.
Proof. pose proof (tk7_head t) as H. destruct (tk_at 7 t) as [|t0 r]; [contradiction|]. cbn [app]. destruct t0; auto. Qed.
Lemma tk7_shape t : (exists x, tk_at 7 t = [TIdent x]) \/ (exists r, tk_at 7 t = TLParen :: r).
Proof. unfold tk_at. destruct t; cbn; eauto. Qed.
Lemma tk7_not_number n t rest : is_number_tok (repeat TMinus n ++ tk_at 7 t ++ rest) = false.
Proof.
  destruct n; cbn [repeat app]; [|reflexivity].
  destruct (tk7_shape t) as [[x ->]|[r ->]]; reflexivity.
Qed.

Lemma tk_at_skip l t : prec t <> l -> tk_at l t = tk_at (S l) t.
Proof.
  intros H. unfold tk_at. destruct (Nat.leb_spec l (prec t)), (Nat.leb_spec (S l) (prec t)); try reflexivity; lia.
Qed.

Lemma Kmul_from_par t : prec t <> 5 -> Par t -> Kmul t.
Proof.
  intros Hp HP R X Hs [n2 H2]. rewrite (tk_at_skip 5 t Hp).
  destruct (HP 6 ltac:(lia) R Hs) as [n1 H1]. cbn [p_at] in H1.
  exists (S (max n1 n2)). intros [|f] Hf; [lia|]. rewrite u_mul, H1 by lia. apply H2. lia.
Qed.
Lemma Kadd_from_par t : prec t <> 4 -> Par t -> Kadd t.
Proof.
  intros Hp HP R X Hs [n2 H2]. rewrite (tk_at_skip 4 t Hp).
  destruct (HP 5 ltac:(lia) R Hs) as [n1 H1]. cbn [p_at] in H1.
  exists (S (max n1 n2)). intros [|f] Hf; [lia|]. rewrite u_add, H1 by lia. apply H2. lia.
Qed.
Lemma Krel_from_par t : prec t <> 3 -> Par t -> Krel t.
Proof.
  intros Hp HP R X Hs [n2 H2]. rewrite (tk_at_skip 3 t Hp).
  destruct (HP 4 ltac:(lia) R Hs) as [n1 H1]. cbn [p_at] in H1.
  exists (S (max n1 n2)). intros [|f] Hf; [lia|]. rewrite u_rel, H1 by lia. apply H2. lia.
Qed.

Lemma stops_op l op rest : starter op = false -> (match op_level op with Some k => k < l | None => True end) ->
  stops l (op :: rest).
Proof. cbn. auto. Qed.

Lemma mulop_level op : mulop_name op <> None -> starter op = false /\ op_level op = Some 5.
Proof. destruct op; cbn; intros H; try congruence; auto. Qed.
Lemma addop_level op : addop_name op <> None -> starter op = false /\ op_level op = Some 4.
Proof. destruct op; cbn; intros H; try congruence; auto. Qed.
Lemma relop_level op : relop_name op <> None -> starter op = false /\ op_level op = Some 3.
Proof. destruct op; cbn; intros H; try congruence; auto. Qed.

Definition Good (t : st) : Prop := Par t /\ Kmul t /\ Kadd t /\ Krel t.

Theorem roundtrip_all t : wf_st t -> Good t.
Proof.
  induction t using st_ind'; intros W; cbn [wf_st] in W.
  - (* identifier *)
    assert (HP : Par (SId x)).
    { apply par_all; [|intros _; exact I]. intros rest Hs. cbn [prec] in Hs. cbn [prec p_at raw app]. now apply member_id. }
    repeat split; [exact HP|apply Kmul_from_par|apply Kadd_from_par|apply Krel_from_par]; auto; cbn; lia.
  - (* '!' run *)
    destruct (IHt W) as (Pa & _).
    assert (HP : Par (SNot n t)).
    { apply par_all; [|cbn; lia]. intros rest Hs. cbn [prec] in Hs. cbn [prec p_at raw]. fold (tk_at 7 t). rewrite <- app_assoc.
      assert (S7 : stops 7 rest) by (eapply stops_le; [|exact Hs]; lia).
      destruct (Pa 7 (le_n 7) rest S7) as [n1 H1]. cbn [p_at] in H1.
      exists (S n1). intros [|f] Hf; [lia|]. cbn [repeat app]. rewrite u_unary_bang.
      change (TBang :: repeat TBang n ++ tk_at 7 t ++ rest) with (repeat TBang (S n) ++ tk_at 7 t ++ rest).
      rewrite (count_bangs (S n) _ (tk7_not_bang t rest)). rewrite H1 by lia. reflexivity. }
    repeat split; [exact HP|apply Kmul_from_par|apply Kadd_from_par|apply Krel_from_par]; auto; cbn; lia.
  - (* '-' run *)
    destruct (IHt W) as (Pa & _).
    assert (HP : Par (SNeg n t)).
    { apply par_all; [|cbn; lia]. intros rest Hs. cbn [prec] in Hs. cbn [prec p_at raw]. fold (tk_at 7 t). rewrite <- app_assoc.
      assert (S7 : stops 7 rest) by (eapply stops_le; [|exact Hs]; lia).
      destruct (Pa 7 (le_n 7) rest S7) as [n1 H1]. cbn [p_at] in H1.
      exists (S n1). intros [|f] Hf; [lia|]. cbn [repeat app]. rewrite u_unary_minus, tk7_not_number.
      change (TMinus :: repeat TMinus n ++ tk_at 7 t ++ rest) with (repeat TMinus (S n) ++ tk_at 7 t ++ rest).
      rewrite (count_minus (S n) _ (tk7_not_minus t rest)). rewrite H1 by lia. reflexivity. }
    repeat split; [exact HP|apply Kmul_from_par|apply Kadd_from_par|apply Krel_from_par]; auto; cbn; lia.
  - (* multiplicative *)
    destruct W as (Wop & Wa & Wb). destruct (IHt1 Wa) as (_ & Ka & _). destruct (IHt2 Wb) as (Pb & _).
    destruct (mulop_level op Wop) as [Os Ol]. destruct (mulop_name op) as [name|] eqn:En; [|congruence].
    assert (HK : Kmul (SMul op t1 t2)).
    { intros R X Hs [n2 H2]. rewrite (tk_raw 5 (SMul op t1 t2)) by (cbn; lia). cbn [raw].
      fold (tk_at 5 t1). fold (tk_at 6 t2). rewrite <- !app_assoc. cbn [app].
      apply Ka; [apply stops_op; [exact Os|rewrite Ol; lia]|].
      destruct (Pb 6 ltac:(lia) R Hs) as [n1 H1]. cbn [p_at] in H1.
      exists (S (max n1 n2)). intros [|f] Hf; [lia|]. rewrite u_mul_loop, En, H1 by lia.
      cbn [ast] in H2. rewrite En in H2. cbn [opname] in H2. apply H2. lia. }
    assert (HP : Par (SMul op t1 t2)).
    { apply par_all; [|cbn; lia]. intros rest Hs. cbn [prec] in Hs. cbn [prec p_at]. rewrite <- (tk_raw 5 (SMul op t1 t2)) by (cbn; lia).
      apply HK; [eapply stops_le; [|exact Hs]; lia|]. exists 1. intros [|f] Hf; [lia|]. now apply mul_loop_stop. }
    repeat split; [exact HP|exact HK|apply Kadd_from_par|apply Krel_from_par]; auto; cbn; lia.
  - (* additive *)
    destruct W as (Wop & Wa & Wb). destruct (IHt1 Wa) as (_ & _ & Ka & _). destruct (IHt2 Wb) as (Pb & _).
    destruct (addop_level op Wop) as [Os Ol]. destruct (addop_name op) as [name|] eqn:En; [|congruence].
    assert (HK : Kadd (SAdd op t1 t2)).
    { intros R X Hs [n2 H2]. rewrite (tk_raw 4 (SAdd op t1 t2)) by (cbn; lia). cbn [raw].
      fold (tk_at 4 t1). fold (tk_at 5 t2). rewrite <- !app_assoc. cbn [app].
      apply Ka; [apply stops_op; [exact Os|rewrite Ol; lia]|].
      destruct (Pb 5 ltac:(lia) R Hs) as [n1 H1]. cbn [p_at] in H1.
      exists (S (max n1 n2)). intros [|f] Hf; [lia|]. rewrite u_add_loop, En, H1 by lia.
      cbn [ast] in H2. rewrite En in H2. cbn [opname] in H2. apply H2. lia. }
    assert (HP : Par (SAdd op t1 t2)).
    { apply par_all; [|cbn; lia]. intros rest Hs. cbn [prec] in Hs. cbn [prec p_at]. rewrite <- (tk_raw 4 (SAdd op t1 t2)) by (cbn; lia).
      apply HK; [eapply stops_le; [|exact Hs]; lia|]. exists 1. intros [|f] Hf; [lia|]. now apply add_loop_stop. }
    repeat split; [exact HP|apply Kmul_from_par|exact HK|apply Krel_from_par]; auto; cbn; lia.
  - (* relational *)
    destruct W as (Wop & Wa & Wb). destruct (IHt1 Wa) as (_ & _ & _ & Ka). destruct (IHt2 Wb) as (Pb & _).
    destruct (relop_level op Wop) as [Os Ol]. destruct (relop_name op) as [name|] eqn:En; [|congruence].
    assert (HK : Krel (SRel op t1 t2)).
    { intros R X Hs [n2 H2]. rewrite (tk_raw 3 (SRel op t1 t2)) by (cbn; lia). cbn [raw].
      fold (tk_at 3 t1). fold (tk_at 4 t2). rewrite <- !app_assoc. cbn [app].
      apply Ka; [apply stops_op; [exact Os|rewrite Ol; lia]|].
      destruct (Pb 4 ltac:(lia) R Hs) as [n1 H1]. cbn [p_at] in H1.
      exists (S (max n1 n2)). intros [|f] Hf; [lia|]. rewrite u_rel_loop, En, H1 by lia.
      cbn [ast] in H2. rewrite En in H2. cbn [opname] in H2. apply H2. lia. }
    assert (HP : Par (SRel op t1 t2)).
    { apply par_all; [|cbn; lia]. intros rest Hs. cbn [prec] in Hs. cbn [prec p_at]. rewrite <- (tk_raw 3 (SRel op t1 t2)) by (cbn; lia).
      apply HK; [eapply stops_le; [|exact Hs]; lia|]. exists 1. intros [|f] Hf; [lia|]. now apply rel_loop_stop. }
    repeat split; [exact HP|apply Kmul_from_par|apply Kadd_from_par|exact HK]; auto; cbn; lia.
  - (* && chain *)
    destruct W as (Wa & Wne & Wrs). destruct (IHt Wa) as (Pa & _).
    assert (Prs : Forall Par rs).
    { clear Wne. induction H as [|r rs Hr _ IH]; [constructor|]. destruct Wrs as [Wr Wrs].
      constructor; [exact (proj1 (Hr Wr))|exact (IH Wrs)]. }
    assert (HP : Par (SAnd t rs)).
    { apply par_all; [|cbn; lia]. intros rest Hs. cbn [prec] in Hs. cbn [prec p_at]. rewrite raw_and, <- app_assoc.
      assert (S3 : stops 3 (flat_map (fun r => TAndAnd :: tk_at 3 r) rs ++ rest)).
      { apply stops_chain; [reflexivity|cbn; lia|eapply stops_le; [|exact Hs]; lia]. }
      destruct (Pa 3 ltac:(lia) _ S3) as [n1 H1]. cbn [p_at] in H1.
      destruct (and_chain rs Prs [ast t] rest Hs) as [n2 H2].
      exists (S (max n1 n2)). intros [|f] Hf; [lia|]. rewrite u_and, H1 by lia. rewrite H2 by lia.
      rewrite ast_and, rev'_rev, rev_app_distr, rev_involutive. reflexivity. }
    repeat split; [exact HP|apply Kmul_from_par|apply Kadd_from_par|apply Krel_from_par]; auto; cbn; lia.
  - (* || chain *)
    destruct W as (Wa & Wne & Wrs). destruct (IHt Wa) as (Pa & _).
    assert (Prs : Forall Par rs).
    { clear Wne. induction H as [|r rs Hr _ IH]; [constructor|]. destruct Wrs as [Wr Wrs].
      constructor; [exact (proj1 (Hr Wr))|exact (IH Wrs)]. }
    assert (HP : Par (SOr t rs)).
    { apply par_all; [|cbn; lia]. intros rest Hs. cbn [prec] in Hs. cbn [prec p_at]. rewrite raw_or, <- app_assoc.
      assert (S2 : stops 2 (flat_map (fun r => TOrOr :: tk_at 2 r) rs ++ rest)).
      { apply stops_chain; [reflexivity|cbn; lia|eapply stops_le; [|exact Hs]; lia]. }
      destruct (Pa 2 ltac:(lia) _ S2) as [n1 H1]. cbn [p_at] in H1.
      destruct (or_chain rs Prs [ast t] rest Hs) as [n2 H2].
      exists (S (max n1 n2)). intros [|f] Hf; [lia|]. rewrite u_or, H1 by lia. rewrite H2 by lia.
      rewrite ast_or, rev'_rev, rev_app_distr, rev_involutive. reflexivity. }
    repeat split; [exact HP|apply Kmul_from_par|apply Kadd_from_par|apply Krel_from_par]; auto; cbn; lia.
  - (* conditional *)
    destruct W as (Wc & Wa & Wb). destruct (IHt1 Wc) as (Pc & _). destruct (IHt2 Wa) as (Pa & _). destruct (IHt3 Wb) as (Pb & _).
    assert (HP : Par (SCond t1 t2 t3)).
    { apply par_all; [|cbn; lia]. intros rest Hs. cbn [prec] in Hs. cbn [prec p_at raw].
      fold (tk_at 1 t1). fold (tk_at 1 t2). rewrite <- !app_assoc. cbn [app].
      destruct (Pc 1 ltac:(lia) (TQuestion :: tk_at 1 t2 ++ TColon :: raw t3 ++ rest)) as [n1 H1]; [cbn; auto|].
      destruct (Pa 1 ltac:(lia) (TColon :: raw t3 ++ rest)) as [n2 H2]; [cbn; auto|].
      destruct (Pb 0 ltac:(lia) rest Hs) as [n3 H3]. rewrite (tk_raw 0 t3) in H3 by lia.
      cbn [p_at] in H1, H2, H3.
      exists (S (max n1 (max n2 n3))). intros [|f] Hf; [lia|].
      rewrite u_expr, H1 by lia. rewrite H2 by lia. rewrite H3 by lia. reflexivity. }
    repeat split; [exact HP|apply Kmul_from_par|apply Kadd_from_par|apply Krel_from_par]; auto; cbn; lia.
  - (* explicit parentheses *)
    destruct (IHt W) as (Pa & _).
    assert (HP : Par (SParen t)).
    { apply par_all; [|intros _; exact I]. intros rest Hs. cbn [prec] in Hs. cbn [prec p_at raw ast app].
      rewrite <- app_assoc. cbn [app]. apply member_paren; [exact Hs|].
      pose proof (Pa 0 ltac:(lia) (TRParen :: rest)) as H0. rewrite (tk_raw 0 t) in H0 by lia. apply H0. cbn. auto. }
    repeat split; [exact HP|apply Kmul_from_par|apply Kadd_from_par|apply Krel_from_par]; auto; cbn; lia.
Qed.

(** ** The round trip: the rendering of a tree parses, with any sufficient fuel, to the tree's AST
    - every operator binds as the precedence table says, chains associate to the left, && / ||
    chains build the balanced tree, parentheses group. *)
Theorem parse_roundtrip t : wf_st t -> exists n, forall f, n <= f -> p_expr f (raw t) = POk (ast t) [].
Proof.
  intros W. destruct (roundtrip_all t W) as (HP & _).
  destruct (HP 0 ltac:(lia) [] I) as [n H]. exists n. intros f Hf.
  specialize (H f Hf). cbn [p_at] in H. rewrite (tk_raw 0 t) in H by lia. now rewrite app_nil_r in H.
Qed.
