(** C04: parsing the minimal-parenthesis rendering of an operator tree gives back the tree. *)
From Coq Require Import String Ascii.
From Cel.Model Require Import Surface.
From Cel.Proofs Require Export ParserUnfold.
From Cel.Proofs Require Import NumericProofs CompareProofs.
From Coq Require Import Lia Arith.
Open Scope nat_scope.

(** ** "For all sufficiently large fuel" *)
Definition ev {A} (p : nat -> pres A) (r : pres A) : Prop := exists n, forall f, n <= f -> p f = r.

Lemma ev_const {A} (r : pres A) : ev (fun _ => r) r.
Proof. exists 0. reflexivity. Qed.

(** what may follow an expression parsed at level [l]: no operator of that level or tighter,
    and nothing that would extend a primary *)
Definition starter (t : tk) : bool :=
  match t with TDot | TLBracket | TLParen | TLBrace => true | _ => false end.
Definition op_level (t : tk) : option nat :=
  match t with
  | TQuestion => Some 0 | TOrOr => Some 1 | TAndAnd => Some 2
  | TLt | TLe | TGe | TGt | TEq | TNe | TIn => Some 3
  | TPlus | TMinus => Some 4
  | TStar | TSlash | TPercent => Some 5
  | _ => None
  end.
Definition stops (l : nat) (rest : list tk) : Prop :=
  match rest with
  | [] => True
  | t :: _ => starter t = false /\ match op_level t with Some k => k < l | None => True end
  end.

Lemma stops_le l l' rest : l <= l' -> stops l rest -> stops l' rest.
Proof.
  intros H. destruct rest as [|t r]; [auto|]. cbn. intros [S1 S2]. split; [exact S1|].
  destruct (op_level t); [lia|exact I].
Qed.

(** ** One-step unfoldings *)

(** ** Primaries, postfix, member *)
Lemma prim_id f x rest : stops 7 rest -> p_primary (S f) (TIdent x :: rest) = POk (EIdent x) rest.
Proof.
  intros Hs. destruct rest as [|t r]; [reflexivity|]. destruct Hs as [Hs _].
  destruct t; try discriminate; reflexivity.
Qed.

Lemma postfix_stop f e rest : stops 7 rest -> p_postfix (S f) e rest = POk e rest.
Proof.
  intros Hs. destruct rest as [|t r]; [reflexivity|]. destruct Hs as [Hs _].
  destruct t; try discriminate; reflexivity.
Qed.

Lemma member_id x rest : stops 7 rest -> ev (fun f => p_member f (TIdent x :: rest)) (POk (EIdent x) rest).
Proof.
  intros Hs. exists 2. intros [|[|f]] Hf; try lia. rewrite u_member, prim_id by exact Hs. now apply postfix_stop.
Qed.

Lemma u_prim_paren f ts1 : p_primary (S f) (TLParen :: ts1) =
  match p_expr f ts1 with
  | POk e (TRParen :: ts2) => POk e ts2
  | POk _ _ => PFail
  | r => r
  end.
Proof. reflexivity. Qed.

Lemma member_paren ts e rest : stops 7 rest ->
  ev (fun f => p_expr f (ts ++ TRParen :: rest)) (POk e (TRParen :: rest)) ->
  ev (fun f => p_member f (TLParen :: ts ++ TRParen :: rest)) (POk e rest).
Proof.
  intros Hs [n H]. exists (S (S n)). intros [|[|f]] Hf; try lia.
  rewrite u_member, u_prim_paren, H by lia. now apply postfix_stop.
Qed.

(** ** Levels that only pass an expression of a tighter level through *)
Lemma head_not {A} (P : tk -> bool) (rest : list tk) (a b : A) :
  match rest with [] => True | t :: _ => P t = false end ->
  (match rest with t :: _ => if P t then a else b | [] => b end) = b.
Proof. destruct rest as [|t r]; [reflexivity|]. now intros ->. Qed.

Lemma pass_unary t0 ts e rest :
  match t0 with TBang | TMinus => False | _ => True end ->
  ev (fun f => p_member f ((t0 :: ts) ++ rest)) (POk e rest) -> ev (fun f => p_unary f ((t0 :: ts) ++ rest)) (POk e rest).
Proof.
  intros Hh [n H]. exists (S n). intros [|f] Hf; [lia|].
  replace (p_unary (S f) ((t0 :: ts) ++ rest)) with (p_member f ((t0 :: ts) ++ rest)); [apply H; lia|].
  cbn [app]. destruct t0; try contradiction; reflexivity.
Qed.

Lemma mul_loop_stop f lhs rest : stops 5 rest -> p_mul_loop (S f) lhs rest = POk lhs rest.
Proof.
  intros Hs. rewrite u_mul_loop. destruct rest as [|t r]; [reflexivity|]. destruct Hs as [_ Hs].
  destruct t; cbn in Hs; try lia; reflexivity.
Qed.
Lemma add_loop_stop f lhs rest : stops 4 rest -> p_add_loop (S f) lhs rest = POk lhs rest.
Proof.
  intros Hs. rewrite u_add_loop. destruct rest as [|t r]; [reflexivity|]. destruct Hs as [_ Hs].
  destruct t; cbn in Hs; try lia; reflexivity.
Qed.
Lemma rel_loop_stop f lhs rest : stops 3 rest -> p_rel_loop (S f) lhs rest = POk lhs rest.
Proof.
  intros Hs. rewrite u_rel_loop. destruct rest as [|t r]; [reflexivity|]. destruct Hs as [_ Hs].
  destruct t; cbn in Hs; try lia; reflexivity.
Qed.
Lemma and_loop_stop f acc rest : stops 2 rest -> p_and_loop (S f) acc rest = POk (logic_tree $"_&&_" (rev' acc)) rest.
Proof.
  intros Hs. rewrite u_and_loop. destruct rest as [|t r]; [reflexivity|]. destruct Hs as [_ Hs].
  destruct t; cbn in Hs; try lia; reflexivity.
Qed.
Lemma or_loop_stop f acc rest : stops 1 rest -> p_or_loop (S f) acc rest = POk (logic_tree $"_||_" (rev' acc)) rest.
Proof.
  intros Hs. rewrite u_or_loop. destruct rest as [|t r]; [reflexivity|]. destruct Hs as [_ Hs].
  destruct t; cbn in Hs; try lia; reflexivity.
Qed.

Lemma pass_mul ts e rest : stops 5 rest ->
  ev (fun f => p_unary f (ts ++ rest)) (POk e rest) -> ev (fun f => p_mul f (ts ++ rest)) (POk e rest).
Proof.
  intros Hs [n H]. exists (S (S n)). intros [|[|f]] Hf; try lia. rewrite u_mul, H by lia. now apply mul_loop_stop.
Qed.
Lemma pass_add ts e rest : stops 4 rest ->
  ev (fun f => p_mul f (ts ++ rest)) (POk e rest) -> ev (fun f => p_add f (ts ++ rest)) (POk e rest).
Proof.
  intros Hs [n H]. exists (S (S n)). intros [|[|f]] Hf; try lia. rewrite u_add, H by lia. now apply add_loop_stop.
Qed.
Lemma pass_rel ts e rest : stops 3 rest ->
  ev (fun f => p_add f (ts ++ rest)) (POk e rest) -> ev (fun f => p_rel f (ts ++ rest)) (POk e rest).
Proof.
  intros Hs [n H]. exists (S (S n)). intros [|[|f]] Hf; try lia. rewrite u_rel, H by lia. now apply rel_loop_stop.
Qed.
Lemma pass_and ts e rest : stops 2 rest ->
  ev (fun f => p_rel f (ts ++ rest)) (POk e rest) -> ev (fun f => p_and f (ts ++ rest)) (POk e rest).
Proof.
  intros Hs [n H]. exists (S (S n)). intros [|[|f]] Hf; try lia. rewrite u_and, H by lia.
  now rewrite and_loop_stop.
Qed.
Lemma pass_or ts e rest : stops 1 rest ->
  ev (fun f => p_and f (ts ++ rest)) (POk e rest) -> ev (fun f => p_or f (ts ++ rest)) (POk e rest).
Proof.
  intros Hs [n H]. exists (S (S n)). intros [|[|f]] Hf; try lia. rewrite u_or, H by lia.
  now rewrite or_loop_stop.
Qed.
Lemma pass_expr ts e rest : stops 0 rest ->
  ev (fun f => p_or f (ts ++ rest)) (POk e rest) -> ev (fun f => p_expr f (ts ++ rest)) (POk e rest).
Proof.
  intros Hs [n H]. exists (S n). intros [|f] Hf; try lia. rewrite u_expr, H by lia.
  destruct rest as [|t r]; [reflexivity|]. destruct Hs as [_ Hs]. destruct t; cbn in Hs; try lia; reflexivity.
Qed.

Definition p_at (l : nat) : nat -> list tk -> pres expr :=
  match l with
  | 0 => p_expr | 1 => p_or | 2 => p_and | 3 => p_rel | 4 => p_add | 5 => p_mul | 6 => p_unary | _ => p_member
  end.

Definition plain_head (ts : list tk) : Prop :=
  match ts with TBang :: _ | TMinus :: _ | [] => False | _ => True end.

(** an expression parsed at a tighter level [p] is parsed, with the same result, at every
    looser level [l], provided what follows cannot extend it there *)
Lemma down p l ts e rest : l <= p -> p <= 7 -> (p = 7 -> l <= 6 -> plain_head ts) -> stops l rest ->
  ev (fun f => p_at p f (ts ++ rest)) (POk e rest) -> ev (fun f => p_at l f (ts ++ rest)) (POk e rest).
Proof.
  intros Hlp Hp Hh Hs H.
  assert (S7 : stops 7 rest) by (eapply stops_le; [|exact Hs]; lia).
  assert (Step6 : 6 <= p -> l <= 6 -> ev (fun f => p_unary f (ts ++ rest)) (POk e rest)).
  { intros H6 Hl6. destruct (Nat.eq_dec p 6) as [->|Hn]; [exact H|]. assert (p = 7) by lia. subst p.
    specialize (Hh eq_refl Hl6). destruct ts as [|t0 ts']; [contradiction|].
    apply pass_unary; [destruct t0; try contradiction; exact I|exact H]. }
  assert (Step5 : 5 <= p -> l <= 5 -> ev (fun f => p_mul f (ts ++ rest)) (POk e rest)).
  { intros H5 Hl5. destruct (Nat.eq_dec p 5) as [->|Hn]; [exact H|].
    apply pass_mul; [eapply stops_le; [|exact Hs]; lia|apply Step6; lia]. }
  assert (Step4 : 4 <= p -> l <= 4 -> ev (fun f => p_add f (ts ++ rest)) (POk e rest)).
  { intros H4 Hl4. destruct (Nat.eq_dec p 4) as [->|Hn]; [exact H|].
    apply pass_add; [eapply stops_le; [|exact Hs]; lia|apply Step5; lia]. }
  assert (Step3 : 3 <= p -> l <= 3 -> ev (fun f => p_rel f (ts ++ rest)) (POk e rest)).
  { intros H3 Hl3. destruct (Nat.eq_dec p 3) as [->|Hn]; [exact H|].
    apply pass_rel; [eapply stops_le; [|exact Hs]; lia|apply Step4; lia]. }
  assert (Step2 : 2 <= p -> l <= 2 -> ev (fun f => p_and f (ts ++ rest)) (POk e rest)).
  { intros H2 Hl2. destruct (Nat.eq_dec p 2) as [->|Hn]; [exact H|].
    apply pass_and; [eapply stops_le; [|exact Hs]; lia|apply Step3; lia]. }
  assert (Step1 : 1 <= p -> l <= 1 -> ev (fun f => p_or f (ts ++ rest)) (POk e rest)).
  { intros H1 Hl1. destruct (Nat.eq_dec p 1) as [->|Hn]; [exact H|].
    apply pass_or; [eapply stops_le; [|exact Hs]; lia|apply Step2; lia]. }
  assert (Step0 : l = 0 -> ev (fun f => p_expr f (ts ++ rest)) (POk e rest)).
  { intros ->. destruct (Nat.eq_dec p 0) as [->|Hn]; [exact H|].
    apply pass_expr; [exact Hs|apply Step1; lia]. }
  destruct l as [|[|[|[|[|[|[|l]]]]]]]; cbn [p_at].
  - now apply Step0.
  - apply Step1; lia.
  - apply Step2; lia.
  - apply Step3; lia.
  - apply Step4; lia.
  - apply Step5; lia.
  - apply Step6; lia.
  - assert (p = 7) by lia. subst p. exact H.
Qed.

(** ** Induction principle *)
Section StInd.
  Variable P : st -> Prop.
  Hypothesis Hid : forall x, P (SId x).
  Hypothesis Hlit : forall l, P (SLit l).
  Hypothesis Hneglit : forall z, P (SNegLit z).
  Hypothesis Hnegdbl : forall t, P (SNegDbl t).
  Hypothesis Hsel : forall a f, P a -> P (SSel a f).
  Hypothesis Hidx : forall a i, P a -> P i -> P (SIdx a i).
  Hypothesis Hmcall : forall a f args, P a -> Forall P args -> P (SMCall a f args).
  Hypothesis Hcall : forall f args, Forall P args -> P (SCall f args).
  Hypothesis Hlist : forall es, Forall P es -> P (SLst es).
  Hypothesis Hmap : forall kvs, Forall (fun kv => P (fst kv) /\ P (snd kv)) kvs -> P (SMap kvs).
  Hypothesis Hmsg : forall lead names fields, Forall (fun nv => P (snd nv)) fields -> P (SMsg lead names fields).
  Hypothesis Hnot : forall n a, P a -> P (SNot n a).
  Hypothesis Hneg : forall n a, P a -> P (SNeg n a).
  Hypothesis Hmul : forall op a b, P a -> P b -> P (SMul op a b).
  Hypothesis Hadd : forall op a b, P a -> P b -> P (SAdd op a b).
  Hypothesis Hrel : forall op a b, P a -> P b -> P (SRel op a b).
  Hypothesis Hand : forall a rs, P a -> Forall P rs -> P (SAnd a rs).
  Hypothesis Hor : forall a rs, P a -> Forall P rs -> P (SOr a rs).
  Hypothesis Hcond : forall c a b, P c -> P a -> P b -> P (SCond c a b).
  Hypothesis Hparen : forall a, P a -> P (SParen a).
  Hypothesis Hlistt : forall es, Forall P es -> P (SLstT es).
  Hypothesis Hmapt : forall kvs, Forall (fun kv => P (fst kv) /\ P (snd kv)) kvs -> P (SMapT kvs).
  Hypothesis Hmsgt : forall lead names fields, Forall (fun nv => P (snd nv)) fields -> P (SMsgT lead names fields).
  Hypothesis Hdotid : forall x, P (SDotId x).
  Hypothesis Hdotcall : forall f args, Forall P args -> P (SDotCall f args).
  Hypothesis Hselesc : forall a f, P a -> P (SSelEsc a f).
  Fixpoint st_ind' (t : st) : P t :=
    let many := (fix go (l : list st) : Forall P l :=
                   match l with [] => Forall_nil _ | r :: l' => Forall_cons _ (st_ind' r) (go l') end) in
    match t with
    | SId x => Hid x
    | SLit l => Hlit l
    | SNegLit z => Hneglit z
    | SNegDbl t => Hnegdbl t
    | SSel a f => Hsel a f (st_ind' a)
    | SIdx a i => Hidx a i (st_ind' a) (st_ind' i)
    | SMCall a f args => Hmcall a f args (st_ind' a) (many args)
    | SCall f args => Hcall f args (many args)
    | SLst es => Hlist es (many es)
    | SMap kvs => Hmap kvs ((fix go (l : list (st * st)) : Forall (fun kv => P (fst kv) /\ P (snd kv)) l :=
                               match l with
                               | [] => Forall_nil _
                               | kv :: l' =>
                                   Forall_cons kv (match kv as p return P (fst p) /\ P (snd p) with
                                                   | (k, v) => conj (st_ind' k) (st_ind' v)
                                                   end) (go l')
                               end) kvs)
    | SMsg lead names fields =>
        Hmsg lead names fields ((fix go (l : list (str * st)) : Forall (fun nv => P (snd nv)) l :=
                                  match l with
                                  | [] => Forall_nil _
                                  | nv :: l' => Forall_cons nv (st_ind' (snd nv)) (go l')
                                  end) fields)
    | SNot n a => Hnot n a (st_ind' a)
    | SNeg n a => Hneg n a (st_ind' a)
    | SMul op a b => Hmul op a b (st_ind' a) (st_ind' b)
    | SAdd op a b => Hadd op a b (st_ind' a) (st_ind' b)
    | SRel op a b => Hrel op a b (st_ind' a) (st_ind' b)
    | SAnd a rs => Hand a rs (st_ind' a) (many rs)
    | SOr a rs => Hor a rs (st_ind' a) (many rs)
    | SCond c a b => Hcond c a b (st_ind' c) (st_ind' a) (st_ind' b)
    | SParen a => Hparen a (st_ind' a)
    | SLstT es => Hlistt es (many es)
    | SMapT kvs => Hmapt kvs ((fix go (l : list (st * st)) : Forall (fun kv => P (fst kv) /\ P (snd kv)) l :=
                                 match l with
                                 | [] => Forall_nil _
                                 | kv :: l' =>
                                     Forall_cons kv (match kv as p return P (fst p) /\ P (snd p) with
                                                     | (k, v) => conj (st_ind' k) (st_ind' v)
                                                     end) (go l')
                                 end) kvs)
    | SMsgT lead names fields =>
        Hmsgt lead names fields ((fix go (l : list (str * st)) : Forall (fun nv => P (snd nv)) l :=
                                    match l with
                                    | [] => Forall_nil _
                                    | nv :: l' => Forall_cons nv (st_ind' (snd nv)) (go l')
                                    end) fields)
    | SDotId x => Hdotid x
    | SDotCall f args => Hdotcall f args (many args)
    | SSelEsc a f => Hselesc a f (st_ind' a)
    end.
End StInd.

(** ** The statements *)
Definition Par (t : st) : Prop :=
  forall l, l <= 7 -> forall rest, stops l rest ->
  ev (fun f => p_at l f (tk_at l t ++ rest)) (POk (ast t) rest).

Definition Kmul (t : st) : Prop := forall R X, stops 6 R ->
  ev (fun f => p_mul_loop f (ast t) R) X -> ev (fun f => p_mul f (tk_at 5 t ++ R)) X.
Definition Kadd (t : st) : Prop := forall R X, stops 5 R ->
  ev (fun f => p_add_loop f (ast t) R) X -> ev (fun f => p_add f (tk_at 4 t ++ R)) X.
Definition Krel (t : st) : Prop := forall R X, stops 4 R ->
  ev (fun f => p_rel_loop f (ast t) R) X -> ev (fun f => p_rel f (tk_at 3 t ++ R)) X.

(** unfolded forms of [raw] *)
Lemma raw_and a rs : raw (SAnd a rs) = tk_at 3 a ++ flat_map (fun r => TAndAnd :: tk_at 3 r) rs.
Proof.
  cbn [raw]. change (if 3 <=? prec a then raw a else TLParen :: raw a ++ [TRParen]) with (tk_at 3 a).
  apply f_equal. induction rs as [|r rs IH]; [reflexivity|]. cbn [flat_map app]. rewrite <- IH. reflexivity.
Qed.
Lemma raw_or a rs : raw (SOr a rs) = tk_at 2 a ++ flat_map (fun r => TOrOr :: tk_at 2 r) rs.
Proof.
  cbn [raw]. change (if 2 <=? prec a then raw a else TLParen :: raw a ++ [TRParen]) with (tk_at 2 a).
  apply f_equal. induction rs as [|r rs IH]; [reflexivity|]. cbn [flat_map app]. rewrite <- IH. reflexivity.
Qed.
Lemma ast_and a rs : ast (SAnd a rs) = logic_tree $"_&&_" (ast a :: map ast rs).
Proof.
  cbn [ast]. apply f_equal. apply f_equal. induction rs as [|r rs IH]; [reflexivity|]. cbn [map]. rewrite <- IH. reflexivity.
Qed.
Lemma ast_or a rs : ast (SOr a rs) = logic_tree $"_||_" (ast a :: map ast rs).
Proof.
  cbn [ast]. apply f_equal. apply f_equal. induction rs as [|r rs IH]; [reflexivity|]. cbn [map]. rewrite <- IH. reflexivity.
Qed.

(** heads: a rendering starts with a token that starts a primary, or a prefix operator *)
Definition prim_start (t : tk) : bool :=
  match t with
  | TIdent _ | TInt _ | TUint _ | TFloat _ | TString _ | TBytes _ | TTrue | TFalse | TNull | TLParen | TLBracket | TLBrace | TDot => true
  | _ => false
  end.
Definition hd_prim (ts : list tk) : Prop := match ts with t :: _ => prim_start t = true | [] => False end.
Definition hd_expr (ts : list tk) : Prop :=
  match ts with t :: _ => prim_start t = true \/ t = TBang \/ t = TMinus | [] => False end.
Lemma hd_prim_app a b : hd_prim a -> hd_prim (a ++ b).
Proof. destruct a; [contradiction|exact (fun H => H)]. Qed.
Lemma hd_expr_app a b : hd_expr a -> hd_expr (a ++ b).
Proof. destruct a; [contradiction|exact (fun H => H)]. Qed.
Lemma hd_prim_expr a : hd_prim a -> hd_expr a.
Proof. destruct a; [contradiction|]. cbn. auto. Qed.
Lemma lit_tk_start l : prim_start (lit_tk l) = true.
Proof. destruct l as [z|z|[]| |t s|t b|t]; reflexivity. Qed.

Lemma tk7_prim t : hd_prim (tk_at 7 t).
Proof.
  induction t using st_ind'; unfold tk_at; cbn [prec Nat.leb raw]; try exact eq_refl;
    try (fold (tk_at 7 t); apply hd_prim_app; exact IHt);
    try (fold (tk_at 7 t1); apply hd_prim_app; exact IHt1).
  - apply lit_tk_start.
  - destruct lead; [reflexivity|]. destruct names as [|a [|b r]]; reflexivity.
  - destruct lead; [reflexivity|]. destruct names as [|a [|b r]]; reflexivity.
Qed.
Lemma tk_hd l t : hd_expr (raw t) -> hd_expr (tk_at l t).
Proof. unfold tk_at. destruct (l <=? prec t); [auto|]. intros _. cbn. auto. Qed.
Lemma raw_hd t : hd_expr (raw t).
Proof.
  induction t using st_ind'; cbn [raw]; try (cbn; auto; fail);
    try (destruct lead; [cbn; auto|destruct names as [|a [|b r]]; cbn; auto]; fail).
  - cbn. left. apply lit_tk_start.
  - fold (tk_at 7 t). apply hd_expr_app, hd_prim_expr, tk7_prim.
  - fold (tk_at 7 t1). apply hd_expr_app, hd_prim_expr, tk7_prim.
  - fold (tk_at 7 t). apply hd_expr_app, hd_prim_expr, tk7_prim.
  - fold (tk_at 5 t1). apply hd_expr_app, tk_hd, IHt1.
  - fold (tk_at 4 t1). apply hd_expr_app, tk_hd, IHt1.
  - fold (tk_at 3 t1). apply hd_expr_app, tk_hd, IHt1.
  - change (if 3 <=? prec t then raw t else TLParen :: raw t ++ [TRParen]) with (tk_at 3 t). apply hd_expr_app, tk_hd, IHt.
  - change (if 2 <=? prec t then raw t else TLParen :: raw t ++ [TRParen]) with (tk_at 2 t). apply hd_expr_app, tk_hd, IHt.
  - fold (tk_at 1 t1). apply hd_expr_app, tk_hd, IHt1.
  - fold (tk_at 7 t). apply hd_expr_app, hd_prim_expr, tk7_prim.
Qed.
Lemma tk7_head t : plain_head (tk_at 7 t).
Proof. pose proof (tk7_prim t) as H. destruct (tk_at 7 t) as [|t0 r]; [contradiction|]. destruct t0; try discriminate; exact I. Qed.

Lemma tk_raw l t : l <= prec t -> tk_at l t = raw t.
Proof. intros H. unfold tk_at. destruct (Nat.leb_spec l (prec t)); [reflexivity|lia]. Qed.
Lemma tk_paren l t : prec t < l -> tk_at l t = TLParen :: raw t ++ [TRParen].
Proof. intros H. unfold tk_at. destruct (Nat.leb_spec l (prec t)); [lia|reflexivity]. Qed.

(** parenthesised occurrences, given the parse at level 0 *)
Lemma par_paren t : (forall rest, stops 0 rest -> ev (fun f => p_expr f (raw t ++ rest)) (POk (ast t) rest)) ->
  forall l, l <= 7 -> prec t < l -> forall rest, stops l rest ->
  ev (fun f => p_at l f (tk_at l t ++ rest)) (POk (ast t) rest).
Proof.
  intros H0 l Hl Hp rest Hs. rewrite (tk_paren l t Hp).
  assert (S7 : stops 7 rest) by (eapply stops_le; [|exact Hs]; lia).
  assert (M : ev (fun f => p_member f ((TLParen :: raw t ++ [TRParen]) ++ rest)) (POk (ast t) rest)).
  { cbn [app]. rewrite <- app_assoc. cbn [app]. apply member_paren; [exact S7|]. apply H0. cbn. auto. }
  apply (down 7 l _ _ _ Hl (le_n 7)); [intros _ _; exact I|exact Hs|exact M].
Qed.

(** from the parse at the tree's own level to every level *)
Lemma par_all t : (forall rest, stops (prec t) rest ->
                     ev (fun f => p_at (prec t) f (raw t ++ rest)) (POk (ast t) rest)) ->
  (prec t = 7 -> plain_head (raw t)) -> Par t.
Proof.
  intros Hown Hh.
  assert (Hlow : forall l, l <= prec t -> forall rest, stops l rest ->
                 ev (fun f => p_at l f (raw t ++ rest)) (POk (ast t) rest)).
  { intros l Hl rest Hs. apply (down (prec t) l); auto.
    - destruct t; cbn; lia.
    - eapply Hown, stops_le; [|exact Hs]; exact Hl. }
  intros l Hl rest Hs. destruct (Nat.le_gt_cases l (prec t)) as [H|H].
  - rewrite (tk_raw l t H). now apply Hlow.
  - apply par_paren; auto. intros r Hr. apply (Hlow 0); [lia|exact Hr].
Qed.

Lemma rev'_rev {A} (l : list A) : rev' l = rev l.
Proof. unfold rev'. now rewrite <- rev_alt. Qed.

Lemma stops_chain (tk0 : tk) l (f : st -> list tk) rs rest :
  starter tk0 = false -> (match op_level tk0 with Some k => k < l | None => True end) ->
  stops l rest -> stops l (flat_map (fun r => tk0 :: f r) rs ++ rest).
Proof. intros H1 H2 Hs. destruct rs as [|r rs]; [exact Hs|]. cbn. auto. Qed.

Lemma and_chain rs : Forall Par rs -> forall acc rest, stops 2 rest ->
  ev (fun f => p_and_loop f acc (flat_map (fun r => TAndAnd :: tk_at 3 r) rs ++ rest))
     (POk (logic_tree $"_&&_" (rev' (rev (map ast rs) ++ acc))) rest).
Proof.
  induction 1 as [|r rs Hr _ IH]; intros acc rest Hs.
  - exists 1. intros [|f] Hf; [lia|]. cbn [flat_map map rev app]. now apply and_loop_stop.
  - cbn [flat_map app]. rewrite <- app_assoc.
    assert (S3 : stops 3 (flat_map (fun r0 => TAndAnd :: tk_at 3 r0) rs ++ rest)).
    { apply stops_chain; [reflexivity|cbn; lia|eapply stops_le; [|exact Hs]; lia]. }
    destruct (Hr 3 ltac:(lia) _ S3) as [n1 H1]. destruct (IH (ast r :: acc) rest Hs) as [n2 H2].
    exists (S (max n1 n2)). intros [|f] Hf; [lia|]. rewrite u_and_loop. cbn [p_at] in H1. rewrite H1 by lia.
    rewrite H2 by lia. cbn [map rev]. now rewrite <- app_assoc.
Qed.

Lemma or_chain rs : Forall Par rs -> forall acc rest, stops 1 rest ->
  ev (fun f => p_or_loop f acc (flat_map (fun r => TOrOr :: tk_at 2 r) rs ++ rest))
     (POk (logic_tree $"_||_" (rev' (rev (map ast rs) ++ acc))) rest).
Proof.
  induction 1 as [|r rs Hr _ IH]; intros acc rest Hs.
  - exists 1. intros [|f] Hf; [lia|]. cbn [flat_map map rev app]. now apply or_loop_stop.
  - cbn [flat_map app]. rewrite <- app_assoc.
    assert (S2 : stops 2 (flat_map (fun r0 => TOrOr :: tk_at 2 r0) rs ++ rest)).
    { apply stops_chain; [reflexivity|cbn; lia|eapply stops_le; [|exact Hs]; lia]. }
    destruct (Hr 2 ltac:(lia) _ S2) as [n1 H1]. destruct (IH (ast r :: acc) rest Hs) as [n2 H2].
    exists (S (max n1 n2)). intros [|f] Hf; [lia|]. rewrite u_or_loop. cbn [p_at] in H1. rewrite H1 by lia.
    rewrite H2 by lia. cbn [map rev]. now rewrite <- app_assoc.
Qed.

(** the prefix-operator runs *)
Lemma count_bangs n ts : match ts with TBang :: _ => False | _ => True end ->
  count_prefix is_bang (repeat TBang n ++ ts) = (n, ts).
Proof.
  intros H. induction n as [|n IH]; cbn [repeat app count_prefix is_bang].
  - destruct ts as [|t r]; [reflexivity|]. cbn [count_prefix]. destruct t; try contradiction; reflexivity.
  - now rewrite IH.
Qed.
Lemma count_minus n ts : match ts with TMinus :: _ => False | _ => True end ->
  count_prefix is_minus (repeat TMinus n ++ ts) = (n, ts).
Proof.
  intros H. induction n as [|n IH]; cbn [repeat app count_prefix is_minus].
  - destruct ts as [|t r]; [reflexivity|]. cbn [count_prefix]. destruct t; try contradiction; reflexivity.
  - now rewrite IH.
Qed.

Lemma u_unary_bang f ts : p_unary (S f) (TBang :: ts) =
  let '(n, ts1) := count_prefix is_bang (TBang :: ts) in
  match p_member f ts1 with
  | POk m ts2 => POk (if Nat.odd n then ECall $"!_" None [m] else m) ts2
  | r => r
  end.
Proof. reflexivity. Qed.
Lemma u_unary_minus f ts0 : p_unary (S f) (TMinus :: ts0) =
  if is_number_tok ts0 then p_member f (TMinus :: ts0)
  else let '(n, ts1) := count_prefix is_minus (TMinus :: ts0) in
       match p_member f ts1 with
       | POk m ts2 => POk (if Nat.odd n then ECall $"-_" None [m] else m) ts2
       | r => r
       end.
Proof. reflexivity. Qed.

Lemma tk7_not_bang t rest : match tk_at 7 t ++ rest with TBang :: _ => False | _ => True end.
Proof. pose proof (tk7_head t) as H. destruct (tk_at 7 t) as [|t0 r]; [contradiction|]. cbn [app]. destruct t0; auto. Qed.
Lemma tk7_not_minus t rest : match tk_at 7 t ++ rest with TMinus :: _ => False | _ => True end.
Proof. pose proof (tk7_head t) as H. destruct (tk_at 7 t) as [|t0 r]; [contradiction|]. cbn [app]. destruct t0; auto. Qed.
Lemma tk7_not_number n t rest : (n = 0 -> is_number_tok (tk_at 7 t) = false) ->
  is_number_tok (repeat TMinus n ++ tk_at 7 t ++ rest) = false.
Proof.
  intros H. destruct n; cbn [repeat app]; [|reflexivity]. specialize (H eq_refl).
  pose proof (tk7_prim t) as Hp. destruct (tk_at 7 t) as [|t0 r]; [contradiction|]. exact H.
Qed.

Lemma tk_at_skip l t : prec t <> l -> tk_at l t = tk_at (S l) t.
Proof.
  intros H. unfold tk_at. destruct (Nat.leb_spec l (prec t)), (Nat.leb_spec (S l) (prec t)); try reflexivity; lia.
Qed.

Lemma Kmul_from_par t : prec t <> 5 -> Par t -> Kmul t.
Proof.
  intros Hp HP R X Hs [n2 H2]. rewrite (tk_at_skip 5 t Hp).
  destruct (HP 6 ltac:(lia) R Hs) as [n1 H1]. cbn [p_at] in H1.
  exists (S (max n1 n2)). intros [|f] Hf; [lia|]. rewrite u_mul, H1 by lia. apply H2. lia.
Qed.
Lemma Kadd_from_par t : prec t <> 4 -> Par t -> Kadd t.
Proof.
  intros Hp HP R X Hs [n2 H2]. rewrite (tk_at_skip 4 t Hp).
  destruct (HP 5 ltac:(lia) R Hs) as [n1 H1]. cbn [p_at] in H1.
  exists (S (max n1 n2)). intros [|f] Hf; [lia|]. rewrite u_add, H1 by lia. apply H2. lia.
Qed.
Lemma Krel_from_par t : prec t <> 3 -> Par t -> Krel t.
Proof.
  intros Hp HP R X Hs [n2 H2]. rewrite (tk_at_skip 3 t Hp).
  destruct (HP 4 ltac:(lia) R Hs) as [n1 H1]. cbn [p_at] in H1.
  exists (S (max n1 n2)). intros [|f] Hf; [lia|]. rewrite u_rel, H1 by lia. apply H2. lia.
Qed.

Lemma stops_op l op rest : starter op = false -> (match op_level op with Some k => k < l | None => True end) ->
  stops l (op :: rest).
Proof. cbn. auto. Qed.

Lemma mulop_level op : mulop_name op <> None -> starter op = false /\ op_level op = Some 5.
Proof. destruct op; cbn; intros H; try congruence; auto. Qed.
Lemma addop_level op : addop_name op <> None -> starter op = false /\ op_level op = Some 4.
Proof. destruct op; cbn; intros H; try congruence; auto. Qed.
Lemma relop_level op : relop_name op <> None -> starter op = false /\ op_level op = Some 3.
Proof. destruct op; cbn; intros H; try congruence; auto. Qed.

(** ** Postfix forms, calls and collection literals *)

(** what may follow a primary so that the message-literal lookahead of an identifier fails *)
Definition msafe (R : list tk) : Prop := forall fuel x acc, msg_prefix fuel (TIdent x :: R) acc = None.
Lemma msafe_head R : match R with TLBrace :: _ | TDot :: _ => False | _ => True end -> msafe R.
Proof.
  intros H fuel x acc. destruct fuel; [reflexivity|]. cbn [msg_prefix].
  destruct R as [|t r]; [reflexivity|]. destruct t; try reflexivity; contradiction.
Qed.
Lemma msafe_sel g R : msafe R -> msafe (TDot :: TIdent g :: R).
Proof. intros H fuel x acc. destruct fuel; [reflexivity|]. cbn [msg_prefix]. apply H. Qed.
Lemma msafe_call g R : msafe (TDot :: TIdent g :: TLParen :: R).
Proof. intros [|[|fuel]] x acc; reflexivity. Qed.

Definition postok (R : list tk) : Prop := msafe R /\ match R with TLParen :: _ => False | _ => True end.
Lemma stops_postok l R : stops l R -> postok R.
Proof.
  intros H. destruct R as [|t r]; [split; [now apply msafe_head|exact I]|]. destruct H as [H _].
  split; [apply msafe_head|]; destruct t; try discriminate; exact I.
Qed.

Lemma prim_id_k f x R : postok R -> p_primary (S f) (TIdent x :: R) = POk (EIdent x) R.
Proof.
  intros [Hm Hp]. rewrite u_primary. unfold ident_forms. rewrite Hm.
  destruct R as [|t r]; [reflexivity|]. destruct t; try reflexivity; contradiction.
Qed.

(** [Kpost t]: after the tokens of [t] at member level the parser is in the postfix loop with
    [ast t] in hand *)
Definition Kpost (t : st) : Prop := forall R X, postok R ->
  ev (fun f => p_postfix f (ast t) R) X -> ev (fun f => p_member f (tk_at 7 t ++ R)) X.

Lemma member_paren_k ts e R X :
  ev (fun f => p_expr f (ts ++ TRParen :: R)) (POk e (TRParen :: R)) ->
  ev (fun f => p_postfix f e R) X ->
  ev (fun f => p_member f (TLParen :: ts ++ TRParen :: R)) X.
Proof.
  intros [n1 H1] [n2 H2]. exists (S (S (max n1 n2))). intros [|[|f]] Hf; try lia.
  rewrite u_member, u_prim_paren, H1 by lia. apply H2. lia.
Qed.

Lemma Kpost_paren t : prec t < 7 -> Par t -> Kpost t.
Proof.
  intros Hp HP R X _ HX. rewrite (tk_paren 7 t Hp). cbn [app]. rewrite <- app_assoc. cbn [app].
  apply (member_paren_k (raw t) (ast t) R X); [|exact HX].
  pose proof (HP 0 ltac:(lia) (TRParen :: R)) as H0. rewrite (tk_raw 0 t) in H0 by lia. apply H0. cbn. auto.
Qed.

Lemma Par_of_Kpost t : prec t = 7 -> Kpost t -> Par t.
Proof.
  intros Hp HK. apply par_all.
  - intros rest Hs. rewrite Hp in *. cbn [p_at]. rewrite <- (tk_raw 7 t) by lia.
    apply HK; [eapply stops_postok; exact Hs|]. exists 1. intros [|f] Hf; [lia|]. now apply postfix_stop.
  - intros _. rewrite <- (tk_raw 7 t) by lia. apply tk7_head.
Qed.

(** comma-separated renderings and the ASTs of a list of trees *)
Fixpoint commas (l : list st) : list tk :=
  match l with
  | [] => []
  | x :: l' => raw x ++ match l' with [] => [] | _ => TComma :: commas l' end
  end.
Fixpoint entries_tk (l : list (st * st)) : list tk :=
  match l with
  | [] => []
  | (k, v) :: l' => raw k ++ [TColon] ++ raw v ++ match l' with [] => [] | _ => TComma :: entries_tk l' end
  end.
Definition entries_ast (l : list (st * st)) : list (expr * expr) := map (fun kv => (ast (fst kv), ast (snd kv))) l.

Lemma raw_mcall a g args : raw (SMCall a g args) = tk_at 7 a ++ [TDot; TIdent g; TLParen] ++ commas args ++ [TRParen].
Proof. reflexivity. Qed.
Lemma raw_call g args : raw (SCall g args) = [TIdent g; TLParen] ++ commas args ++ [TRParen].
Proof. reflexivity. Qed.
Lemma raw_list es : raw (SLst es) = [TLBracket] ++ commas es ++ [TRBracket].
Proof. reflexivity. Qed.
Lemma raw_map kvs : raw (SMap kvs) = [TLBrace] ++ entries_tk kvs ++ [TRBrace].
Proof. reflexivity. Qed.
Lemma ast_many l : (fix go (l : list st) : list expr := match l with [] => [] | r :: l' => ast r :: go l' end) l = map ast l.
Proof. induction l as [|x l IH]; [reflexivity|]. cbn [map]. now rewrite <- IH. Qed.
Lemma ast_mcall a g args : ast (SMCall a g args) = call_ast g (Some (ast a)) (map ast args).
Proof. cbn [ast]. now rewrite ast_many. Qed.
Lemma ast_call g args : ast (SCall g args) = call_ast g None (map ast args).
Proof. cbn [ast]. now rewrite ast_many. Qed.
Lemma ast_list es : ast (SLst es) = EList (map ast es).
Proof. cbn [ast]. now rewrite ast_many. Qed.
Lemma ast_map kvs : ast (SMap kvs) = EMap (entries_ast kvs).
Proof.
  cbn [ast]. f_equal. unfold entries_ast. induction kvs as [|[k v] l IH]; [reflexivity|]. cbn [map fst snd]. now rewrite <- IH.
Qed.

Lemma stops0_closer t R : match t with TRParen | TRBracket | TRBrace | TComma | TColon => True | _ => False end ->
  stops 0 (t :: R).
Proof. destruct t; try contradiction; cbn; auto. Qed.

(** argument lists: after '(' *)
Lemma args_rest_ok l : Forall Par l -> l <> [] -> forall acc R,
  ev (fun f => p_args_rest f acc (commas l ++ TRParen :: R)) (POk (rev' (rev (map ast l) ++ acc)) R).
Proof.
  induction 1 as [|a l Ha Hl IH]; intros Hne acc R; [congruence|].
  cbn [commas]. destruct l as [|b l'].
  - rewrite app_nil_r. destruct (Ha 0 ltac:(lia) (TRParen :: R) (stops0_closer TRParen R I)) as [n H].
    rewrite (tk_raw 0 a) in H by lia. cbn [p_at] in H.
    exists (S n). intros [|f] Hf; [lia|]. rewrite u_args_rest, H by lia. reflexivity.
  - rewrite <- app_assoc. cbn [app].
    destruct (Ha 0 ltac:(lia) (TComma :: commas (b :: l') ++ TRParen :: R) (stops0_closer TComma _ I)) as [n1 H1].
    rewrite (tk_raw 0 a) in H1 by lia. cbn [p_at] in H1.
    destruct (IH ltac:(discriminate) (ast a :: acc) R) as [n2 H2].
    exists (S (max n1 n2)). intros [|f] Hf; [lia|]. rewrite u_args_rest, H1 by lia. rewrite H2 by lia.
    cbn [map rev]. now rewrite <- !app_assoc.
Qed.

Lemma hd_not_closer ts R : hd_expr ts ->
  match ts ++ R with TRParen :: _ | TRBracket :: _ | TRBrace :: _ | TQuestion :: _ | TComma :: _ => False | _ => True end.
Proof. destruct ts as [|t r]; [contradiction|]. cbn. intros [H|[->| ->]]; [|exact I|exact I]. destruct t; try discriminate; exact I. Qed.

Lemma commas_hd a l : hd_expr (commas (a :: l)).
Proof. cbn [commas]. apply hd_expr_app, raw_hd. Qed.

Lemma args_ok l : Forall Par l -> forall R,
  ev (fun f => p_args f (commas l ++ TRParen :: R)) (POk (map ast l) R).
Proof.
  intros Hl R. destruct l as [|a l].
  - exists 1. intros [|f] Hf; [lia|]. reflexivity.
  - destruct (args_rest_ok (a :: l) Hl ltac:(discriminate) [] R) as [n H].
    exists (S n). intros [|f] Hf; [lia|]. rewrite u_args.
    pose proof (commas_hd a l) as Hh.
    assert (E : match commas (a :: l) ++ TRParen :: R with
                | TRParen :: ts1 => POk [] ts1
                | _ => p_args_rest f [] (commas (a :: l) ++ TRParen :: R)
                end = p_args_rest f [] (commas (a :: l) ++ TRParen :: R)).
    { destruct (commas (a :: l)) as [|t0 r0]; [contradiction|]. cbn [app].
      destruct Hh as [Hh|[->| ->]]; [|reflexivity|reflexivity]. destruct t0; try discriminate; reflexivity. }
    rewrite E, H by lia. now rewrite app_nil_r, rev'_rev, rev_involutive.
Qed.

(** list elements: after '[' *)
Lemma elems_ok l : Forall Par l -> forall acc R,
  ev (fun f => p_elems f acc (commas l ++ TRBracket :: R)) (POk (rev' (rev (map ast l) ++ acc)) R).
Proof.
  induction 1 as [|a l Ha Hl IH]; intros acc R.
  - exists 1. intros [|f] Hf; [lia|]. reflexivity.
  - assert (Skip : forall f ts, (match ts with TRBracket :: _ | TQuestion :: _ => False | _ => True end) ->
        p_elems (S f) acc ts = match p_expr f ts with
          | POk a (TComma :: ts1) => p_elems f (a :: acc) ts1
          | POk a (TRBracket :: ts1) => POk (rev' (a :: acc)) ts1
          | POk _ _ => PFail | PFail => PFail | PFuel => PFuel end).
    { intros f ts Hh. rewrite u_elems. destruct ts as [|t r]; [reflexivity|]. destruct t; try reflexivity; contradiction. }
    assert (Hh : match commas (a :: l) ++ TRBracket :: R with TRBracket :: _ | TQuestion :: _ => False | _ => True end).
    { pose proof (hd_not_closer (commas (a :: l)) (TRBracket :: R) (commas_hd a l)) as H0.
      destruct (commas (a :: l) ++ TRBracket :: R) as [|t r]; [exact I|]. destruct t; auto. }
    cbn [commas] in *. destruct l as [|b l'].
    + rewrite app_nil_r in *. destruct (Ha 0 ltac:(lia) (TRBracket :: R) (stops0_closer TRBracket R I)) as [n H].
      rewrite (tk_raw 0 a) in H by lia. cbn [p_at] in H.
      exists (S n). intros [|f] Hf; [lia|]. rewrite (Skip f _ Hh), H by lia. reflexivity.
    + rewrite <- app_assoc in *. cbn [app] in *.
      destruct (Ha 0 ltac:(lia) (TComma :: commas (b :: l') ++ TRBracket :: R) (stops0_closer TComma _ I)) as [n1 H1].
      rewrite (tk_raw 0 a) in H1 by lia. cbn [p_at] in H1.
      destruct (IH (ast a :: acc) R) as [n2 H2].
      exists (S (max n1 n2)). intros [|f] Hf; [lia|]. rewrite (Skip f _ Hh), H1 by lia. rewrite H2 by lia.
      cbn [map rev]. now rewrite <- !app_assoc.
Qed.

(** map entries: after '{' *)
Lemma entries_ok l : Forall (fun kv => Par (fst kv) /\ Par (snd kv)) l -> forall acc R,
  ev (fun f => p_entries f acc (entries_tk l ++ TRBrace :: R)) (POk (rev' (rev (entries_ast l) ++ acc)) R).
Proof.
  induction 1 as [|[k v] l [Hk Hv] Hl IH]; intros acc R.
  - exists 1. intros [|f] Hf; [lia|]. reflexivity.
  - cbn [fst snd] in Hk, Hv.
    assert (Skip : forall f ts, (match ts with TRBrace :: _ | TQuestion :: _ => False | _ => True end) ->
        p_entries (S f) acc ts = match p_expr f ts with
          | POk k (TColon :: ts1) =>
              match p_expr f ts1 with
              | POk v (TComma :: ts2) => p_entries f ((k, v) :: acc) ts2
              | POk v (TRBrace :: ts2) => POk (rev' ((k, v) :: acc)) ts2
              | POk _ _ => PFail | PFail => PFail | PFuel => PFuel end
          | POk _ _ => PFail | PFail => PFail | PFuel => PFuel end).
    { intros f ts Hh. rewrite u_entries. destruct ts as [|t r]; [reflexivity|]. destruct t; try reflexivity; contradiction. }
    assert (Hh : match entries_tk ((k, v) :: l) ++ TRBrace :: R with TRBrace :: _ | TQuestion :: _ => False | _ => True end).
    { cbn [entries_tk]. rewrite <- app_assoc.
      pose proof (hd_not_closer (raw k) (([TColon] ++ raw v ++ match l with [] => [] | _ :: _ => TComma :: entries_tk l end) ++ TRBrace :: R) (raw_hd k)) as H0.
      destruct (raw k ++ _) as [|t r]; [exact I|]. destruct t; auto. }
    cbn [entries_tk] in *. rewrite <- !app_assoc in *. cbn [app] in *.
    destruct l as [|kv l'].
    + cbn [app] in *.
      destruct (Hk 0 ltac:(lia) (TColon :: raw v ++ TRBrace :: R) (stops0_closer TColon _ I)) as [n1 H1].
      rewrite (tk_raw 0 k) in H1 by lia. cbn [p_at] in H1.
      destruct (Hv 0 ltac:(lia) (TRBrace :: R) (stops0_closer TRBrace R I)) as [n2 H2].
      rewrite (tk_raw 0 v) in H2 by lia. cbn [p_at] in H2.
      exists (S (max n1 n2)). intros [|f] Hf; [lia|]. rewrite (Skip f _ Hh), H1 by lia. rewrite H2 by lia. reflexivity.
    + cbn [app] in *.
      destruct (Hk 0 ltac:(lia) (TColon :: raw v ++ TComma :: entries_tk (kv :: l') ++ TRBrace :: R) (stops0_closer TColon _ I)) as [n1 H1].
      rewrite (tk_raw 0 k) in H1 by lia. cbn [p_at] in H1.
      destruct (Hv 0 ltac:(lia) (TComma :: entries_tk (kv :: l') ++ TRBrace :: R) (stops0_closer TComma _ I)) as [n2 H2].
      rewrite (tk_raw 0 v) in H2 by lia. cbn [p_at] in H2.
      destruct (IH ((ast k, ast v) :: acc) R) as [n3 H3].
      exists (S (max n1 (max n2 n3))). intros [|f] Hf; [lia|]. rewrite (Skip f _ Hh), H1 by lia. rewrite H2 by lia. rewrite H3 by lia.
      unfold entries_ast. cbn [map rev fst snd]. now rewrite <- !app_assoc.
Qed.

(** message literals:  [.]a.b.T{f1: v1, ...} *)
Fixpoint fields_tk (l : list (str * st)) : list tk :=
  match l with
  | [] => []
  | (n, v) :: l' => TIdent n :: TColon :: raw v ++ match l' with [] => [] | _ => TComma :: fields_tk l' end
  end.
Definition fields_ast (l : list (str * st)) : list (str * expr) := map (fun nv => (fst nv, ast (snd nv))) l.

Lemma raw_msg lead names fields :
  raw (SMsg lead names fields) = (if lead then [TDot] else []) ++ ids_tk names ++ [TLBrace] ++ fields_tk fields ++ [TRBrace].
Proof. reflexivity. Qed.
Lemma ast_msg lead names fields :
  ast (SMsg lead names fields) = EStruct (if lead then 46%N :: join_dots names else join_dots names) (fields_ast fields).
Proof.
  cbn [ast]. f_equal. unfold fields_ast. induction fields as [|[n v] l IH]; [reflexivity|]. cbn [map fst snd]. now rewrite <- IH.
Qed.

Lemma msg_prefix_ok names : names <> [] -> forall fuel acc r, length names <= fuel ->
  msg_prefix fuel (ids_tk names ++ TLBrace :: r) acc = Some (rev' (rev names ++ acc), r).
Proof.
  induction names as [|a names IH]; intros Hne fuel acc r Hf; [congruence|].
  destruct fuel as [|fuel]; [cbn in Hf; lia|]. destruct names as [|b names'].
  - cbn [ids_tk app msg_prefix rev]. reflexivity.
  - change (ids_tk (a :: b :: names')) with (TIdent a :: TDot :: ids_tk (b :: names')).
    cbn [app msg_prefix]. rewrite (IH ltac:(discriminate) fuel (a :: acc) r ltac:(cbn [length] in *; lia)).
    cbn [rev]. now rewrite <- !app_assoc.
Qed.

Lemma fields_ok l : Forall (fun nv => Par (snd nv)) l -> forall acc R,
  ev (fun f => p_fields f acc (fields_tk l ++ TRBrace :: R)) (POk (rev' (rev (fields_ast l) ++ acc)) R).
Proof.
  induction 1 as [|[n v] l Hv Hl IH]; intros acc R.
  - exists 1. intros [|f] Hf; [lia|]. reflexivity.
  - cbn [snd] in Hv. cbn [fields_tk]. destruct l as [|nv l'].
    + rewrite app_nil_r. cbn [app].
      destruct (Hv 0 ltac:(lia) (TRBrace :: R) (stops0_closer TRBrace R I)) as [n1 H1].
      rewrite (tk_raw 0 v) in H1 by lia. cbn [p_at] in H1.
      exists (S n1). intros [|f] Hf; [lia|]. rewrite u_fields, H1 by lia. reflexivity.
    + cbn [app]. rewrite <- app_assoc. cbn [app].
      destruct (Hv 0 ltac:(lia) (TComma :: fields_tk (nv :: l') ++ TRBrace :: R) (stops0_closer TComma _ I)) as [n1 H1].
      rewrite (tk_raw 0 v) in H1 by lia. cbn [p_at] in H1.
      destruct (IH ((n, ast v) :: acc) R) as [n2 H2].
      exists (S (max n1 n2)). intros [|f] Hf; [lia|]. rewrite u_fields, H1 by lia. rewrite H2 by lia.
      unfold fields_ast. cbn [map rev fst snd]. now rewrite <- !app_assoc.
Qed.

(** ** The optional trailing comma of list, map and message literals *)
Lemma elems_trail_ok l : Forall Par l -> l <> [] -> forall acc R,
  ev (fun f => p_elems f acc (commas l ++ TComma :: TRBracket :: R)) (POk (rev' (rev (map ast l) ++ acc)) R).
Proof.
  induction 1 as [|a l Ha Hl IH]; intros Hne acc R; [congruence|].
  assert (Skip : forall f ts, (match ts with TRBracket :: _ | TQuestion :: _ => False | _ => True end) ->
      p_elems (S f) acc ts = match p_expr f ts with
        | POk a (TComma :: ts1) => p_elems f (a :: acc) ts1
        | POk a (TRBracket :: ts1) => POk (rev' (a :: acc)) ts1
        | POk _ _ => PFail | PFail => PFail | PFuel => PFuel end).
  { intros f ts Hh. rewrite u_elems. destruct ts as [|t r]; [reflexivity|]. destruct t; try reflexivity; contradiction. }
  assert (Hh : match commas (a :: l) ++ TComma :: TRBracket :: R with TRBracket :: _ | TQuestion :: _ => False | _ => True end).
  { pose proof (hd_not_closer (commas (a :: l)) (TComma :: TRBracket :: R) (commas_hd a l)) as H0.
    destruct (commas (a :: l) ++ TComma :: TRBracket :: R) as [|t r]; [exact I|]. destruct t; auto. }
  cbn [commas] in *. destruct l as [|b l'].
  - rewrite app_nil_r in *. destruct (Ha 0 ltac:(lia) (TComma :: TRBracket :: R) (stops0_closer TComma _ I)) as [n H].
    rewrite (tk_raw 0 a) in H by lia. cbn [p_at] in H.
    exists (S (S n)). intros [|[|f]] Hf; try lia. rewrite (Skip (S f) _ Hh), H by lia. rewrite u_elems. reflexivity.
  - rewrite <- app_assoc in *. cbn [app] in *.
    destruct (Ha 0 ltac:(lia) (TComma :: commas (b :: l') ++ TComma :: TRBracket :: R) (stops0_closer TComma _ I)) as [n1 H1].
    rewrite (tk_raw 0 a) in H1 by lia. cbn [p_at] in H1.
    destruct (IH ltac:(discriminate) (ast a :: acc) R) as [n2 H2].
    exists (S (max n1 n2)). intros [|f] Hf; [lia|]. rewrite (Skip f _ Hh), H1 by lia. rewrite H2 by lia.
    cbn [map rev]. now rewrite <- !app_assoc.
Qed.

Lemma entries_trail_ok l : Forall (fun kv => Par (fst kv) /\ Par (snd kv)) l -> l <> [] -> forall acc R,
  ev (fun f => p_entries f acc (entries_tk l ++ TComma :: TRBrace :: R)) (POk (rev' (rev (entries_ast l) ++ acc)) R).
Proof.
  induction 1 as [|[k v] l [Hk Hv] Hl IH]; intros Hne acc R; [congruence|].
  cbn [fst snd] in Hk, Hv.
  assert (Skip : forall f ts, (match ts with TRBrace :: _ | TQuestion :: _ => False | _ => True end) ->
      p_entries (S f) acc ts = match p_expr f ts with
        | POk k (TColon :: ts1) =>
            match p_expr f ts1 with
            | POk v (TComma :: ts2) => p_entries f ((k, v) :: acc) ts2
            | POk v (TRBrace :: ts2) => POk (rev' ((k, v) :: acc)) ts2
            | POk _ _ => PFail | PFail => PFail | PFuel => PFuel end
        | POk _ _ => PFail | PFail => PFail | PFuel => PFuel end).
  { intros f ts Hh. rewrite u_entries. destruct ts as [|t r]; [reflexivity|]. destruct t; try reflexivity; contradiction. }
  assert (Hh : match entries_tk ((k, v) :: l) ++ TComma :: TRBrace :: R with TRBrace :: _ | TQuestion :: _ => False | _ => True end).
  { cbn [entries_tk]. rewrite <- app_assoc.
    pose proof (hd_not_closer (raw k) (([TColon] ++ raw v ++ match l with [] => [] | _ :: _ => TComma :: entries_tk l end) ++ TComma :: TRBrace :: R) (raw_hd k)) as H0.
    destruct (raw k ++ _) as [|t r]; [exact I|]. destruct t; auto. }
  cbn [entries_tk] in *. rewrite <- !app_assoc in *. cbn [app] in *.
  destruct l as [|kv l'].
  - cbn [app] in *.
    destruct (Hk 0 ltac:(lia) (TColon :: raw v ++ TComma :: TRBrace :: R) (stops0_closer TColon _ I)) as [n1 H1].
    rewrite (tk_raw 0 k) in H1 by lia. cbn [p_at] in H1.
    destruct (Hv 0 ltac:(lia) (TComma :: TRBrace :: R) (stops0_closer TComma _ I)) as [n2 H2].
    rewrite (tk_raw 0 v) in H2 by lia. cbn [p_at] in H2.
    exists (S (S (max n1 n2))). intros [|[|f]] Hf; try lia. rewrite (Skip (S f) _ Hh), H1 by lia. rewrite H2 by lia.
    rewrite u_entries. reflexivity.
  - cbn [app] in *.
    destruct (Hk 0 ltac:(lia) (TColon :: raw v ++ TComma :: entries_tk (kv :: l') ++ TComma :: TRBrace :: R) (stops0_closer TColon _ I)) as [n1 H1].
    rewrite (tk_raw 0 k) in H1 by lia. cbn [p_at] in H1.
    destruct (Hv 0 ltac:(lia) (TComma :: entries_tk (kv :: l') ++ TComma :: TRBrace :: R) (stops0_closer TComma _ I)) as [n2 H2].
    rewrite (tk_raw 0 v) in H2 by lia. cbn [p_at] in H2.
    destruct (IH ltac:(discriminate) ((ast k, ast v) :: acc) R) as [n3 H3].
    exists (S (max n1 (max n2 n3))). intros [|f] Hf; [lia|]. rewrite (Skip f _ Hh), H1 by lia. rewrite H2 by lia. rewrite H3 by lia.
    unfold entries_ast. cbn [map rev fst snd]. now rewrite <- !app_assoc.
Qed.

Lemma fields_trail_ok l : Forall (fun nv => Par (snd nv)) l -> l <> [] -> forall acc R,
  ev (fun f => p_fields f acc (fields_tk l ++ TComma :: TRBrace :: R)) (POk (rev' (rev (fields_ast l) ++ acc)) R).
Proof.
  induction 1 as [|[n v] l Hv Hl IH]; intros Hne acc R; [congruence|].
  cbn [snd] in Hv. cbn [fields_tk]. destruct l as [|nv l'].
  - rewrite app_nil_r. cbn [app].
    destruct (Hv 0 ltac:(lia) (TComma :: TRBrace :: R) (stops0_closer TComma _ I)) as [n1 H1].
    rewrite (tk_raw 0 v) in H1 by lia. cbn [p_at] in H1.
    exists (S (S n1)). intros [|[|f]] Hf; try lia. rewrite u_fields, H1 by lia. rewrite u_fields. reflexivity.
  - cbn [app]. rewrite <- app_assoc. cbn [app].
    destruct (Hv 0 ltac:(lia) (TComma :: fields_tk (nv :: l') ++ TComma :: TRBrace :: R) (stops0_closer TComma _ I)) as [n1 H1].
    rewrite (tk_raw 0 v) in H1 by lia. cbn [p_at] in H1.
    destruct (IH ltac:(discriminate) ((n, ast v) :: acc) R) as [n2 H2].
    exists (S (max n1 n2)). intros [|f] Hf; [lia|]. rewrite u_fields, H1 by lia. rewrite H2 by lia.
    unfold fields_ast. cbn [map rev fst snd]. now rewrite <- !app_assoc.
Qed.

Lemma raw_listt es : raw (SLstT es) = [TLBracket] ++ commas es ++ [TComma; TRBracket].
Proof. reflexivity. Qed.
Lemma raw_mapt kvs : raw (SMapT kvs) = [TLBrace] ++ entries_tk kvs ++ [TComma; TRBrace].
Proof. reflexivity. Qed.
Lemma raw_msgt lead names fields :
  raw (SMsgT lead names fields) = (if lead then [TDot] else []) ++ ids_tk names ++ [TLBrace] ++ fields_tk fields ++ [TComma; TRBrace].
Proof. reflexivity. Qed.
Lemma raw_dotcall g args : raw (SDotCall g args) = [TDot; TIdent g; TLParen] ++ commas args ++ [TRParen].
Proof. reflexivity. Qed.
Lemma ast_listt es : ast (SLstT es) = EList (map ast es).
Proof. cbn [ast]. now rewrite ast_many. Qed.
Lemma ast_mapt kvs : ast (SMapT kvs) = EMap (entries_ast kvs).
Proof.
  cbn [ast]. f_equal. unfold entries_ast. induction kvs as [|[k v] l IH]; [reflexivity|]. cbn [map fst snd]. now rewrite <- IH.
Qed.
Lemma ast_msgt lead names fields :
  ast (SMsgT lead names fields) = EStruct (if lead then 46%N :: join_dots names else join_dots names) (fields_ast fields).
Proof.
  cbn [ast]. f_equal. unfold fields_ast. induction fields as [|[n v] l IH]; [reflexivity|]. cbn [map fst snd]. now rewrite <- IH.
Qed.
Lemma ast_dotcall g args : ast (SDotCall g args) = call_ast (46%N :: g) None (map ast args).
Proof. cbn [ast]. now rewrite ast_many. Qed.

Lemma prim_dotid_k f x R : postok R -> p_primary (S f) (TDot :: TIdent x :: R) = POk (EIdent x) R.
Proof.
  intros [Hm Hp]. rewrite u_primary. unfold ident_forms. rewrite Hm.
  destruct R as [|t r]; [reflexivity|]. destruct t; try reflexivity; contradiction.
Qed.
Lemma msafe_selesc g R : msafe (TDot :: TEscIdent g :: R).
Proof. intros [|[|fuel]] x acc; reflexivity. Qed.

Lemma fields_tk_head l R : match fields_tk l ++ TRBrace :: R with TComma :: TRBrace :: _ => False | _ => True end.
Proof. destruct l as [|[n v] l]; cbn; exact I. Qed.

Lemma mk_call_plain g tgt args rest : call_ok g tgt args = true ->
  mk_call g tgt args rest = POk (call_ast g tgt args) rest.
Proof.
  unfold call_ok, call_ast, mk_call. destruct (expand_call g tgt args); [reflexivity|discriminate].
Qed.

(** A name, receiver style and argument count no macro has: the call node itself. *)
Lemma call_ast_plain g tgt args : no_macro g (match tgt with Some _ => true | None => false end) (length args) = true ->
  call_ok g tgt args = true /\ call_ast g tgt args = ECall g tgt args.
Proof.
  unfold no_macro, call_ok, call_ast, expand_call. destruct (find_expander g _ (length args)); [discriminate|split; reflexivity].
Qed.

Definition Good (t : st) : Prop := Par t /\ Kmul t /\ Kadd t /\ Krel t /\ Kpost t.

Lemma good_prim t : prec t = 7 -> Kpost t -> Good t.
Proof.
  intros Hp HK. pose proof (Par_of_Kpost t Hp HK) as HP.
  repeat split; [exact HP|apply Kmul_from_par|apply Kadd_from_par|apply Krel_from_par|exact HK]; auto; lia.
Qed.
Lemma good_low t : prec t < 7 -> Par t -> (prec t = 5 -> Kmul t) -> (prec t = 4 -> Kadd t) -> (prec t = 3 -> Krel t) -> Good t.
Proof.
  intros Hp HP H5 H4 H3. repeat split; [exact HP| | | |apply Kpost_paren; assumption].
  - destruct (Nat.eq_dec (prec t) 5); [auto|now apply Kmul_from_par].
  - destruct (Nat.eq_dec (prec t) 4); [auto|now apply Kadd_from_par].
  - destruct (Nat.eq_dec (prec t) 3); [auto|now apply Krel_from_par].
Qed.

Theorem roundtrip_all t : wf_st t -> Good t.
Proof.
  induction t using st_ind'; intros W; cbn [wf_st] in W.
  - (* identifier *)
    apply good_prim; [reflexivity|]. intros R X HR [n H].
    exists (S (S n)). intros [|[|f]] Hf; try lia. rewrite (tk_raw 7 (SId x)) by (cbn; lia). cbn [raw app].
    rewrite u_member, (prim_id_k f x R HR). apply H. lia.
  - (* literal *)
    apply good_prim; [reflexivity|]. intros R X HR [n H].
    exists (S (S n)). intros [|[|f]] Hf; try lia. rewrite (tk_raw 7 (SLit l)) by (cbn; lia). cbn [raw app].
    rewrite u_member.
    assert (E : p_primary (S f) (lit_tk l :: R) = POk (ELit (lit_val l)) R).
    { rewrite u_primary. destruct l as [z|z|[]| |t s|t b|t]; cbn [lit_tk lit_val wf_lit] in *; try reflexivity.
      - apply andb_prop in W as [W0 W1]. cbn [literal_of].
        pose proof (int_literal_dec z W1) as E. replace (z <? 0)%Z with false in E by lia.
        replace (Z.abs z) with z in E by lia. now rewrite E.
      - cbn [literal_of]. now rewrite (uint_literal_dec z (ch "u") W).
      - cbn [literal_of]. destruct (decode_string t) as [s'|]; [|discriminate].
        apply str_eqb_eq in W. now subst s'.
      - cbn [literal_of]. destruct (decode_bytes t) as [b'|]; [|discriminate].
        apply str_eqb_eq in W. now subst b'.
      - cbn [literal_of]. destruct (double_literal false t); [reflexivity|discriminate]. }
    rewrite E. apply H. lia.
  - (* negative integer literal *)
    apply andb_prop in W as [W0 W1].
    assert (HP : Par (SNegLit z)).
    { apply par_all; [|cbn; lia]. intros rest Hs. cbn [prec] in Hs. cbn [prec p_at raw app].
      assert (S7 : stops 7 rest) by (eapply stops_le; [|exact Hs]; lia).
      exists 3. intros [|[|[|f]]] Hf; try lia.
      rewrite u_unary_minus. cbn [is_number_tok]. rewrite u_member, u_primary. cbn [literal_of].
      pose proof (int_literal_dec z W1) as E. rewrite W0 in E. replace (Z.abs z) with (- z)%Z in E by lia.
      rewrite E. cbn [option_map]. now apply postfix_stop. }
    apply good_low; [cbn; lia|exact HP|cbn; intros; discriminate|cbn; intros; discriminate|cbn; intros; discriminate].
  - (* negative double literal *)
    assert (HP : Par (SNegDbl t)).
    { apply par_all; [|cbn; lia]. intros rest Hs. cbn [prec] in Hs. cbn [prec p_at raw app].
      assert (S7 : stops 7 rest) by (eapply stops_le; [|exact Hs]; lia).
      exists 3. intros [|[|[|f]]] Hf; try lia.
      rewrite u_unary_minus. cbn [is_number_tok]. rewrite u_member, u_primary. cbn [literal_of ast].
      destruct (double_literal true t) as [d|]; [|now elim W]. cbn [option_map]. now apply postfix_stop. }
    apply good_low; [cbn; lia|exact HP|cbn; intros; discriminate|cbn; intros; discriminate|cbn; intros; discriminate].
  - (* field selection *)
    destruct (IHt W) as (_ & _ & _ & _ & Ka).
    apply good_prim; [reflexivity|]. intros R X [Rm Rp] [n H].
    rewrite (tk_raw 7 (SSel t f)) by (cbn; lia). cbn [raw]. fold (tk_at 7 t). rewrite <- app_assoc. cbn [app].
    apply Ka; [split; [now apply msafe_sel|exact I]|].
    exists (S n). intros [|f0] Hf; [lia|]. rewrite u_postfix.
    replace (match R with TLParen :: _ => _ | _ => p_postfix f0 (ESelect (ast t) f false) R end)
      with (p_postfix f0 (ESelect (ast t) f false) R) by (destruct R as [|t0 r]; [reflexivity|]; destruct t0; try reflexivity; contradiction).
    apply H. lia.
  - (* index *)
    destruct W as [Wa Wi]. destruct (IHt1 Wa) as (_ & _ & _ & _ & Ka). destruct (IHt2 Wi) as (Pi & _).
    apply good_prim; [reflexivity|]. intros R X HR [n H].
    rewrite (tk_raw 7 (SIdx t1 t2)) by (cbn; lia). cbn [raw]. fold (tk_at 7 t1). rewrite <- !app_assoc. cbn [app].
    apply Ka; [split; [now apply msafe_head|exact I]|].
    destruct (Pi 0 ltac:(lia) (TRBracket :: R) (stops0_closer TRBracket R I)) as [n1 H1].
    rewrite (tk_raw 0 t2) in H1 by lia. cbn [p_at] in H1.
    exists (S (max n n1)). intros [|f0] Hf; [lia|]. rewrite u_postfix.
    pose proof (hd_not_closer (raw t2) (TRBracket :: R) (raw_hd t2)) as Hh.
    assert (E : match raw t2 ++ TRBracket :: R with
                | TQuestion :: _ => PFail
                | _ => match p_expr f0 (raw t2 ++ TRBracket :: R) with
                       | POk i (TRBracket :: ts2) => p_postfix f0 (ECall $"_[_]" None [ast t1; i]) ts2
                       | POk _ _ => PFail | PFail => PFail | PFuel => PFuel end
                end = p_postfix f0 (ECall $"_[_]" None [ast t1; ast t2]) R).
    { rewrite H1 by lia. destruct (raw t2 ++ TRBracket :: R) as [|t0 r]; [reflexivity|]. destruct t0; try reflexivity; contradiction. }
    rewrite E. apply H. lia.
  - (* member call *)
    destruct W as (Wm & Wa & Wargs). destruct (IHt Wa) as (_ & _ & _ & _ & Ka).
    assert (Pargs : Forall Par args).
    { clear Wm. induction H as [|r rs Hr _ IH]; [constructor|]. destruct Wargs as [Wr Wrs].
      constructor; [exact (proj1 (Hr Wr))|exact (IH Wrs)]. }
    apply good_prim; [reflexivity|]. intros R X HR [n HX].
    rewrite (tk_raw 7 (SMCall t f args)) by (cbn; lia). rewrite raw_mcall, <- !app_assoc. cbn [app].
    apply Ka; [split; [apply msafe_call|exact I]|].
    destruct (args_ok args Pargs R) as [n1 H1].
    exists (S (max n n1)). intros [|f0] Hf; [lia|]. rewrite u_postfix, H1 by lia.
    rewrite mk_call_plain by exact Wm. rewrite ast_mcall in HX. apply HX. lia.
  - (* global call *)
    destruct W as (Wm & Wargs).
    assert (Pargs : Forall Par args).
    { clear Wm. induction H as [|r rs Hr _ IH]; [constructor|]. destruct Wargs as [Wr Wrs].
      constructor; [exact (proj1 (Hr Wr))|exact (IH Wrs)]. }
    apply good_prim; [reflexivity|]. intros R X HR [n HX].
    rewrite (tk_raw 7 (SCall f args)) by (cbn; lia). rewrite raw_call, <- !app_assoc. cbn [app].
    destruct (args_ok args Pargs R) as [n1 H1].
    exists (S (S (max n n1))). intros [|[|f0]] Hf; try lia. rewrite u_member, u_primary. unfold ident_forms.
    cbn [msg_prefix length]. rewrite H1 by lia.
    rewrite mk_call_plain by exact Wm. rewrite ast_call in HX. apply HX. lia.
  - (* list literal *)
    assert (Pes : Forall Par es).
    { induction H as [|r rs Hr _ IH]; [constructor|]. destruct W as [Wr Wrs].
      constructor; [exact (proj1 (Hr Wr))|exact (IH Wrs)]. }
    apply good_prim; [reflexivity|]. intros R X HR [n HX].
    rewrite (tk_raw 7 (SLst es)) by (cbn; lia). rewrite raw_list, <- !app_assoc. cbn [app].
    destruct (elems_ok es Pes [] R) as [n1 H1].
    exists (S (S (max n n1))). intros [|[|f0]] Hf; try lia. rewrite u_member, u_primary.
    assert (E : match commas es ++ TRBracket :: R with
                | TComma :: TRBracket :: ts1 => POk (EList []) ts1
                | _ => match p_elems f0 [] (commas es ++ TRBracket :: R) with
                       | POk es0 ts2 => POk (EList es0) ts2 | PFail => PFail | PFuel => PFuel end
                end = POk (EList (map ast es)) R).
    { rewrite H1 by lia. rewrite app_nil_r, rev'_rev, rev_involutive.
      destruct es as [|e0 es']; [reflexivity|].
      pose proof (hd_not_closer (commas (e0 :: es')) (TRBracket :: R) (commas_hd e0 es')) as Hh.
      destruct (commas (e0 :: es') ++ TRBracket :: R) as [|t0 r]; [reflexivity|]. destruct t0; try reflexivity; contradiction. }
    rewrite E. rewrite ast_list in HX. apply HX. lia.
  - (* map literal *)
    assert (Pkvs : Forall (fun kv => Par (fst kv) /\ Par (snd kv)) kvs).
    { induction H as [|[k v] l [Hk Hv] _ IH]; [constructor|]. destruct W as (Wk & Wv & Wl).
      constructor; [split; [exact (proj1 (Hk Wk))|exact (proj1 (Hv Wv))]|exact (IH Wl)]. }
    apply good_prim; [reflexivity|]. intros R X HR [n HX].
    rewrite (tk_raw 7 (SMap kvs)) by (cbn; lia). rewrite raw_map, <- !app_assoc. cbn [app].
    destruct (entries_ok kvs Pkvs [] R) as [n1 H1].
    exists (S (S (max n n1))). intros [|[|f0]] Hf; try lia. rewrite u_member, u_primary.
    assert (E : match entries_tk kvs ++ TRBrace :: R with
                | TComma :: TRBrace :: ts1 => POk (EMap []) ts1
                | _ => match p_entries f0 [] (entries_tk kvs ++ TRBrace :: R) with
                       | POk es0 ts2 => POk (EMap es0) ts2 | PFail => PFail | PFuel => PFuel end
                end = POk (EMap (entries_ast kvs)) R).
    { rewrite H1 by lia. rewrite app_nil_r, rev'_rev, rev_involutive.
      destruct kvs as [|[k v] l]; [reflexivity|]. cbn [entries_tk]. rewrite <- app_assoc.
      pose proof (hd_not_closer (raw k) (([TColon] ++ raw v ++ match l with [] => [] | _ :: _ => TComma :: entries_tk l end) ++ TRBrace :: R) (raw_hd k)) as Hh.
      destruct (raw k ++ _) as [|t0 r]; [reflexivity|]. destruct t0; try reflexivity; contradiction. }
    rewrite E. rewrite ast_map in HX. apply HX. lia.
  - (* message literal *)
    destruct W as [Wn Wf].
    assert (Pf : Forall (fun nv => Par (snd nv)) fields).
    { clear Wn. induction H as [|[n v] l Hv _ IH]; [constructor|]. destruct Wf as [Wv Wl].
      constructor; [exact (proj1 (Hv Wv))|exact (IH Wl)]. }
    apply good_prim; [reflexivity|]. intros R X HR [n HX].
    rewrite (tk_raw 7 (SMsg lead names fields)) by (cbn; lia). rewrite raw_msg, <- !app_assoc. cbn [app].
    destruct (fields_ok fields Pf [] R) as [n1 H1].
    exists (S (S (max n n1))). intros [|[|f0]] Hf; try lia. rewrite u_member.
    assert (E : p_primary (S f0) ((if lead then [TDot] else []) ++ ids_tk names ++ TLBrace :: fields_tk fields ++ TRBrace :: R) =
                POk (EStruct (if lead then 46%N :: join_dots names else join_dots names) (fields_ast fields)) R).
    { assert (IF : forall b, ident_forms f0 b (ids_tk names ++ TLBrace :: fields_tk fields ++ TRBrace :: R) =
                   POk (EStruct (if b then 46%N :: join_dots names else join_dots names) (fields_ast fields)) R).
      { intros b. unfold ident_forms.
        rewrite (msg_prefix_ok names Wn _ [] (fields_tk fields ++ TRBrace :: R))
          by (rewrite app_length; assert (length names <= length (ids_tk names)); [|lia];
              clear; induction names as [|a [|b0 r] IHn]; cbn [ids_tk length] in *; lia).
        rewrite app_nil_r, rev'_rev, rev_involutive.
        pose proof (fields_tk_head fields R) as Hh.
        destruct (fields_tk fields ++ TRBrace :: R) as [|t0 r0] eqn:Er; [destruct fields as [|[? ?] ?]; discriminate|].
        assert (G : match p_fields f0 [] (t0 :: r0) with
                    | POk fs ts2 => let n0 := join_dots names in POk (EStruct (if b then 46%N :: n0 else n0) fs) ts2
                    | PFail => PFail | PFuel => PFuel end =
                    POk (EStruct (if b then 46%N :: join_dots names else join_dots names) (fields_ast fields)) R).
        { rewrite H1 by lia. now rewrite app_nil_r, rev'_rev, rev_involutive. }
        destruct t0; try exact G. destruct r0 as [|t1 r1]; [exact G|]. destruct t1; try exact G. contradiction. }
      rewrite u_primary. destruct lead; cbn [app].
      - apply IF.
      - destruct names as [|a names']; [congruence|]. specialize (IF false).
        set (ts := ids_tk (a :: names') ++ TLBrace :: fields_tk fields ++ TRBrace :: R) in *.
        assert (Hd : exists r', ts = TIdent a :: r') by (unfold ts; destruct names'; cbn [ids_tk app]; eauto).
        destruct Hd as [r' Hr]. clearbody ts. subst ts. exact IF. }
    rewrite E. rewrite ast_msg in HX. apply HX. lia.
  - (* '!' run *)
    destruct (IHt W) as (Pa & _).
    assert (HP : Par (SNot n t)).
    { apply par_all; [|cbn; lia]. intros rest Hs. cbn [prec] in Hs. cbn [prec p_at raw]. fold (tk_at 7 t). rewrite <- app_assoc.
      assert (S7 : stops 7 rest) by (eapply stops_le; [|exact Hs]; lia).
      destruct (Pa 7 (le_n 7) rest S7) as [n1 H1]. cbn [p_at] in H1.
      exists (S n1). intros [|f] Hf; [lia|]. cbn [repeat app]. rewrite u_unary_bang.
      change (TBang :: repeat TBang n ++ tk_at 7 t ++ rest) with (repeat TBang (S n) ++ tk_at 7 t ++ rest).
      rewrite (count_bangs (S n) _ (tk7_not_bang t rest)). rewrite H1 by lia. reflexivity. }
    apply good_low; [cbn; lia|exact HP|cbn; intros; discriminate|cbn; intros; discriminate|cbn; intros; discriminate].
  - (* '-' run *)
    destruct W as [W Wn]. fold (tk_at 7 t) in Wn. destruct (IHt W) as (Pa & _).
    assert (HP : Par (SNeg n t)).
    { apply par_all; [|cbn; lia]. intros rest Hs. cbn [prec] in Hs. cbn [prec p_at raw]. fold (tk_at 7 t). rewrite <- app_assoc.
      assert (S7 : stops 7 rest) by (eapply stops_le; [|exact Hs]; lia).
      destruct (Pa 7 (le_n 7) rest S7) as [n1 H1]. cbn [p_at] in H1.
      exists (S n1). intros [|f] Hf; [lia|]. cbn [repeat app]. rewrite u_unary_minus, (tk7_not_number n t rest Wn).
      change (TMinus :: repeat TMinus n ++ tk_at 7 t ++ rest) with (repeat TMinus (S n) ++ tk_at 7 t ++ rest).
      rewrite (count_minus (S n) _ (tk7_not_minus t rest)). rewrite H1 by lia. reflexivity. }
    apply good_low; [cbn; lia|exact HP|cbn; intros; discriminate|cbn; intros; discriminate|cbn; intros; discriminate].
  - (* multiplicative *)
    destruct W as (Wop & Wa & Wb). destruct (IHt1 Wa) as (_ & Ka & _). destruct (IHt2 Wb) as (Pb & _).
    destruct (mulop_level op Wop) as [Os Ol]. destruct (mulop_name op) as [name|] eqn:En; [|congruence].
    assert (HK : Kmul (SMul op t1 t2)).
    { intros R X Hs [n2 H2]. rewrite (tk_raw 5 (SMul op t1 t2)) by (cbn; lia). cbn [raw].
      fold (tk_at 5 t1). fold (tk_at 6 t2). rewrite <- !app_assoc. cbn [app].
      apply Ka; [apply stops_op; [exact Os|rewrite Ol; lia]|].
      destruct (Pb 6 ltac:(lia) R Hs) as [n1 H1]. cbn [p_at] in H1.
      exists (S (max n1 n2)). intros [|f] Hf; [lia|]. rewrite u_mul_loop, En, H1 by lia.
      cbn [ast] in H2. rewrite En in H2. cbn [opname] in H2. apply H2. lia. }
    assert (HP : Par (SMul op t1 t2)).
    { apply par_all; [|cbn; lia]. intros rest Hs. cbn [prec] in Hs. cbn [prec p_at]. rewrite <- (tk_raw 5 (SMul op t1 t2)) by (cbn; lia).
      apply HK; [eapply stops_le; [|exact Hs]; lia|]. exists 1. intros [|f] Hf; [lia|]. now apply mul_loop_stop. }
    apply good_low; [cbn; lia|exact HP|intros _; exact HK|cbn; intros; discriminate|cbn; intros; discriminate].
  - (* additive *)
    destruct W as (Wop & Wa & Wb). destruct (IHt1 Wa) as (_ & _ & Ka & _). destruct (IHt2 Wb) as (Pb & _).
    destruct (addop_level op Wop) as [Os Ol]. destruct (addop_name op) as [name|] eqn:En; [|congruence].
    assert (HK : Kadd (SAdd op t1 t2)).
    { intros R X Hs [n2 H2]. rewrite (tk_raw 4 (SAdd op t1 t2)) by (cbn; lia). cbn [raw].
      fold (tk_at 4 t1). fold (tk_at 5 t2). rewrite <- !app_assoc. cbn [app].
      apply Ka; [apply stops_op; [exact Os|rewrite Ol; lia]|].
      destruct (Pb 5 ltac:(lia) R Hs) as [n1 H1]. cbn [p_at] in H1.
      exists (S (max n1 n2)). intros [|f] Hf; [lia|]. rewrite u_add_loop, En, H1 by lia.
      cbn [ast] in H2. rewrite En in H2. cbn [opname] in H2. apply H2. lia. }
    assert (HP : Par (SAdd op t1 t2)).
    { apply par_all; [|cbn; lia]. intros rest Hs. cbn [prec] in Hs. cbn [prec p_at]. rewrite <- (tk_raw 4 (SAdd op t1 t2)) by (cbn; lia).
      apply HK; [eapply stops_le; [|exact Hs]; lia|]. exists 1. intros [|f] Hf; [lia|]. now apply add_loop_stop. }
    apply good_low; [cbn; lia|exact HP|cbn; intros; discriminate|intros _; exact HK|cbn; intros; discriminate].
  - (* relational *)
    destruct W as (Wop & Wa & Wb). destruct (IHt1 Wa) as (_ & _ & _ & Ka). destruct (IHt2 Wb) as (Pb & _).
    destruct (relop_level op Wop) as [Os Ol]. destruct (relop_name op) as [name|] eqn:En; [|congruence].
    assert (HK : Krel (SRel op t1 t2)).
    { intros R X Hs [n2 H2]. rewrite (tk_raw 3 (SRel op t1 t2)) by (cbn; lia). cbn [raw].
      fold (tk_at 3 t1). fold (tk_at 4 t2). rewrite <- !app_assoc. cbn [app].
      apply Ka; [apply stops_op; [exact Os|rewrite Ol; lia]|].
      destruct (Pb 4 ltac:(lia) R Hs) as [n1 H1]. cbn [p_at] in H1.
      exists (S (max n1 n2)). intros [|f] Hf; [lia|]. rewrite u_rel_loop, En, H1 by lia.
      cbn [ast] in H2. rewrite En in H2. cbn [opname] in H2. apply H2. lia. }
    assert (HP : Par (SRel op t1 t2)).
    { apply par_all; [|cbn; lia]. intros rest Hs. cbn [prec] in Hs. cbn [prec p_at]. rewrite <- (tk_raw 3 (SRel op t1 t2)) by (cbn; lia).
      apply HK; [eapply stops_le; [|exact Hs]; lia|]. exists 1. intros [|f] Hf; [lia|]. now apply rel_loop_stop. }
    apply good_low; [cbn; lia|exact HP|cbn; intros; discriminate|cbn; intros; discriminate|intros _; exact HK].
  - (* && chain *)
    destruct W as (Wa & Wne & Wrs). destruct (IHt Wa) as (Pa & _).
    assert (Prs : Forall Par rs).
    { clear Wne. induction H as [|r rs Hr _ IH]; [constructor|]. destruct Wrs as [Wr Wrs].
      constructor; [exact (proj1 (Hr Wr))|exact (IH Wrs)]. }
    assert (HP : Par (SAnd t rs)).
    { apply par_all; [|cbn; lia]. intros rest Hs. cbn [prec] in Hs. cbn [prec p_at]. rewrite raw_and, <- app_assoc.
      assert (S3 : stops 3 (flat_map (fun r => TAndAnd :: tk_at 3 r) rs ++ rest)).
      { apply stops_chain; [reflexivity|cbn; lia|eapply stops_le; [|exact Hs]; lia]. }
      destruct (Pa 3 ltac:(lia) _ S3) as [n1 H1]. cbn [p_at] in H1.
      destruct (and_chain rs Prs [ast t] rest Hs) as [n2 H2].
      exists (S (max n1 n2)). intros [|f] Hf; [lia|]. rewrite u_and, H1 by lia. rewrite H2 by lia.
      rewrite ast_and, rev'_rev, rev_app_distr, rev_involutive. reflexivity. }
    apply good_low; [cbn; lia|exact HP|cbn; intros; discriminate|cbn; intros; discriminate|cbn; intros; discriminate].
  - (* || chain *)
    destruct W as (Wa & Wne & Wrs). destruct (IHt Wa) as (Pa & _).
    assert (Prs : Forall Par rs).
    { clear Wne. induction H as [|r rs Hr _ IH]; [constructor|]. destruct Wrs as [Wr Wrs].
      constructor; [exact (proj1 (Hr Wr))|exact (IH Wrs)]. }
    assert (HP : Par (SOr t rs)).
    { apply par_all; [|cbn; lia]. intros rest Hs. cbn [prec] in Hs. cbn [prec p_at]. rewrite raw_or, <- app_assoc.
      assert (S2 : stops 2 (flat_map (fun r => TOrOr :: tk_at 2 r) rs ++ rest)).
      { apply stops_chain; [reflexivity|cbn; lia|eapply stops_le; [|exact Hs]; lia]. }
      destruct (Pa 2 ltac:(lia) _ S2) as [n1 H1]. cbn [p_at] in H1.
      destruct (or_chain rs Prs [ast t] rest Hs) as [n2 H2].
      exists (S (max n1 n2)). intros [|f] Hf; [lia|]. rewrite u_or, H1 by lia. rewrite H2 by lia.
      rewrite ast_or, rev'_rev, rev_app_distr, rev_involutive. reflexivity. }
    apply good_low; [cbn; lia|exact HP|cbn; intros; discriminate|cbn; intros; discriminate|cbn; intros; discriminate].
  - (* conditional *)
    destruct W as (Wc & Wa & Wb). destruct (IHt1 Wc) as (Pc & _). destruct (IHt2 Wa) as (Pa & _). destruct (IHt3 Wb) as (Pb & _).
    assert (HP : Par (SCond t1 t2 t3)).
    { apply par_all; [|cbn; lia]. intros rest Hs. cbn [prec] in Hs. cbn [prec p_at raw].
      fold (tk_at 1 t1). fold (tk_at 1 t2). rewrite <- !app_assoc. cbn [app].
      destruct (Pc 1 ltac:(lia) (TQuestion :: tk_at 1 t2 ++ TColon :: raw t3 ++ rest)) as [n1 H1]; [cbn; auto|].
      destruct (Pa 1 ltac:(lia) (TColon :: raw t3 ++ rest)) as [n2 H2]; [cbn; auto|].
      destruct (Pb 0 ltac:(lia) rest Hs) as [n3 H3]. rewrite (tk_raw 0 t3) in H3 by lia.
      cbn [p_at] in H1, H2, H3.
      exists (S (max n1 (max n2 n3))). intros [|f] Hf; [lia|].
      rewrite u_expr, H1 by lia. rewrite H2 by lia. rewrite H3 by lia. reflexivity. }
    apply good_low; [cbn; lia|exact HP|cbn; intros; discriminate|cbn; intros; discriminate|cbn; intros; discriminate].
  - (* explicit parentheses *)
    destruct (IHt W) as (Pa & _).
    apply good_prim; [reflexivity|]. intros R X HR HX.
    rewrite (tk_raw 7 (SParen t)) by (cbn; lia). cbn [raw ast app] in *. rewrite <- app_assoc. cbn [app].
    apply (member_paren_k (raw t) (ast t) R X); [|exact HX].
    pose proof (Pa 0 ltac:(lia) (TRParen :: R)) as H0. rewrite (tk_raw 0 t) in H0 by lia. apply H0. cbn. auto.
  - (* list literal with a trailing comma *)
    assert (Pes : Forall Par es).
    { induction H as [|r rs Hr _ IH]; [constructor|]. destruct W as [Wr Wrs].
      constructor; [exact (proj1 (Hr Wr))|exact (IH Wrs)]. }
    apply good_prim; [reflexivity|]. intros R X HR [n HX].
    rewrite (tk_raw 7 (SLstT es)) by (cbn; lia). rewrite raw_listt, <- !app_assoc. cbn [app].
    rewrite ast_listt in HX. destruct es as [|e0 es'].
    + exists (S (S n)). intros [|[|f0]] Hf; try lia. cbn [commas app]. rewrite u_member, u_primary. apply HX. lia.
    + destruct (elems_trail_ok (e0 :: es') Pes ltac:(discriminate) [] R) as [n1 H1].
      exists (S (S (max n n1))). intros [|[|f0]] Hf; try lia. rewrite u_member, u_primary.
      assert (E : match commas (e0 :: es') ++ TComma :: TRBracket :: R with
                  | TComma :: TRBracket :: ts1 => POk (EList []) ts1
                  | _ => match p_elems f0 [] (commas (e0 :: es') ++ TComma :: TRBracket :: R) with
                         | POk es0 ts2 => POk (EList es0) ts2 | PFail => PFail | PFuel => PFuel end
                  end = POk (EList (map ast (e0 :: es'))) R).
      { rewrite H1 by lia. rewrite app_nil_r, rev'_rev, rev_involutive.
        pose proof (hd_not_closer (commas (e0 :: es')) (TComma :: TRBracket :: R) (commas_hd e0 es')) as Hh.
        destruct (commas (e0 :: es') ++ TComma :: TRBracket :: R) as [|t0 r]; [reflexivity|]. destruct t0; try reflexivity; contradiction. }
      rewrite E. apply HX. lia.
  - (* map literal with a trailing comma *)
    assert (Pkvs : Forall (fun kv => Par (fst kv) /\ Par (snd kv)) kvs).
    { induction H as [|[k v] l [Hk Hv] _ IH]; [constructor|]. destruct W as (Wk & Wv & Wl).
      constructor; [split; [exact (proj1 (Hk Wk))|exact (proj1 (Hv Wv))]|exact (IH Wl)]. }
    apply good_prim; [reflexivity|]. intros R X HR [n HX].
    rewrite (tk_raw 7 (SMapT kvs)) by (cbn; lia). rewrite raw_mapt, <- !app_assoc. cbn [app].
    rewrite ast_mapt in HX. destruct kvs as [|[k v] l].
    + exists (S (S n)). intros [|[|f0]] Hf; try lia. cbn [entries_tk app]. rewrite u_member, u_primary. apply HX. lia.
    + destruct (entries_trail_ok ((k, v) :: l) Pkvs ltac:(discriminate) [] R) as [n1 H1].
      exists (S (S (max n n1))). intros [|[|f0]] Hf; try lia. rewrite u_member, u_primary.
      assert (E : match entries_tk ((k, v) :: l) ++ TComma :: TRBrace :: R with
                  | TComma :: TRBrace :: ts1 => POk (EMap []) ts1
                  | _ => match p_entries f0 [] (entries_tk ((k, v) :: l) ++ TComma :: TRBrace :: R) with
                         | POk es0 ts2 => POk (EMap es0) ts2 | PFail => PFail | PFuel => PFuel end
                  end = POk (EMap (entries_ast ((k, v) :: l))) R).
      { rewrite H1 by lia. rewrite app_nil_r, rev'_rev, rev_involutive.
        cbn [entries_tk]. rewrite <- app_assoc.
        pose proof (hd_not_closer (raw k) (([TColon] ++ raw v ++ match l with [] => [] | _ :: _ => TComma :: entries_tk l end) ++ TComma :: TRBrace :: R) (raw_hd k)) as Hh.
        destruct (raw k ++ _) as [|t0 r]; [reflexivity|]. destruct t0; try reflexivity; contradiction. }
      rewrite E. apply HX. lia.
  - (* message literal with a trailing comma *)
    destruct W as [Wn Wf].
    assert (Pf : Forall (fun nv => Par (snd nv)) fields).
    { clear Wn. induction H as [|[n v] l Hv _ IH]; [constructor|]. destruct Wf as [Wv Wl].
      constructor; [exact (proj1 (Hv Wv))|exact (IH Wl)]. }
    apply good_prim; [reflexivity|]. intros R X HR [n HX].
    rewrite (tk_raw 7 (SMsgT lead names fields)) by (cbn; lia). rewrite raw_msgt, <- !app_assoc. cbn [app].
    assert (Ex : exists n1, forall f0, n1 <= f0 -> forall b,
                 ident_forms f0 b (ids_tk names ++ TLBrace :: fields_tk fields ++ TComma :: TRBrace :: R) =
                 POk (EStruct (if b then 46%N :: join_dots names else join_dots names) (fields_ast fields)) R).
    { assert (MP : msg_prefix (S (length (ids_tk names ++ TLBrace :: fields_tk fields ++ TComma :: TRBrace :: R)))
                     (ids_tk names ++ TLBrace :: fields_tk fields ++ TComma :: TRBrace :: R) [] =
                   Some (names, fields_tk fields ++ TComma :: TRBrace :: R)).
      { rewrite (msg_prefix_ok names Wn _ [] (fields_tk fields ++ TComma :: TRBrace :: R))
          by (rewrite app_length; assert (length names <= length (ids_tk names)); [|lia];
              clear; induction names as [|a [|b0 r] IHn]; cbn [ids_tk length] in *; lia).
        now rewrite app_nil_r, rev'_rev, rev_involutive. }
      destruct fields as [|[n0 v0] fl].
      - exists 0. intros f0 _ b. unfold ident_forms. rewrite MP. reflexivity.
      - destruct (fields_trail_ok ((n0, v0) :: fl) Pf ltac:(discriminate) [] R) as [n1 H1].
        exists n1. intros f0 Hf0 b. unfold ident_forms. rewrite MP.
        set (ts1 := fields_tk ((n0, v0) :: fl) ++ TComma :: TRBrace :: R) in *.
        assert (Hd : exists r', ts1 = TIdent n0 :: r') by (unfold ts1; cbn [fields_tk app]; eauto).
        destruct Hd as [r' Hr]. clearbody ts1. subst ts1. cbv beta iota.
        rewrite H1 by lia. now rewrite app_nil_r, rev'_rev, rev_involutive. }
    destruct Ex as [n1 IF].
    exists (S (S (max n n1))). intros [|[|f0]] Hf; try lia. rewrite u_member.
    assert (E : p_primary (S f0) ((if lead then [TDot] else []) ++ ids_tk names ++ TLBrace :: fields_tk fields ++ TComma :: TRBrace :: R) =
                POk (EStruct (if lead then 46%N :: join_dots names else join_dots names) (fields_ast fields)) R).
    { rewrite u_primary. destruct lead; cbn [app].
      - apply IF. lia.
      - destruct names as [|a names']; [congruence|]. specialize (IF f0 ltac:(lia) false).
        set (ts := ids_tk (a :: names') ++ TLBrace :: fields_tk fields ++ TComma :: TRBrace :: R) in *.
        assert (Hd : exists r', ts = TIdent a :: r') by (unfold ts; destruct names'; cbn [ids_tk app]; eauto).
        destruct Hd as [r' Hr]. clearbody ts. subst ts. exact IF. }
    rewrite E. rewrite ast_msgt in HX. apply HX. lia.
  - (* identifier with a leading dot *)
    apply good_prim; [reflexivity|]. intros R X HR [n H].
    exists (S (S n)). intros [|[|f]] Hf; try lia. rewrite (tk_raw 7 (SDotId x)) by (cbn; lia). cbn [raw app].
    rewrite u_member, (prim_dotid_k f x R HR). apply H. lia.
  - (* global call with a leading dot *)
    destruct W as (Wm & Wargs).
    assert (Pargs : Forall Par args).
    { clear Wm. induction H as [|r rs Hr _ IH]; [constructor|]. destruct Wargs as [Wr Wrs].
      constructor; [exact (proj1 (Hr Wr))|exact (IH Wrs)]. }
    apply good_prim; [reflexivity|]. intros R X HR [n HX].
    rewrite (tk_raw 7 (SDotCall f args)) by (cbn; lia). rewrite raw_dotcall, <- !app_assoc. cbn [app].
    destruct (args_ok args Pargs R) as [n1 H1].
    exists (S (S (max n n1))). intros [|[|f0]] Hf; try lia. rewrite u_member, u_primary. unfold ident_forms.
    cbn [msg_prefix length]. rewrite H1 by lia.
    rewrite mk_call_plain by exact Wm. rewrite ast_dotcall in HX. apply HX. lia.
  - (* selection of a back-quoted field *)
    destruct (IHt W) as (_ & _ & _ & _ & Ka).
    apply good_prim; [reflexivity|]. intros R X [Rm Rp] [n H].
    rewrite (tk_raw 7 (SSelEsc t f)) by (cbn; lia). cbn [raw]. fold (tk_at 7 t). rewrite <- app_assoc. cbn [app].
    apply Ka; [split; [apply msafe_selesc|exact I]|].
    exists (S n). intros [|f0] Hf; [lia|]. rewrite u_postfix. apply H. lia.
Qed.

(** ** The round trip: the rendering of a tree parses, with any sufficient fuel, to the tree's AST
    - every operator binds as the precedence table says, chains associate to the left, && / ||
    chains build the balanced tree, parentheses group. *)
Theorem parse_roundtrip t : wf_st t -> exists n, forall f, n <= f -> p_expr f (raw t) = POk (ast t) [].
Proof.
  intros W. destruct (roundtrip_all t W) as (HP & _).
  destruct (HP 0 ltac:(lia) [] I) as [n H]. exists n. intros f Hf.
  specialize (H f Hf). cbn [p_at] in H. rewrite (tk_raw 0 t) in H by lia. now rewrite app_nil_r in H.
Qed.
