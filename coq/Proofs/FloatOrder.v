(** C09: SpecFloat's comparison of two valid doubles is the comparison of the numbers they denote. *)
From Coq Require Import ZArith QArith Lia Floats.SpecFloat.
From Cel.Model Require Import Compare.
From Cel.Proofs Require Import CompareProofs.
Open Scope Z_scope.

Definition fvalid (f : f64) : Prop := valid_binary prec emax f = true.

Lemma digits2_pos_bounds m : 2 ^ (Zpos (digits2_pos m) - 1) <= Zpos m < 2 ^ Zpos (digits2_pos m).
Proof.
  induction m as [p IH|p IH|]; cbn [digits2_pos].
  - rewrite Pos2Z.inj_succ. replace (Z.succ (Zpos (digits2_pos p)) - 1) with (Zpos (digits2_pos p)) by lia.
    rewrite Z.pow_succ_r by lia. replace (Zpos (digits2_pos p)) with (Z.succ (Zpos (digits2_pos p) - 1)) at 1 by lia.
    rewrite Z.pow_succ_r by lia. lia.
  - rewrite Pos2Z.inj_succ. replace (Z.succ (Zpos (digits2_pos p)) - 1) with (Zpos (digits2_pos p)) by lia.
    rewrite Z.pow_succ_r by lia. replace (Zpos (digits2_pos p)) with (Z.succ (Zpos (digits2_pos p) - 1)) at 1 by lia.
    rewrite Z.pow_succ_r by lia. lia.
  - cbn. lia.
Qed.

Lemma bounded_facts m e : bounded prec emax m e = true ->
  Zpos m < 2 ^ 53 /\ -1074 <= e /\ (-1074 < e -> 2 ^ 52 <= Zpos m).
Proof.
  unfold bounded, canonical_mantissa, fexp, emin, prec, emax. intros H.
  apply andb_prop in H as [H _]. apply Zeq_bool_eq in H.
  pose proof (digits2_pos_bounds m) as [B1 B2]. set (d := Zpos (digits2_pos m)) in *.
  assert (Hd : d <= 53) by lia.
  split; [|split].
  - eapply Z.lt_le_trans; [exact B2|]. apply Z.pow_le_mono_r; lia.
  - lia.
  - intros He. assert (d = 53) by lia. replace 52 with (d - 1) by lia. exact B1.
Qed.

(** the value of a finite double as an integer multiple of 2^b, for any b below its exponent *)
Definition fv (s : bool) (m : positive) : Z := if s then Zneg m else Zpos m.
Definition sc (b : Z) (v e : Z) : Z := v * 2 ^ (e - b).

Lemma Qval_scaled s m e b : b <= e -> b <= 0 ->
  Qnum (Qval (S754_finite s m e)) * 2 ^ (- b) = sc b (fv s m) e * Zpos (Qden (Qval (S754_finite s m e))).
Proof.
  intros Hb H0. unfold sc. cbn [Qval]. fold (fv s m). destruct e as [|p|p]; cbn [Qnum Qden inject_Z].
  - rewrite Z.mul_1_r. reflexivity.
  - change (Z.pow_pos 2 p) with (2 ^ Zpos p). rewrite Z.mul_1_r, <- Z.mul_assoc, <- Z.pow_add_r by lia. f_equal.
  - rewrite Pos2Z.inj_pow, <- Z.mul_assoc, <- Z.pow_add_r by lia. f_equal. f_equal. lia.
Qed.

Lemma compare_scaled n1 d1 s1 n2 d2 s2 P : 0 < P -> 0 < d1 -> 0 < d2 ->
  n1 * P = s1 * d1 -> n2 * P = s2 * d2 -> (n1 * d2 ?= n2 * d1) = (s1 ?= s2).
Proof.
  intros HP H1 H2 E1 E2.
  rewrite (Zmult_compare_compat_r (n1 * d2) (n2 * d1) P) by lia.
  replace (n1 * d2 * P) with (s1 * (d1 * d2)) by nia. replace (n2 * d1 * P) with (s2 * (d1 * d2)) by nia.
  symmetry. apply Zmult_compare_compat_r. nia.
Qed.

Lemma Qcompare_scaled s1 m1 e1 s2 m2 e2 b : b <= e1 -> b <= e2 -> b <= 0 ->
  Qcompare (Qval (S754_finite s1 m1 e1)) (Qval (S754_finite s2 m2 e2)) = (sc b (fv s1 m1) e1 ?= sc b (fv s2 m2) e2).
Proof.
  intros H1 H2 H0. unfold Qcompare.
  apply (compare_scaled _ _ _ _ _ _ (2 ^ (- b))); try apply Pos2Z.pos_is_pos; [apply Z.pow_pos_nonneg; lia| |];
    now apply Qval_scaled.
Qed.

(** positive magnitudes of valid doubles are ordered by (exponent, mantissa) *)
Lemma mag_order m1 e1 m2 e2 b : bounded prec emax m1 e1 = true -> bounded prec emax m2 e2 = true ->
  b <= e1 -> b <= e2 ->
  (Zpos m1 * 2 ^ (e1 - b) ?= Zpos m2 * 2 ^ (e2 - b)) =
  match e1 ?= e2 with Lt => Lt | Gt => Gt | Eq => Pos.compare m1 m2 end.
Proof.
  intros B1 B2 H1 H2.
  destruct (bounded_facts m1 e1 B1) as (U1 & L1 & N1). destruct (bounded_facts m2 e2 B2) as (U2 & L2 & N2).
  assert (Key : forall ma ea mb eb, Zpos ma < 2 ^ 53 -> 2 ^ 52 <= Zpos mb -> b <= ea -> ea < eb ->
                Zpos ma * 2 ^ (ea - b) < Zpos mb * 2 ^ (eb - b)).
  { intros ma ea mb eb Ua Nb Ha Hab.
    replace (eb - b) with ((ea - b) + (eb - ea)) by lia. rewrite Z.pow_add_r by lia.
    assert (2 <= 2 ^ (eb - ea)) by (change 2 with (2 ^ 1) at 1; apply Z.pow_le_mono_r; lia).
    assert (0 < 2 ^ (ea - b)) by (apply Z.pow_pos_nonneg; lia).
    change (2 ^ 53) with (2 * 2 ^ 52) in Ua. set (c := 2 ^ 52) in *. set (X := 2 ^ (ea - b)) in *. set (Y := 2 ^ (eb - ea)) in *.
    clearbody c X Y.
    assert (S1 : Zpos ma * X < 2 * c * X) by (apply Z.mul_lt_mono_pos_r; lia).
    assert (S2 : 2 * c * X <= 2 * Zpos mb * X) by (apply Z.mul_le_mono_nonneg_r; lia).
    assert (S3 : 2 * (Zpos mb * X) <= Y * (Zpos mb * X)) by (apply Z.mul_le_mono_nonneg_r; nia).
    lia. }
  destruct (Z.compare_spec e1 e2) as [E|E|E].
  - subst e2. rewrite <- Zmult_compare_compat_r by (apply Z.lt_gt, Z.pow_pos_nonneg; lia). reflexivity.
  - apply Z.compare_lt_iff. apply Key; auto. apply N2. lia.
  - apply Z.compare_gt_iff. apply Key; auto. apply N1. lia.
Qed.

Lemma fcmp_finite s1 m1 e1 s2 m2 e2 :
  bounded prec emax m1 e1 = true -> bounded prec emax m2 e2 = true ->
  fcmp (S754_finite s1 m1 e1) (S754_finite s2 m2 e2) =
  Some (Qcompare (Qval (S754_finite s1 m1 e1)) (Qval (S754_finite s2 m2 e2))).
Proof.
  intros B1 B2. set (b := Z.min (Z.min e1 e2) 0).
  rewrite (Qcompare_scaled s1 m1 e1 s2 m2 e2 b) by lia.
  pose proof (mag_order m1 e1 m2 e2 b B1 B2 ltac:(lia) ltac:(lia)) as M.
  assert (P1 : 0 < 2 ^ (e1 - b)) by (apply Z.pow_pos_nonneg; lia).
  assert (P2 : 0 < 2 ^ (e2 - b)) by (apply Z.pow_pos_nonneg; lia).
  unfold fcmp, SFcompare, sc, fv. f_equal. destruct s1, s2.
  - (* both negative: the order of the magnitudes reversed *)
    replace (Z.neg m1 * 2 ^ (e1 - b)) with (- (Zpos m1 * 2 ^ (e1 - b))) by lia.
    replace (Z.neg m2 * 2 ^ (e2 - b)) with (- (Zpos m2 * 2 ^ (e2 - b))) by lia.
    rewrite Z.compare_opp, (Z.compare_antisym (Zpos m1 * 2 ^ (e1 - b)) (Zpos m2 * 2 ^ (e2 - b))), M.
    destruct (e1 ?= e2); cbn [CompOpp]; reflexivity.
  - symmetry. apply Z.compare_lt_iff. nia.
  - symmetry. apply Z.compare_gt_iff. nia.
  - rewrite M. destruct (e1 ?= e2); try reflexivity.
Qed.

Lemma Qval_num_sign (s : bool) m e : if s then Qnum (Qval (S754_finite s m e)) < 0 else 0 < Qnum (Qval (S754_finite s m e)).
Proof.
  cbn [Qval]. destruct e as [|p|p]; cbn [Qnum inject_Z]; destruct s; try lia;
    change (Z.pow_pos 2 p) with (2 ^ Zpos p); pose proof (Z.pow_pos_nonneg 2 (Zpos p) ltac:(lia) ltac:(lia)); nia.
Qed.
Lemma Qcompare_0_fin s m e : Qcompare 0 (Qval (S754_finite s m e)) = if s then Gt else Lt.
Proof.
  unfold Qcompare. cbn [Qnum Qden]. rewrite Z.mul_0_l, Z.mul_1_r. pose proof (Qval_num_sign s m e) as H.
  destruct s; [now apply Z.compare_gt_iff|now apply Z.compare_lt_iff].
Qed.
Lemma Qcompare_fin_0 s m e : Qcompare (Qval (S754_finite s m e)) 0 = if s then Lt else Gt.
Proof.
  unfold Qcompare. cbn [Qnum Qden]. rewrite Z.mul_0_l, Z.mul_1_r. pose proof (Qval_num_sign s m e) as H.
  destruct s; [now apply Z.compare_lt_iff|now apply Z.compare_gt_iff].
Qed.

Theorem fcmp_exact f g : fvalid f -> fvalid g ->
  fcmp f g = match den (VDbl f), den (VDbl g) with Some a, Some b => xcmp a b | _, _ => None end.
Proof.
  unfold fvalid. intros Vf Vg.
  destruct f as [sf|sf| |sf mf ef], g as [sg|sg| |sg mg eg]; cbn [den xcmp valid_binary] in *;
    try reflexivity; try (destruct sf; reflexivity); try (destruct sg; reflexivity);
    try (destruct sf, sg; reflexivity).
  - (* zero, finite *) unfold fcmp, SFcompare. f_equal. change (Qval (S754_zero sf)) with 0%Q. now rewrite Qcompare_0_fin.
  - unfold fcmp, SFcompare. f_equal. change (Qval (S754_zero sg)) with 0%Q. now rewrite Qcompare_fin_0.
  - now apply fcmp_finite.
Qed.


(** ** Exactness for every pair of numbers, and the order laws that follow *)
Definition vvalid (v : value) : Prop := match v with VDbl f => fvalid f | _ => True end.

Theorem cmp_exact_all a b da db : vvalid a -> vvalid b ->
  den a = Some da -> den b = Some db -> v_cmp a b = xcmp da db.
Proof.
  intros Va Vb Ha Hb. destruct (is_dbl a && is_dbl b) eqn:D; [|now apply cmp_exact].
  destruct a, b; try discriminate. cbn [v_cmp vvalid] in *.
  rewrite (fcmp_exact _ _ Va Vb), Ha, Hb. reflexivity.
Qed.

Lemma xcmp_lt_trans a b c : xcmp a b = Some Lt -> xcmp b c = Some Lt -> xcmp a c = Some Lt.
Proof.
  destruct a as [|sa|p], b as [|sb|q], c as [|sc|r]; cbn [xcmp]; try discriminate;
    try (destruct sa; discriminate); try (destruct sb; discriminate); try (destruct sc; discriminate);
    try (destruct sa, sb; discriminate); try (destruct sb, sc; discriminate);
    try (destruct sa, sb, sc; (discriminate || reflexivity)); try (destruct sa, sc; (discriminate || reflexivity)).
  - destruct sa; (discriminate || reflexivity).
  - destruct sc; (discriminate || reflexivity).
  - intros [= H1] [= H2]. f_equal. exact (Qcompare_lt_trans p q r H1 H2).
Qed.

Lemma xcmp_le_trans a b c : le_or_eq (xcmp a b) -> le_or_eq (xcmp b c) -> le_or_eq (xcmp a c).
Proof.
  unfold le_or_eq.
  destruct a as [|sa|p], b as [|sb|q], c as [|sc|r]; cbn [xcmp]; intros H1 H2;
    try (destruct H1; discriminate); try (destruct H2; discriminate);
    try (destruct sa, sb, sc; cbn in *; (tauto || (destruct H1; discriminate) || (destruct H2; discriminate)));
    try (destruct sa, sb; cbn in *; (tauto || (destruct H1; discriminate) || (destruct H2; discriminate)));
    try (destruct sb, sc; cbn in *; (tauto || (destruct H1; discriminate) || (destruct H2; discriminate)));
    try (destruct sa, sc; cbn in *; (tauto || (destruct H1; discriminate) || (destruct H2; discriminate)));
    try (destruct sa; cbn in *; (tauto || (destruct H1; discriminate) || (destruct H2; discriminate)));
    try (destruct sb; cbn in *; (tauto || (destruct H1; discriminate) || (destruct H2; discriminate)));
    try (destruct sc; cbn in *; (tauto || (destruct H1; discriminate) || (destruct H2; discriminate))).
  assert (L1 : (p <= q)%Q) by (apply Qle_alt; destruct H1 as [H|H]; injection H as ->; discriminate).
  assert (L2 : (q <= r)%Q) by (apply Qle_alt; destruct H2 as [H|H]; injection H as ->; discriminate).
  pose proof (Qle_trans _ _ _ L1 L2) as L. apply Qle_alt in L.
  destruct (p ?= r)%Q eqn:E; [now right|now left|now elim L].
Qed.

Lemma xcmp_refl a : a <> XNaN -> xcmp a a = Some Eq.
Proof.
  destruct a as [|s|q]; [congruence| |]; intros _; cbn [xcmp].
  - now destruct s.
  - f_equal. apply Qeq_alt. reflexivity.
Qed.

Lemma bool_cmp_trans x y z : bool_cmp x y = Lt -> bool_cmp y z = Lt -> bool_cmp x z = Lt.
Proof. destruct x, y, z; cbn; congruence. Qed.

(** Transitivity of < wherever it is defined (doubles being IEEE doubles). *)
Theorem cmp_trans a b c : vvalid a -> vvalid b -> vvalid c ->
  v_cmp a b = Some Lt -> v_cmp b c = Some Lt -> v_cmp a c = Some Lt.
Proof.
  intros Va Vb Vc H1 H2.
  destruct (den a) as [da|] eqn:Da, (den b) as [db|] eqn:Db, (den c) as [dc|] eqn:Dc.
  - rewrite (cmp_exact_all a b da db) in H1 by assumption. rewrite (cmp_exact_all b c db dc) in H2 by assumption.
    rewrite (cmp_exact_all a c da dc) by assumption. exact (xcmp_lt_trans _ _ _ H1 H2).
  - destruct b, c; cbn [den v_cmp] in Db, Dc, H2; try discriminate.
  - destruct a, b; cbn [den v_cmp] in Da, Db, H1; try discriminate.
  - destruct a, b; cbn [den v_cmp] in Da, Db, H1; try discriminate.
  - destruct a, b; cbn [den v_cmp] in Da, Db, H1; try discriminate.
  - destruct a, b; cbn [den v_cmp] in Da, Db, H1; try discriminate.
  - destruct b, c; cbn [den v_cmp] in Db, Dc, H2; try discriminate.
  - (* no numbers at all *)
    destruct a, b; cbn [den v_cmp] in Da, Db, H1; try discriminate; destruct c; cbn [den v_cmp] in Dc, H2; try discriminate; cbn [v_cmp];
      injection H1 as H1; injection H2 as H2; f_equal.
    + exact (str_cmp_trans _ _ _ H1 H2).
    + exact (bool_cmp_trans _ _ _ H1 H2).
    + exact (Z.lt_trans _ _ _ H1 H2).
    + exact (Z.lt_trans _ _ _ H1 H2).
Qed.

(** max / min of a non-empty list of numbers (int, uint, double mixed freely; no NaN). *)
Definition num_ok (v : value) : Prop := vvalid v /\ exists d, den v = Some d /\ d <> XNaN.

Theorem max_numbers l m : l <> [] -> Forall num_ok l -> pick_list Gt l = Ok m ->
  In m l /\ forall x, In x l -> le_or_eq (v_cmp x m).
Proof.
  intros Hne Hall Hm. destruct l as [|a l]; [congruence|].
  rewrite Forall_forall in Hall. cbn [pick_list] in Hm.
  apply (fold_pick_max_spec l a m); [| |exact Hm].
  - intros x y z Hx Hy Hz. destruct (Hall x Hx) as (Vx & dx & Ex & _). destruct (Hall y Hy) as (Vy & dy & Ey & _).
    destruct (Hall z Hz) as (Vz & dz & Ez & _).
    rewrite (cmp_exact_all x y dx dy), (cmp_exact_all y z dy dz), (cmp_exact_all x z dx dz) by assumption.
    apply xcmp_le_trans.
  - intros x Hx. destruct (Hall x Hx) as (Vx & dx & Ex & Nx).
    rewrite (cmp_exact_all x x dx dx) by assumption. right. now apply xcmp_refl.
Qed.



(** Every 64-bit pattern decodes to a valid double (what enters the model over the wire). *)
Lemma digits_le m k : 0 <= k -> Zpos m < 2 ^ k -> Zpos (digits2_pos m) <= k.
Proof.
  intros Hk H. pose proof (digits2_pos_bounds m) as [B1 _].
  assert (2 ^ (Zpos (digits2_pos m) - 1) < 2 ^ k) by lia.
  apply Z.pow_lt_mono_r_iff in H0; lia.
Qed.
Lemma digits_ge m k : 0 <= k -> 2 ^ k <= Zpos m -> k < Zpos (digits2_pos m).
Proof.
  intros Hk H. pose proof (digits2_pos_bounds m) as [_ B2].
  assert (2 ^ k < 2 ^ Zpos (digits2_pos m)) by lia.
  apply Z.pow_lt_mono_r_iff in H0; lia.
Qed.

Theorem bits_valid b : fvalid (f64_of_bits b).
Proof.
  unfold fvalid, f64_of_bits.
  set (r := b mod 9223372036854775808). set (ex := r / 4503599627370496). set (mant := r mod 4503599627370496).
  assert (Hr : 0 <= r < 9223372036854775808) by (apply Z.mod_pos_bound; lia).
  assert (Hm : 0 <= mant < 4503599627370496) by (apply Z.mod_pos_bound; lia).
  assert (Hx : 0 <= ex < 2048).
  { split; [apply Z.div_pos; lia|]. apply Z.div_lt_upper_bound; lia. }
  destruct (ex =? 2047) eqn:E1; [destruct (mant =? 0); reflexivity|].
  destruct (ex =? 0) eqn:E0.
  - destruct mant as [|m|m] eqn:Em; try reflexivity. cbn [valid_binary].
    unfold bounded, canonical_mantissa, fexp, emin, prec, emax.
    pose proof (digits_le m 52 ltac:(lia) ltac:(change (2 ^ 52) with 4503599627370496; lia)) as D.
    pose proof (Pos2Z.is_pos (digits2_pos m)).
    apply andb_true_intro. split; [apply Zeq_is_eq_bool; lia|apply Zle_imp_le_bool; lia].
  - destruct (mant + 4503599627370496) as [|m|m] eqn:Em; try reflexivity. cbn [valid_binary].
    unfold bounded, canonical_mantissa, fexp, emin, prec, emax.
    pose proof (digits_le m 53 ltac:(lia) ltac:(change (2 ^ 53) with 9007199254740992; lia)) as D1.
    pose proof (digits_ge m 52 ltac:(lia) ltac:(change (2 ^ 52) with 4503599627370496; lia)) as D2.
    apply Z.eqb_neq in E1, E0.
    apply andb_true_intro. split; [apply Zeq_is_eq_bool; lia|apply Zle_imp_le_bool; lia].
Qed.




Theorem eq_exact_all a b da db : vvalid a -> vvalid b ->
  den a = Some da -> den b = Some db ->
  v_eq a b = match xcmp da db with Some Eq => true | _ => false end.
Proof.
  intros Va Vb Ha Hb. destruct (is_dbl a && is_dbl b) eqn:D; [|now apply eq_exact].
  pose proof (cmp_exact_all a b da db Va Vb Ha Hb) as H.
  destruct a, b; try discriminate. cbn [v_cmp] in H. cbn [v_eq]. unfold feq. rewrite H.
  destruct (xcmp da db) as [[]|]; reflexivity.
Qed.
