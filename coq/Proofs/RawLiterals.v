From Coq Require Import String Ascii Lia.
From Cel.Model Require Import Parser.
From Cel.Model Require Import Surface.
From Cel.Proofs Require Import LiteralProofs ParserRoundtrip LexerRoundtrip.

(** Raw bytes literals:  b r q body q  and  b r qqq body qqq : the UTF-8 of the body, verbatim. *)
Lemma raw_units_short p q s :
  (p = ch "r" \/ p = ch "R")%N -> (q = 34 \/ q = 39)%N ->
  (match s with c :: _ => c <> q | [] => True end) ->
  decode_units (p :: q :: s ++ [q]) = Some (map UChar s).
Proof.
  intros Hp Hq Hh. unfold decode_units, literal_body.
  assert (E : ((p =? ch "r") || (p =? ch "R"))%N = true) by (destruct Hp; subst; reflexivity).
  rewrite E. rewrite (strip_short q s Hq Hh). cbn [option_map].
  rewrite un_raw by lia. reflexivity.
Qed.
Lemma raw_units_long p q s :
  (p = ch "r" \/ p = ch "R")%N -> (q = 34 \/ q = 39)%N ->
  decode_units (p :: q :: q :: q :: s ++ [q; q; q]) = Some (map UChar s).
Proof.
  intros Hp Hq. unfold decode_units, literal_body.
  assert (E : ((p =? ch "r") || (p =? ch "R"))%N = true) by (destruct Hp; subst; reflexivity).
  rewrite E. rewrite (strip_long q s Hq). cbn [option_map].
  rewrite un_raw by lia. reflexivity.
Qed.

Lemma flat_map_uchar s :
  flat_map (fun u => match u with UChar c => utf8_enc1 c | USmall b => [b] end) (map UChar s) = flat_map utf8_enc1 s.
Proof. induction s as [|c s IH]; [reflexivity|]. cbn [map flat_map]. now rewrite IH. Qed.

Theorem raw_bytes_short b p q s :
  (p = ch "r" \/ p = ch "R")%N -> (q = 34 \/ q = 39)%N ->
  (match s with c :: _ => c <> q | [] => True end) ->
  decode_bytes (b :: p :: q :: s ++ [q]) = Some (flat_map utf8_enc1 s).
Proof. intros Hp Hq Hh. unfold decode_bytes. rewrite raw_units_short by assumption. cbn [option_map]. now rewrite flat_map_uchar. Qed.
Theorem raw_bytes_long b p q s :
  (p = ch "r" \/ p = ch "R")%N -> (q = 34 \/ q = 39)%N ->
  decode_bytes (b :: p :: q :: q :: q :: s ++ [q; q; q]) = Some (flat_map utf8_enc1 s).
Proof. intros Hp Hq. unfold decode_bytes. rewrite raw_units_long by assumption. cbn [option_map]. now rewrite flat_map_uchar. Qed.

Lemma lex_raw_bytes b p q t' rest : (b = ch "b" \/ b = ch "B")%N -> (p = ch "r" \/ p = ch "R")%N -> (q = 34 \/ q = 39)%N ->
  string_len true ((q :: t') ++ 32%N :: rest) = Some (length (q :: t')) ->
  lex_one ((b :: p :: q :: t') ++ 32%N :: rest) = Some (Some (TBytes (b :: p :: q :: t')), 32%N :: rest).
Proof.
  intros Hb Hp Hq SL.
  assert (Hbb : ((b =? ch "b") || (b =? ch "B"))%N = true) by (destruct Hb as [-> | ->]; reflexivity).
  assert (Hpr : ((p =? ch "r") || (p =? ch "R"))%N = true) by (destruct Hp as [-> | ->]; reflexivity).
  destruct (take_lit (b :: p :: q :: t') rest) as [T1 T2].
  cbn [app] in *. unfold lex_one, bytes_tok_len, string_tok_len. rewrite Hbb, Hpr, SL. cbn [option_map length] in *. rewrite T1, T2. reflexivity.
Qed.

Lemma lexable_rawbytes1 b p q body : (b = ch "b" \/ b = ch "B")%N -> (p = ch "r" \/ p = ch "R")%N -> (q = 34 \/ q = 39)%N ->
  raw_ok1 q body = true -> lexable (TBytes (b :: p :: q :: body ++ [q])).
Proof.
  intros Hb Hp Hq Hk. split; [eexists; eexists; split; [reflexivity|destruct Hb as [-> | ->]; reflexivity]|].
  intros rest. apply (lex_raw_bytes b p q (body ++ [q]) rest Hb Hp Hq). now apply string_len_raw1.
Qed.
Lemma lexable_rawbytes3 b p q body : (b = ch "b" \/ b = ch "B")%N -> (p = ch "r" \/ p = ch "R")%N -> (q = 34 \/ q = 39)%N ->
  raw_ok3 q body = true -> lexable (TBytes (b :: p :: q :: q :: q :: body ++ [q; q; q])).
Proof.
  intros Hb Hp Hq Hk. split; [eexists; eexists; split; [reflexivity|destruct Hb as [-> | ->]; reflexivity]|].
  intros rest. apply (lex_raw_bytes b p q (q :: q :: body ++ [q; q; q]) rest Hb Hp Hq). now apply string_len_raw3.
Qed.

Theorem raw_bytes_literal_compiles b p q s :
  (b = ch "b" \/ b = ch "B")%N -> (p = ch "r" \/ p = ch "R")%N -> (q = 34 \/ q = 39)%N ->
  (raw_ok1 q s = true -> compile (text [TBytes (b :: p :: q :: s ++ [q])]) = CExpr (ELit (VBytes (flat_map utf8_enc1 s)))) /\
  (raw_ok3 q s = true -> compile (text [TBytes (b :: p :: q :: q :: q :: s ++ [q; q; q])]) = CExpr (ELit (VBytes (flat_map utf8_enc1 s)))).
Proof.
  intros Hb Hp Hq. split; intros Hk.
  - apply compile_bytes_token; [|now apply lexable_rawbytes1].
    apply raw_bytes_short; auto. destruct s as [|c r]; [exact I|].
    cbn [raw_ok1 forallb] in Hk. apply andb_prop in Hk as [Hc _]. apply Bool.negb_true_iff in Hc.
    apply Bool.orb_false_iff in Hc as [Hc _]. apply Bool.orb_false_iff in Hc as [Hc _]. now apply N.eqb_neq.
  - apply compile_bytes_token; [|now apply lexable_rawbytes3]. now apply raw_bytes_long.
Qed.

(** ** Raw triple-quoted bodies that contain the quote character: anything in which no three
    consecutive quotes occur before the closing delimiter (in particular the body does not end
    with a quote), and without the two code points the runtime's wildcard refuses (K01). *)
Definition starts3 (q : N) (l : str) : bool :=
  match l with a :: b :: c :: _ => ((a =? q) && (b =? q) && (c =? q))%N | _ => false end.
Fixpoint free3 (q : N) (s : str) : bool :=
  match s with
  | [] => true
  | c :: r => negb (starts3 q (s ++ [q; q])) && negb ((c =? 0) || (c =? 1114111))%N && free3 q r
  end.

Lemma starts3_ext q c r rest : starts3 q ((c :: r) ++ q :: q :: q :: rest) = starts3 q ((c :: r) ++ [q; q]).
Proof. destruct r as [|b [|d t]]; reflexivity. Qed.

Lemma scan_long_free q body rest : forall n f, free3 q body = true -> length body <= f ->
  scan_long (S f) q true (body ++ q :: q :: q :: rest) n = Some (3 + (length body + n)).
Proof.
  induction body as [|c r IH]; intros n f Hb Hf.
  - cbn [app length]. rewrite u_scan_long. now rewrite !N.eqb_refl.
  - cbn [free3] in Hb. apply andb_prop in Hb as [Hb Hr]. apply andb_prop in Hb as [H3 Hc].
    apply Bool.negb_true_iff in H3, Hc. rewrite <- (starts3_ext q c r rest) in H3.
    cbn [length] in Hf. destruct f as [|f]; [lia|].
    assert (E3 : exists b d t, r ++ q :: q :: q :: rest = b :: d :: t).
    { destruct r as [|b [|d t]]; cbn [app]; eauto. }
    destruct E3 as (b & d & t & E3).
    cbn [app] in H3 |- *. rewrite u_scan_long. rewrite E3 in H3 |- *. cbn [starts3] in H3. rewrite H3.
    cbn [andb negb tl]. rewrite Bool.andb_false_r, Hc.
    rewrite <- E3. rewrite (IH (S n) f Hr ltac:(lia)). cbn [length]. f_equal. lia.
Qed.

Lemma raw_ok3_free q s : raw_ok3 q s = true -> free3 q s = true.
Proof.
  induction s as [|c r IH]; [reflexivity|]. intros H. cbn [raw_ok3 forallb] in H. apply andb_prop in H as [Hc Hr].
  apply Bool.negb_true_iff in Hc. apply Bool.orb_false_iff in Hc as [Hc Hmax]. apply Bool.orb_false_iff in Hc as [Hcq H0].
  cbn [free3]. rewrite (IH Hr), H0, Hmax. 
  assert (starts3 q ((c :: r) ++ [q; q]) = false) as ->; [|reflexivity].
  destruct r as [|b [|d t]]; cbn [app starts3]; now rewrite Hcq.
Qed.

Lemma string_len_free3 q body rest : (q = 34 \/ q = 39)%N -> free3 q body = true ->
  string_len true ((q :: q :: q :: body ++ [q; q; q]) ++ 32%N :: rest) = Some (length (q :: q :: q :: body ++ [q; q; q])).
Proof.
  intros Hq Hb.
  assert (Hqq : ((q =? 34) || (q =? 39))%N = true) by (destruct Hq as [-> | ->]; reflexivity).
  assert (Es : (q :: q :: q :: body ++ [q; q; q]) ++ 32%N :: rest = q :: q :: q :: body ++ q :: q :: q :: 32%N :: rest)
    by (cbn [app]; rewrite <- app_assoc; reflexivity).
  rewrite Es. unfold string_len. rewrite Hqq.
  cbn [scan_short]. rewrite !N.eqb_refl. cbn [andb option_map].
  rewrite (scan_long_free q body (32%N :: rest) 0 _ Hb) by (cbn [length]; rewrite app_length; cbn [length]; lia).
  cbn [option_map length]. rewrite app_length. cbn [length]. f_equal. lia.
Qed.

Lemma lexable_raw3_free p q body : (p = ch "r" \/ p = ch "R")%N -> (q = 34 \/ q = 39)%N ->
  free3 q body = true -> lexable (TString (p :: q :: q :: q :: body ++ [q; q; q])).
Proof.
  intros Hp Hq Hb. split; [eexists; eexists; split; [reflexivity|destruct Hp as [-> | ->]; reflexivity]|].
  intros rest. apply (lex_raw p q (q :: q :: body ++ [q; q; q]) rest Hp Hq). now apply string_len_free3.
Qed.
Lemma lexable_rawbytes3_free b p q body : (b = ch "b" \/ b = ch "B")%N -> (p = ch "r" \/ p = ch "R")%N -> (q = 34 \/ q = 39)%N ->
  free3 q body = true -> lexable (TBytes (b :: p :: q :: q :: q :: body ++ [q; q; q])).
Proof.
  intros Hb Hp Hq Hk. split; [eexists; eexists; split; [reflexivity|destruct Hb as [-> | ->]; reflexivity]|].
  intros rest. apply (lex_raw_bytes b p q (q :: q :: body ++ [q; q; q]) rest Hb Hp Hq). now apply string_len_free3.
Qed.

Theorem raw_long_quotes_compile b p q s :
  (b = ch "b" \/ b = ch "B")%N -> (p = ch "r" \/ p = ch "R")%N -> (q = 34 \/ q = 39)%N -> free3 q s = true ->
  compile (text [TString (p :: q :: q :: q :: s ++ [q; q; q])]) = CExpr (ELit (VStr s)) /\
  compile (text [TBytes (b :: p :: q :: q :: q :: s ++ [q; q; q])]) = CExpr (ELit (VBytes (flat_map utf8_enc1 s))).
Proof.
  intros Hb Hp Hq Hk. split.
  - apply compile_str_token; [now apply raw_verbatim_long|now apply lexable_raw3_free].
  - apply compile_bytes_token; [now apply raw_bytes_long|now apply lexable_rawbytes3_free].
Qed.

(** r'''it's "x" '' ok''' : quotes of both kinds, pairs of the delimiter's quote included *)
Example free3_ex : free3 39 $"it's ""x"" '' ok" = true /\ free3 39 $"ends with '" = false /\ free3 39 $"a'''b" = false.
Proof. repeat split. Qed.
