(** Unfolding equations for [eval] (one per constructor, with the nested fixes named), the
    induction principle for the nested inductive [expr], and small lemmas on logs. *)
From Coq Require Import String.
From Cel.Model Require Import Eval.
From Coq Require Import Lia.

(** ** Named versions of the nested fixes of [eval] *)
Section Named1.
  Variable ev1 : expr -> result.

  Fixpoint list_go (l : list expr) (acc : list value) (log : list event) : result :=
    match l with
    | [] => (Ok (VList (rev' acc)), log)
    | a :: l' =>
        match ev1 a with
        | (Ok v, la) => list_go l' (v :: acc) (log ++ la)
        | (Err x, la) => (Err x, log ++ la)
        | (Crash s, la) => (Crash s, log ++ la)
        end
    end.

  Fixpoint map_go (l : list (expr * expr)) (m : list (key * value)) (log : list event)
    : result :=
    match l with
    | [] => (Ok (VMap m), log)
    | (ke, ve) :: l' =>
        match ev1 ke with
        | (Ok kv, lk) =>
            match key_of_value kv with
            | None => (Err EInvalid, log ++ lk)
            | Some k =>
                match ev1 ve with
                | (Ok v, lv) => map_go l' (assoc_set k v m) (log ++ lk ++ lv)
                | (Err x, lv) => (Err x, log ++ lk ++ lv)
                | (Crash s, lv) => (Crash s, log ++ lk ++ lv)
                end
            end
        | (Err x, lk) => (Err x, log ++ lk)
        | (Crash s, lk) => (Crash s, log ++ lk)
        end
    end.

End Named1.

Section Named.
  Variable ev : ctx -> expr -> result.
  Variables (iv av : str) (cond step res : expr).

  Fixpoint comp_loop (its : list value) (c' : ctx)
           (log : list event) : result :=
    match its with
    | [] => let '(o, l) := ev c' res in (o, log ++ l)
    | it :: rest =>
        match ev c' cond with
        | (Ok vc, lc) =>
            if to_bool vc then
              let c'' := define c' iv it in
              match ev c'' step with
              | (Ok va, ls) => comp_loop rest (define c'' av va) (log ++ lc ++ ls)
              | (Err x, ls) => (Err x, log ++ lc ++ ls)
              | (Crash s, ls) => (Crash s, log ++ lc ++ ls)
              end
            else let '(o, l) := ev c' res in (o, log ++ lc ++ l)
        | (Err x, lc) => (Err x, log ++ lc)
        | (Crash s, lc) => (Crash s, log ++ lc)
        end
    end.
End Named.

(** What a call does once its argument results [rs] are known. *)
Definition call_general (c : ctx) (f : str) (rt : option result) (rs : list result)
           (args : list expr) : result :=
  match get_function c f with
  | None => ret (Err (EUndeclared f))
  | Some d =>
      match rt with
      | None => call_fn f d None rs args []
      | Some (Ok tv, lt) => call_fn f d (Some tv) rs args lt
      | Some (Err x, lt) => (Err x, lt)
      | Some (Crash s, lt) => (Crash s, lt)
      end
  end.

Definition call_dispatch (c : ctx) (f : str) (rt : option result) (rs : list result)
           (args : list expr) : result :=
  match rs with
  | [rc; rx; ry] =>
      if str_eqb f op_conditional
      then rbind rc (fun vc => if to_bool vc then rx else ry)
      else call_general c f rt rs args
  | [rl; rr] =>
      match binop_of_name f with
      | Some BOr => rbind rl (fun l => if to_bool l then ret (Ok l) else rr)
      | Some BAnd => rbind rl (fun l => if to_bool l
                                        then rbind rr (fun r => ret (Ok (VBool (to_bool r))))
                                        else ret (Ok (VBool false)))
      | Some o => rbind rl (fun l => rbind rr (fun r => ret (strict_binop o l r)))
      | None => call_general c f rt rs args
      end
  | [ra] =>
      match unop_of_name f with
      | Some o => rbind ra (fun v => ret (v_unop o v))
      | None => call_general c f rt rs args
      end
  | _ => call_general c f rt rs args
  end.

Lemma eval_args_map c args :
  (fix go (l : list expr) : list result :=
     match l with [] => [] | a :: l' => eval c a :: go l' end) args = map (eval c) args.
Proof. induction args as [|a l IH]; [reflexivity|]. cbn [map]. now rewrite <- IH. Qed.

Lemma eval_call c f target args :
  eval c (ECall f target args) =
  call_dispatch c f (option_map (eval c) target) (map (eval c) args) args.
Proof.
  rewrite <- eval_args_map.
  destruct target as [t|]; cbn [option_map]; unfold call_dispatch, call_general.
  - cbn [eval]. destruct (eval c t) as [[tv|x|s] lt]; reflexivity.
  - reflexivity.
Qed.

Lemma eval_lit c v : eval c (ELit v) = (Ok v, []).
Proof. reflexivity. Qed.
Lemma eval_ident c x : eval c (EIdent x) = (lookup c x, []).
Proof. reflexivity. Qed.
Lemma eval_select c o f t :
  eval c (ESelect o f t) =
  rbind (eval c o) (fun v => if t then ret (Ok (VBool (has_field v f))) else ret (member c v f)).
Proof. reflexivity. Qed.
Lemma eval_list c es : eval c (EList es) = list_go (eval c) es [] [].
Proof. reflexivity. Qed.
Lemma eval_map c es : eval c (EMap es) = map_go (eval c) es [] [].
Proof. reflexivity. Qed.
Lemma eval_struct c t fs : eval c (EStruct t fs) = (Err EInvalid, []).
Proof. reflexivity. Qed.
Lemma eval_comp c range iv av init cond step res :
  eval c (EComp range iv av init cond step res) =
  rbind (eval c init) (fun vinit =>
  rbind (eval c range) (fun vr =>
    match range_items vr with
    | None => ret (Err EInvalid)
    | Some items => comp_loop eval iv av cond step res items (define (push c) av vinit) []
    end)).
Proof. reflexivity. Qed.

(** ** Induction principle for [expr] *)
Section ExprInd.
  Variable P : expr -> Prop.
  Hypothesis Hunspec : P EUnspec.
  Hypothesis Hlit : forall v, P (ELit v).
  Hypothesis Hident : forall x, P (EIdent x).
  Hypothesis Hcall : forall f target args,
      (forall t, target = Some t -> P t) -> Forall P args -> P (ECall f target args).
  Hypothesis Hselect : forall o f t, P o -> P (ESelect o f t).
  Hypothesis Hlist : forall es, Forall P es -> P (EList es).
  Hypothesis Hmap : forall es, Forall (fun kv => P (fst kv) /\ P (snd kv)) es -> P (EMap es).
  Hypothesis Hstruct : forall t fs, Forall (fun fv => P (snd fv)) fs -> P (EStruct t fs).
  Hypothesis Hcomp : forall r iv av i c s res,
      P r -> P i -> P c -> P s -> P res -> P (EComp r iv av i c s res).

  Fixpoint expr_ind' (e : expr) : P e :=
    match e with
    | EUnspec => Hunspec
    | ELit v => Hlit v
    | EIdent x => Hident x
    | ECall f target args =>
        Hcall f target args
          (match target as t0 return forall t, t0 = Some t -> P t with
           | Some t' => fun t H => match H in _ = y return match y with Some z => P z | None => True end
                                   with eq_refl => expr_ind' t' end
           | None => fun t H => match H in _ = y return match y with Some z => P z | None => True end
                                with eq_refl => I end
           end)
          ((fix go (l : list expr) : Forall P l :=
              match l with
              | [] => Forall_nil _
              | a :: l' => Forall_cons _ (expr_ind' a) (go l')
              end) args)
    | ESelect o f t => Hselect o f t (expr_ind' o)
    | EList es =>
        Hlist es ((fix go (l : list expr) : Forall P l :=
                     match l with
                     | [] => Forall_nil _
                     | a :: l' => Forall_cons _ (expr_ind' a) (go l')
                     end) es)
    | EMap es =>
        Hmap es ((fix go (l : list (expr * expr)) : Forall (fun kv => P (fst kv) /\ P (snd kv)) l :=
                    match l with
                    | [] => Forall_nil _
                    | (k, v) :: l' => Forall_cons (k, v) (conj (expr_ind' k) (expr_ind' v)) (go l')
                    end) es)
    | EStruct t fs =>
        Hstruct t fs ((fix go (l : list (str * expr)) : Forall (fun fv => P (snd fv)) l :=
                         match l with
                         | [] => Forall_nil _
                         | (f, v) :: l' => Forall_cons (f, v) (expr_ind' v) (go l')
                         end) fs)
    | EComp r iv av i c s res =>
        Hcomp r iv av i c s res (expr_ind' r) (expr_ind' i) (expr_ind' c) (expr_ind' s)
              (expr_ind' res)
    end.
End ExprInd.
