(** Lemmas behind C08: the integer arms of the arithmetic operators are exact or report
    overflow / division by zero. *)
From Cel.Model Require Import Arith.
From Coq Require Import Lia ZArith.
Open Scope Z_scope.

Inductive aop := OAdd | OSub | OMul | ODiv | ORem.

Definition apply_op (o : aop) : value -> value -> outcome value :=
  match o with
  | OAdd => v_add | OSub => v_sub | OMul => v_mul | ODiv => v_div | ORem => v_rem
  end.

(** The mathematically exact result over the integers ([None]: undefined, divisor 0).
    Division truncates toward zero ([Z.quot]); the remainder takes the sign of the dividend
    ([Z.rem]). *)
Definition exact (o : aop) (a b : Z) : option Z :=
  match o with
  | OAdd => Some (a + b)
  | OSub => Some (a - b)
  | OMul => Some (a * b)
  | ODiv => if b =? 0 then None else Some (Z.quot a b)
  | ORem => if b =? 0 then None else Some (Z.rem a b)
  end.

(** What the property prescribes for int operands.  The remainder overflows exactly when
    the quotient does (MIN % -1), as in cel-go. *)
Definition int_spec (o : aop) (a b : Z) : outcome value :=
  match exact o a b with
  | None => Err EDivZero
  | Some r =>
      match o with
      | ORem => if in_i64 (Z.quot a b) then Ok (VInt r) else Err EOverflow
      | _ => if in_i64 r then Ok (VInt r) else Err EOverflow
      end
  end.

Definition uint_spec (o : aop) (a b : Z) : outcome value :=
  match exact o a b with
  | None => Err EDivZero
  | Some r => if in_u64 r then Ok (VUInt r) else Err EOverflow
  end.

Lemma in_i64_iff z : in_i64 z = true <-> i64_min <= z <= i64_max.
Proof. unfold in_i64. rewrite andb_true_iff, !Z.leb_le. tauto. Qed.
Lemma in_u64_iff z : in_u64 z = true <-> 0 <= z <= u64_max.
Proof. unfold in_u64. rewrite andb_true_iff, !Z.leb_le. tauto. Qed.

Lemma int_op_exact o a b : apply_op o (VInt a) (VInt b) = int_spec o a b.
Proof.
  destruct o; unfold int_spec, exact; cbn [apply_op v_add v_sub v_mul v_div v_rem chk_i64];
    try reflexivity; destruct (b =? 0); reflexivity.
Qed.

(** For uint, quotient and remainder of in-range operands are always in range, so the
    code's unchecked [Ok] agrees with the checked specification. *)
Lemma quot_in_u64 a b : in_u64 a = true -> in_u64 b = true -> b <> 0 ->
  in_u64 (Z.quot a b) = true.
Proof.
  rewrite !in_u64_iff. intros Ha Hb Hn.
  rewrite Z.quot_div_nonneg by lia.
  split. apply Z.div_pos; lia.
  assert (a / b <= a). { apply Z.div_le_upper_bound; nia. } lia.
Qed.

Lemma rem_in_u64 a b : in_u64 a = true -> in_u64 b = true -> b <> 0 ->
  in_u64 (Z.rem a b) = true.
Proof.
  rewrite !in_u64_iff. intros Ha Hb Hn.
  rewrite Z.rem_mod_nonneg by lia.
  pose proof (Z.mod_pos_bound a b ltac:(lia)). lia.
Qed.

Lemma uint_op_exact o a b : in_u64 a = true -> in_u64 b = true ->
  apply_op o (VUInt a) (VUInt b) = uint_spec o a b.
Proof.
  intros Ha Hb.
  destruct o; unfold uint_spec, exact; cbn [apply_op v_add v_sub v_mul v_div v_rem chk_u64];
    try reflexivity.
  - destruct (b =? 0) eqn:E; [reflexivity|]. apply Z.eqb_neq in E.
    now rewrite quot_in_u64.
  - destruct (b =? 0) eqn:E; [reflexivity|]. apply Z.eqb_neq in E.
    now rewrite rem_in_u64.
Qed.

(** Never a crash, never a value of another type. *)
Lemma int_spec_shape o a b :
  match int_spec o a b with
  | Ok (VInt r) => in_i64 r = true \/ o = ORem
  | Err EOverflow | Err EDivZero => True
  | _ => False
  end.
Proof.
  unfold int_spec. destruct (exact o a b) as [r|]; [|exact I].
  destruct o; try (destruct (in_i64 r) eqn:E; [now left|exact I]).
  destruct (in_i64 (Z.quot a b)); [now right|exact I].
Qed.

Lemma rem_in_i64 a b : in_i64 a = true -> in_i64 b = true -> b <> 0 ->
  in_i64 (Z.rem a b) = true.
Proof.
  rewrite !in_i64_iff. unfold i64_min, i64_max. intros Ha Hb Hn.
  pose proof (Z.rem_bound_abs a b Hn).
  destruct (Z_le_gt_dec 0 a).
  - pose proof (Z.rem_nonneg a b Hn l). lia.
  - pose proof (Z.rem_nonpos a b Hn ltac:(lia)). lia.
Qed.

Lemma div_rem_identity a b : b <> 0 -> Z.quot a b * b + Z.rem a b = a.
Proof. intros _. pose proof (Z.quot_rem' a b). lia. Qed.

(** Division truncates toward zero: the magnitude of quotient*divisor never exceeds the
    dividend's, and the remainder has the dividend's sign (or is zero). *)
Lemma quot_toward_zero a b : b <> 0 -> Z.abs (Z.quot a b) * Z.abs b <= Z.abs a.
Proof.
  intros Hb. rewrite <- Z.quot_abs by assumption.
  rewrite Z.mul_comm. apply Z.mul_quot_le; lia.
Qed.

Lemma rem_sign a b : b <> 0 -> (0 <= a -> 0 <= Z.rem a b) /\ (a <= 0 -> Z.rem a b <= 0).
Proof. intros Hb; split; intros; [apply Z.rem_nonneg|apply Z.rem_nonpos]; assumption. Qed.

(** Mixed numeric kinds are rejected by every operator. *)
Definition is_num (v : value) : bool :=
  match v with VInt _ | VUInt _ | VDbl _ => true | _ => false end.
Definition same_kind (a b : value) : bool :=
  match a, b with
  | VInt _, VInt _ | VUInt _, VUInt _ | VDbl _, VDbl _ => true
  | _, _ => false
  end.

Lemma no_mixing o a b : is_num a = true -> is_num b = true -> same_kind a b = false ->
  apply_op o a b = Err EInvalid.
Proof.
  destruct a; cbn; try discriminate; destruct b; cbn; try discriminate; intros _ _ _;
    destruct o; reflexivity.
Qed.

Lemma neg_exact a : v_neg (VInt a) = if in_i64 (- a) then Ok (VInt (- a)) else Err EOverflow.
Proof. reflexivity. Qed.

Lemma neg_overflow_iff a : in_i64 a = true -> (in_i64 (- a) = false <-> a = i64_min).
Proof.
  rewrite in_i64_iff. unfold i64_min, i64_max. intros Ha. split.
  - intros H. destruct (in_i64 (- a)) eqn:E; [discriminate|].
    destruct (Z.eq_dec a (-9223372036854775808)) as [|Hn]; [assumption|].
    assert (in_i64 (- a) = true) by (apply in_i64_iff; unfold i64_min, i64_max; lia). congruence.
  - intros ->. reflexivity.
Qed.

(** The quotient of two in-range ints is out of range only for MIN / -1. *)
Lemma quot_overflow_iff a b : in_i64 a = true -> in_i64 b = true -> b <> 0 ->
  (in_i64 (Z.quot a b) = false <-> a = i64_min /\ b = -1).
Proof.
  intros Ha Hb Hn. pose proof Ha as Ha'. pose proof Hb as Hb'.
  rewrite in_i64_iff in Ha', Hb'. unfold i64_min, i64_max in *.
  split.
  - intros H.
    destruct (Z.eq_dec b (-1)) as [->|Hb1].
    + split; [|reflexivity].
      change (-1) with (- (1)) in H.
      rewrite Z.quot_opp_r, Z.quot_1_r in H by lia.
      apply neg_overflow_iff in H; assumption.
    + exfalso.
      assert (Hq : in_i64 (Z.quot a b) = true); [|congruence].
      apply in_i64_iff. unfold i64_min, i64_max.
      pose proof (quot_toward_zero a b Hn).
      destruct (Z.eq_dec b 1) as [->|Hb2]; [rewrite Z.quot_1_r; lia|].
      assert (2 <= Z.abs b) by lia.
      assert (Z.abs (Z.quot a b) * 2 <= Z.abs a) by nia.
      lia.
  - intros [-> ->]. reflexivity.
Qed.

Definition min_rem_neg1 (o : aop) (a b : Z) : bool :=
  match o with ORem => (a =? i64_min) && (b =? -1) | _ => false end.

Lemma int_char o a b : in_i64 a = true -> in_i64 b = true ->
  apply_op o (VInt a) (VInt b) =
  match exact o a b with
  | None => Err EDivZero
  | Some r => if in_i64 r && negb (min_rem_neg1 o a b) then Ok (VInt r) else Err EOverflow
  end.
Proof.
  intros Ha Hb. rewrite int_op_exact. unfold int_spec.
  destruct (exact o a b) as [r|] eqn:Ex; [|reflexivity].
  destruct o; cbn [min_rem_neg1 negb]; rewrite ?andb_true_r; try reflexivity.
  cbn [exact] in Ex. destruct (b =? 0) eqn:Eb; [discriminate|]. apply Z.eqb_neq in Eb.
  injection Ex as <-. rewrite rem_in_i64 by assumption. cbn [andb].
  destruct (in_i64 (Z.quot a b)) eqn:Eq.
  - destruct ((a =? i64_min) && (b =? -1)) eqn:E; [|reflexivity].
    apply andb_true_iff in E as [E1 E2]. apply Z.eqb_eq in E1, E2.
    assert (in_i64 (Z.quot a b) = false) by (apply quot_overflow_iff; auto). congruence.
  - apply quot_overflow_iff in Eq as [-> ->]; auto.
Qed.
