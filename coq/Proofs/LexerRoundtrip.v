(** C04: from source text to the tree - the lexer reads back a space-separated rendering of the tokens. *)
From Coq Require Import String Ascii.
From Cel.Model Require Import Surface.
From Cel.Proofs Require Import CompareProofs DurationRoundtrip ParserRoundtrip ParserFuel.
From Coq Require Import Lia Arith.
Open Scope nat_scope.

(** ** A text rendering of the tokens: every token followed by one space *)
Definition tok_text (t : tk) : str :=
  match t with
  | TEq => $"==" | TNe => $"!=" | TIn => $"in" | TLt => $"<" | TLe => $"<=" | TGe => $">=" | TGt => $">"
  | TAndAnd => $"&&" | TOrOr => $"||" | TLParen => $"(" | TRParen => $")" | TMinus => $"-" | TBang => $"!"
  | TQuestion => $"?" | TColon => $":" | TPlus => $"+" | TStar => $"*" | TSlash => $"/" | TPercent => $"%"
  | TIdent x => x
  | _ => []
  end.

Definition ident_okb (x : str) : bool :=
  match x with
  | [] => false
  | c :: _ => is_ident_start c && forallb is_ident_char x &&
              negb (str_eqb x (kw "in")) && negb (str_eqb x (kw "true")) &&
              negb (str_eqb x (kw "false")) && negb (str_eqb x (kw "null"))
  end.

Definition simple_tok (t : tk) : bool :=
  match t with
  | TEq | TNe | TIn | TLt | TLe | TGe | TGt | TAndAnd | TOrOr | TLParen | TRParen | TMinus | TBang
  | TQuestion | TColon | TPlus | TStar | TSlash | TPercent => true
  | TIdent x => ident_okb x
  | _ => false
  end.

Definition text (ts : list tk) : str := flat_map (fun t => tok_text t ++ [32%N]) ts.

(** ** One token *)
Definition nq (c : N) : bool := negb ((c =? 34) || (c =? 39))%N.

Lemma string_len_none raw c s : nq c = true -> string_len raw (c :: s) = None.
Proof. unfold nq, string_len. intros H. apply Bool.negb_true_iff in H. now rewrite H. Qed.

Definition is_rR (a : N) : bool := ((a =? ch "r") || (a =? ch "R"))%N.
Lemma stl_none a s : nq a = true -> (is_rR a = true -> match s with [] => True | b :: _ => nq b = true end) ->
  string_tok_len (a :: s) = None.
Proof.
  intros Ha Hs. unfold string_tok_len. rewrite (string_len_none false a s Ha).
  fold (is_rR a). destruct (is_rR a); [|reflexivity]. specialize (Hs eq_refl).
  destruct s as [|b s']; [reflexivity|]. now rewrite (string_len_none true b s' Hs).
Qed.

Lemma ident_char_nq c : is_ident_char c = true -> nq c = true.
Proof. unfold is_ident_char, is_letter, is_digit, nq. intros H. lia. Qed.

Lemma ident_text_nostr x rest : forallb is_ident_char x = true -> x <> [] ->
  bytes_tok_len (x ++ 32%N :: rest) = None /\ string_tok_len (x ++ 32%N :: rest) = None.
Proof.
  intros Hx Hne. destruct x as [|a x]; [congruence|]. cbn [forallb] in Hx. apply andb_prop in Hx as [Ha Hx].
  pose proof (ident_char_nq a Ha) as Na.
  assert (Hhead : match x ++ 32%N :: rest with [] => True | b :: _ => nq b = true end).
  { destruct x as [|b x']; [reflexivity|]. cbn [forallb] in Hx. apply andb_prop in Hx as [Hb _]. now apply ident_char_nq. }
  split.
  - cbn [app]. unfold bytes_tok_len. destruct ((a =? ch "b") || (a =? ch "B"))%N; [|reflexivity].
    destruct x as [|b x'].
    + cbn [app]. rewrite stl_none; [reflexivity|reflexivity|discriminate].
    + cbn [app forallb] in *. apply andb_prop in Hx as [Hb Hx'].
      rewrite stl_none; [reflexivity|now apply ident_char_nq|intros _].
      destruct x' as [|c x'']; [reflexivity|]. cbn [forallb] in Hx'. apply andb_prop in Hx' as [Hc _]. now apply ident_char_nq.
  - cbn [app]. apply stl_none; [exact Na|intros _; exact Hhead].
Qed.

Lemma lex_ident x rest : ident_okb x = true -> lex_one (x ++ 32%N :: rest) = Some (Some (TIdent x), 32%N :: rest).
Proof.
  intros Hok. destruct x as [|c x']; [discriminate|]. unfold ident_okb in Hok.
  repeat (apply andb_prop in Hok as [Hok ?]).
  destruct (ident_text_nostr (c :: x') rest H3 ltac:(discriminate)) as [Hb Hs].
  unfold lex_one. cbn [app] in *. rewrite Hb, Hs.
  assert (Hws : is_ws c = false) by (unfold is_ident_start, is_letter, is_ws in *; lia).
  rewrite Hws, Hok.
  change (c :: x' ++ 32%N :: rest) with ((c :: x') ++ 32%N :: rest).
  rewrite (span_app_stop is_ident_char (c :: x') (32%N :: rest) H3) by reflexivity.
  apply Bool.negb_true_iff in H, H0, H1, H2. now rewrite H2, H1, H0, H.
Qed.

Lemma lex_simple t rest : simple_tok t = true -> lex_one (tok_text t ++ 32%N :: rest) = Some (Some t, 32%N :: rest).
Proof.
  destruct t; try discriminate; intros H; try reflexivity. now apply lex_ident.
Qed.

Lemma lex_space rest : (match rest with c :: _ => is_ws c = false | [] => True end) ->
  lex_one (32%N :: rest) = Some (None, rest).
Proof.
  intros H. unfold lex_one. cbn [bytes_tok_len string_tok_len string_len N.eqb orb option_map].
  change (is_ws 32) with true. cbv iota. cbn [span]. change (is_ws 32) with true. cbv iota.
  destruct rest as [|c r]; [reflexivity|]. cbn [span]. now rewrite H.
Qed.

Lemma tok_text_head t : simple_tok t = true -> exists c r, tok_text t = c :: r /\ is_ws c = false.
Proof.
  destruct t; try discriminate; intros H; try (eexists; eexists; split; reflexivity).
  cbn [tok_text]. unfold simple_tok, ident_okb in H. destruct text0 as [|c r]; [discriminate|].
  exists c, r. split; [reflexivity|]. repeat (apply andb_prop in H as [H ?]).
  unfold is_ident_start, is_letter, is_ws in *. lia.
Qed.

Lemma text_head ts : Forall (fun t => simple_tok t = true) ts ->
  match text ts with c :: _ => is_ws c = false | [] => True end.
Proof.
  intros H. destruct H as [|t ts Ht _]; [exact I|]. cbn [text flat_map].
  destruct (tok_text_head t Ht) as (c & r & -> & Hc). exact Hc.
Qed.

Lemma lex_text ts : Forall (fun t => simple_tok t = true) ts -> forall f acc, 2 * length ts <= f ->
  lex_fuel f (text ts) acc = Some (rev' acc ++ ts).
Proof.
  induction 1 as [|t ts Ht Hts IH]; intros f acc Hf.
  - cbn [text flat_map]. destruct f; cbn [lex_fuel]; now rewrite app_nil_r.
  - cbn [length] in Hf. destruct f as [|[|f]]; try lia.
    change (text (t :: ts)) with ((tok_text t ++ [32%N]) ++ text ts). rewrite <- app_assoc. cbn [app].
    destruct (tok_text_head t Ht) as (c & r & Et & _).
    assert (Hl : lex_fuel (S (S f)) (tok_text t ++ 32%N :: text ts) acc = lex_fuel (S f) (32%N :: text ts) (t :: acc)).
    { rewrite Et. cbn [app lex_fuel]. change (c :: r ++ 32%N :: text ts) with ((c :: r) ++ 32%N :: text ts).
      rewrite <- Et, (lex_simple t (text ts) Ht). reflexivity. }
    rewrite Hl. cbn [lex_fuel]. rewrite (lex_space (text ts) (text_head ts Hts)).
    rewrite IH by lia. unfold rev'. rewrite <- !rev_alt. cbn [rev]. now rewrite <- app_assoc.
Qed.

Lemma text_len ts : Forall (fun t => simple_tok t = true) ts -> 2 * length ts <= length (text ts).
Proof.
  induction 1 as [|t ts Ht _ IH]; [cbn; lia|]. cbn [text flat_map length]. rewrite !app_length.
  destruct (tok_text_head t Ht) as (c & r & -> & _). cbn [length]. fold (text ts). lia.
Qed.

Theorem lex_roundtrip ts : Forall (fun t => simple_tok t = true) ts -> lex (text ts) = Some ts.
Proof.
  intros H. unfold lex. rewrite (lex_text ts H); [reflexivity|]. pose proof (text_len ts H). lia.
Qed.

(** ** The tokens of a rendered tree are simple *)
Fixpoint ids_ok (t : st) : Prop :=
  match t with
  | SId x => ident_okb x = true
  | SNot _ a | SNeg _ a | SParen a => ids_ok a
  | SMul _ a b | SAdd _ a b | SRel _ a b => ids_ok a /\ ids_ok b
  | SAnd a rs | SOr a rs =>
      ids_ok a /\ (fix go (l : list st) : Prop := match l with [] => True | r :: l' => ids_ok r /\ go l' end) rs
  | SCond c a b => ids_ok c /\ ids_ok a /\ ids_ok b
  end.

Definition Simple (ts : list tk) : Prop := Forall (fun t => simple_tok t = true) ts.

Lemma simple_app a b : Simple a -> Simple b -> Simple (a ++ b).
Proof. intros Ha Hb. apply Forall_app. split; assumption. Qed.
Lemma simple_tk_at l t : Simple (raw t) -> Simple (tk_at l t).
Proof.
  intros H. unfold tk_at. destruct (l <=? prec t); [exact H|].
  constructor; [reflexivity|]. apply simple_app; [exact H|]. constructor; [reflexivity|constructor].
Qed.
Lemma simple_repeat t n : simple_tok t = true -> Simple (repeat t n).
Proof. intros H. induction n; cbn [repeat]; constructor; auto. Qed.

Lemma raw_simple t : wf_st t -> ids_ok t -> Simple (raw t).
Proof.
  induction t using st_ind'; cbn [wf_st ids_ok]; intros W I.
  - constructor; [exact I|constructor].
  - cbn [raw]. fold (tk_at 7 t). apply simple_app; [now apply (simple_repeat TBang)|]. apply simple_tk_at. now apply IHt.
  - cbn [raw]. fold (tk_at 7 t). apply simple_app; [now apply (simple_repeat TMinus)|]. apply simple_tk_at. now apply IHt.
  - destruct W as (Wo & Wa & Wb). destruct I as [Ia Ib]. cbn [raw]. fold (tk_at 5 t1). fold (tk_at 6 t2).
    apply simple_app; [apply simple_tk_at; auto|]. apply simple_app; [|apply simple_tk_at; auto].
    constructor; [|constructor]. destruct op; cbn in Wo; try congruence; reflexivity.
  - destruct W as (Wo & Wa & Wb). destruct I as [Ia Ib]. cbn [raw]. fold (tk_at 4 t1). fold (tk_at 5 t2).
    apply simple_app; [apply simple_tk_at; auto|]. apply simple_app; [|apply simple_tk_at; auto].
    constructor; [|constructor]. destruct op; cbn in Wo; try congruence; reflexivity.
  - destruct W as (Wo & Wa & Wb). destruct I as [Ia Ib]. cbn [raw]. fold (tk_at 3 t1). fold (tk_at 4 t2).
    apply simple_app; [apply simple_tk_at; auto|]. apply simple_app; [|apply simple_tk_at; auto].
    constructor; [|constructor]. destruct op; cbn in Wo; try congruence; reflexivity.
  - destruct W as (Wa & _ & Wrs). destruct I as [Ia Irs]. rewrite raw_and.
    apply simple_app; [apply simple_tk_at; auto|].
    induction H as [|r rs Hr _ IH]; [constructor|]. destruct Wrs as [Wr Wrs]. destruct Irs as [Ir Irs].
    cbn [flat_map]. apply simple_app; [|now apply IH]. constructor; [reflexivity|]. apply simple_tk_at. auto.
  - destruct W as (Wa & _ & Wrs). destruct I as [Ia Irs]. rewrite raw_or.
    apply simple_app; [apply simple_tk_at; auto|].
    induction H as [|r rs Hr _ IH]; [constructor|]. destruct Wrs as [Wr Wrs]. destruct Irs as [Ir Irs].
    cbn [flat_map]. apply simple_app; [|now apply IH]. constructor; [reflexivity|]. apply simple_tk_at. auto.
  - destruct W as (Wc & Wa & Wb). destruct I as (Ic & Ia & Ib). cbn [raw]. fold (tk_at 1 t1). fold (tk_at 1 t2).
    apply simple_app; [apply simple_tk_at; auto|]. apply simple_app; [constructor; [reflexivity|constructor]|].
    apply simple_app; [apply simple_tk_at; auto|]. apply simple_app; [constructor; [reflexivity|constructor]|auto].
  - cbn [raw]. constructor; [reflexivity|]. apply simple_app; [auto|constructor; [reflexivity|constructor]].
Qed.

(** ** From source text to the tree *)
Theorem compile_roundtrip t : wf_st t -> ids_ok t -> compile (text (raw t)) = CExpr (ast t).
Proof.
  intros W I. unfold compile. rewrite (lex_roundtrip (raw t) (raw_simple t W I)).
  now apply parse_tokens_roundtrip.
Qed.
