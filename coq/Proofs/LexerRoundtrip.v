(** C04: from source text to the tree - the lexer reads back a space-separated rendering of the tokens. *)
From Coq Require Import String Ascii.
From Cel.Model Require Import Surface.
From Cel.Proofs Require Import CompareProofs NumericProofs LiteralProofs DurationRoundtrip ParserRoundtrip ParserFuel.
From Coq Require Import Lia Arith ZArith ZifyBool ZifyNat ZifyN.
Ltac Zify.zify_post_hook ::= Z.div_mod_to_equations.
Open Scope nat_scope.

(** a one-quote literal body the scanner accepts: escape sequences and characters other than
    the quote, the backslash and line breaks *)
Fixpoint body_ok (fuel : nat) (q : N) (s : str) : bool :=
  match fuel with
  | O => false
  | S f =>
      match s with
      | [] => true
      | c :: r =>
          if (c =? q)%N then false
          else if ((c =? 10) || (c =? 13))%N then false
          else if (c =? 92)%N then
            match esc_len r with Some k => body_ok f q (skipn k r) | None => false end
          else body_ok f q r
      end
  end.

Definition quoted_okb (t : str) : bool :=
  match t with
  | q :: r => ((q =? 34) || (q =? 39))%N &&
              match rev r with
              | q2 :: rb => (q2 =? q)%N && body_ok (S (length rb)) q (rev rb)
              | [] => false
              end
  | [] => false
  end.

(** ** A text rendering of the tokens: every token followed by one space *)
Definition tok_text (t : tk) : str :=
  match t with
  | TEq => $"==" | TNe => $"!=" | TIn => $"in" | TLt => $"<" | TLe => $"<=" | TGe => $">=" | TGt => $">"
  | TAndAnd => $"&&" | TOrOr => $"||" | TLParen => $"(" | TRParen => $")" | TMinus => $"-" | TBang => $"!"
  | TQuestion => $"?" | TColon => $":" | TPlus => $"+" | TStar => $"*" | TSlash => $"/" | TPercent => $"%"
  | TIdent x => x
  | TDot => $"." | TLBracket => $"[" | TRBracket => $"]" | TLBrace => $"{" | TRBrace => $"}" | TComma => $","
  | TTrue => $"true" | TFalse => $"false" | TNull => $"null"
  | TInt t => t | TUint t => t | TString t => t | TBytes t => t | TFloat t => t
  | TEscIdent t => t
  end.

Definition ident_okb (x : str) : bool :=
  match x with
  | [] => false
  | c :: _ => is_ident_start c && forallb is_ident_char x &&
              negb (str_eqb x (kw "in")) && negb (str_eqb x (kw "true")) &&
              negb (str_eqb x (kw "false")) && negb (str_eqb x (kw "null"))
  end.

Definition simple_tok (t : tk) : bool :=
  match t with
  | TEq | TNe | TIn | TLt | TLe | TGe | TGt | TAndAnd | TOrOr | TLParen | TRParen | TMinus | TBang
  | TQuestion | TColon | TPlus | TStar | TSlash | TPercent => true
  | TIdent x => ident_okb x
  | TDot | TLBracket | TRBracket | TLBrace | TRBrace | TComma | TTrue | TFalse | TNull => true
  | TInt t => all_digits t && match t with [] => false | _ => true end
  | TUint t => match rev t with
               | c :: rd => (c =? ch "u")%N && all_digits (rev rd) && match rd with [] => false | _ => true end
               | [] => false
               end
  | TString t => quoted_okb t
  | TBytes t => match t with p :: t' => ((p =? ch "b") || (p =? ch "B"))%N && quoted_okb t' | [] => false end
  | _ => false
  end.

Definition text (ts : list tk) : str := flat_map (fun t => tok_text t ++ [32%N]) ts.

(** ** One token *)
Definition nq (c : N) : bool := negb ((c =? 34) || (c =? 39))%N.

Lemma string_len_none raw c s : nq c = true -> string_len raw (c :: s) = None.
Proof. unfold nq, string_len. intros H. apply Bool.negb_true_iff in H. now rewrite H. Qed.

Definition is_rR (a : N) : bool := ((a =? ch "r") || (a =? ch "R"))%N.
Lemma stl_none a s : nq a = true -> (is_rR a = true -> match s with [] => True | b :: _ => nq b = true end) ->
  string_tok_len (a :: s) = None.
Proof.
  intros Ha Hs. unfold string_tok_len. rewrite (string_len_none false a s Ha).
  fold (is_rR a). destruct (is_rR a); [|reflexivity]. specialize (Hs eq_refl).
  destruct s as [|b s']; [reflexivity|]. now rewrite (string_len_none true b s' Hs).
Qed.

Lemma ident_char_nq c : is_ident_char c = true -> nq c = true.
Proof. unfold is_ident_char, is_letter, is_digit, nq. intros H. lia. Qed.

Lemma ident_text_nostr x rest : forallb is_ident_char x = true -> x <> [] ->
  bytes_tok_len (x ++ 32%N :: rest) = None /\ string_tok_len (x ++ 32%N :: rest) = None.
Proof.
  intros Hx Hne. destruct x as [|a x]; [congruence|]. cbn [forallb] in Hx. apply andb_prop in Hx as [Ha Hx].
  pose proof (ident_char_nq a Ha) as Na.
  assert (Hhead : match x ++ 32%N :: rest with [] => True | b :: _ => nq b = true end).
  { destruct x as [|b x']; [reflexivity|]. cbn [forallb] in Hx. apply andb_prop in Hx as [Hb _]. now apply ident_char_nq. }
  split.
  - cbn [app]. unfold bytes_tok_len. destruct ((a =? ch "b") || (a =? ch "B"))%N; [|reflexivity].
    destruct x as [|b x'].
    + cbn [app]. rewrite stl_none; [reflexivity|reflexivity|discriminate].
    + cbn [app forallb] in *. apply andb_prop in Hx as [Hb Hx'].
      rewrite stl_none; [reflexivity|now apply ident_char_nq|intros _].
      destruct x' as [|c x'']; [reflexivity|]. cbn [forallb] in Hx'. apply andb_prop in Hx' as [Hc _]. now apply ident_char_nq.
  - cbn [app]. apply stl_none; [exact Na|intros _; exact Hhead].
Qed.

Lemma lex_ident x rest : ident_okb x = true -> lex_one (x ++ 32%N :: rest) = Some (Some (TIdent x), 32%N :: rest).
Proof.
  intros Hok. destruct x as [|c x']; [discriminate|]. unfold ident_okb in Hok.
  repeat (apply andb_prop in Hok as [Hok ?]).
  destruct (ident_text_nostr (c :: x') rest H3 ltac:(discriminate)) as [Hb Hs].
  unfold lex_one. cbn [app] in *. rewrite Hb, Hs.
  assert (Hws : is_ws c = false) by (unfold is_ident_start, is_letter, is_ws in *; lia).
  rewrite Hws, Hok.
  change (c :: x' ++ 32%N :: rest) with ((c :: x') ++ 32%N :: rest).
  rewrite (span_app_stop is_ident_char (c :: x') (32%N :: rest) H3) by reflexivity.
  apply Bool.negb_true_iff in H, H0, H1, H2. now rewrite H2, H1, H0, H.
Qed.

Lemma digit_nq c : is_digit c = true -> nq c = true.
Proof. unfold is_digit, nq. intros H. lia. Qed.

Lemma num_tok_int ds rest : all_digits ds = true -> ds <> [] ->
  num_tok (ds ++ 32%N :: rest) = Some (NInt, length ds).
Proof.
  intros Hd Hne. unfold num_tok. rewrite (span_app_stop is_digit ds (32%N :: rest) Hd) by reflexivity.
  destruct ds as [|d ds']; [congruence|]. cbn iota beta.
  assert (Hx : match (d :: ds') ++ 32%N :: rest with
               | z :: x :: r1 => ((z =? 48) && (x =? ch "x"))%N = false
               | _ => True end).
  { cbn [app]. destruct ds' as [|d2 ds'']; cbn [app].
    - now rewrite Bool.andb_false_r.
    - cbn [all_digits forallb] in Hd. apply andb_prop in Hd as [_ Hd]. apply andb_prop in Hd as [Hd _].
      unfold is_digit in Hd. replace (d2 =? ch "x")%N with false by (cbn; lia). now rewrite Bool.andb_false_r. }
  cbn [app] in *. destruct (ds' ++ 32%N :: rest) as [|x r1] eqn:E.
  - destruct ds'; discriminate.
  - rewrite Hx. change (32 =? 46)%N with false. change (exponent_len (32%N :: rest)) with (@None nat).
    cbn [option_map]. cbv iota beta. reflexivity.
Qed.

Lemma num_tok_uint ds rest : all_digits ds = true -> ds <> [] ->
  num_tok ((ds ++ [ch "u"]) ++ 32%N :: rest) = Some (NUint, S (length ds)).
Proof.
  intros Hd Hne. rewrite <- app_assoc. cbn [app]. unfold num_tok.
  rewrite (span_app_stop is_digit ds (ch "u" :: 32%N :: rest) Hd) by reflexivity.
  destruct ds as [|d ds']; [congruence|]. cbn iota beta.
  assert (Hx : match (d :: ds') ++ ch "u" :: 32%N :: rest with
               | z :: x :: r1 => ((z =? 48) && (x =? ch "x"))%N = false
               | _ => True end).
  { cbn [app]. destruct ds' as [|d2 ds'']; cbn [app].
    - now rewrite Bool.andb_false_r.
    - cbn [all_digits forallb] in Hd. apply andb_prop in Hd as [_ Hd]. apply andb_prop in Hd as [Hd _].
      unfold is_digit in Hd. replace (d2 =? ch "x")%N with false by (cbn; lia). now rewrite Bool.andb_false_r. }
  cbn [app] in *. destruct (ds' ++ ch "u" :: 32%N :: rest) as [|x r1] eqn:E.
  - destruct ds'; discriminate.
  - rewrite Hx. change (ch "u" =? 46)%N with false. change (exponent_len (ch "u" :: 32%N :: rest)) with (@None nat).
    cbn [option_map]. cbv iota beta. change ((ch "u" =? ch "u")%N || (ch "u" =? ch "U")%N) with true. cbv iota.
    unfold best_num.
    replace (length (d :: ds') <? S (length (d :: ds'))) with true by (symmetry; apply Nat.ltb_lt; lia). reflexivity.
Qed.

Lemma digit_head_lex d s : is_digit d = true ->
  bytes_tok_len (d :: s) = None /\ string_tok_len (d :: s) = None /\ is_ws d = false /\ is_ident_start d = false.
Proof.
  intros Hd. unfold is_digit in Hd. repeat split.
  - unfold bytes_tok_len. replace ((d =? ch "b") || (d =? ch "B"))%N with false by (cbn; lia). reflexivity.
  - apply stl_none; [unfold nq; lia|]. unfold is_rR. intros H. exfalso. cbn in H. lia.
  - unfold is_ws. lia.
  - unfold is_ident_start, is_letter. lia.
Qed.

Lemma lex_int ds rest : all_digits ds = true -> ds <> [] ->
  lex_one (ds ++ 32%N :: rest) = Some (Some (TInt ds), 32%N :: rest).
Proof.
  intros Hd Hne. pose proof (num_tok_int ds rest Hd Hne) as Hn.
  destruct ds as [|d ds']; [congruence|]. cbn [all_digits forallb] in Hd. apply andb_prop in Hd as [Hd0 Hd'].
  destruct (digit_head_lex d (ds' ++ 32%N :: rest) Hd0) as (Hb & Hs & Hw & Hi).
  unfold lex_one. cbn [app] in *. rewrite Hb, Hs, Hw, Hi, Hn.
  change (d :: ds' ++ 32%N :: rest) with ((d :: ds') ++ 32%N :: rest).
  rewrite firstn_app, skipn_app, firstn_all, skipn_all, Nat.sub_diag. cbn [firstn skipn app]. now rewrite app_nil_r.
Qed.

Lemma lex_uint ds rest : all_digits ds = true -> ds <> [] ->
  lex_one ((ds ++ [ch "u"]) ++ 32%N :: rest) = Some (Some (TUint (ds ++ [ch "u"])), 32%N :: rest).
Proof.
  intros Hd Hne. pose proof (num_tok_uint ds rest Hd Hne) as Hn.
  destruct ds as [|d ds']; [congruence|]. cbn [all_digits forallb] in Hd. apply andb_prop in Hd as [Hd0 Hd'].
  destruct (digit_head_lex d ((ds' ++ [ch "u"]) ++ 32%N :: rest) Hd0) as (Hb & Hs & Hw & Hi).
  unfold lex_one. cbn [app] in *. rewrite Hb, Hs, Hw, Hi, Hn.
  change (d :: (ds' ++ [ch "u"]) ++ 32%N :: rest) with (((d :: ds') ++ [ch "u"]) ++ 32%N :: rest).
  assert (L : S (length (d :: ds')) = length ((d :: ds') ++ [ch "u"])) by (rewrite app_length; cbn; lia).
  rewrite L, firstn_app, skipn_app, firstn_all, skipn_all, Nat.sub_diag. cbn [firstn skipn app]. now rewrite app_nil_r.
Qed.

Lemma uint_text t : simple_tok (TUint t) = true -> exists ds, t = ds ++ [ch "u"] /\ all_digits ds = true /\ ds <> [].
Proof.
  cbn [simple_tok]. destruct (rev t) as [|c rd] eqn:E; [discriminate|]. intros H.
  apply andb_prop in H as [H H3]. apply andb_prop in H as [H1 H2]. apply N.eqb_eq in H1. subst c.
  exists (rev rd). split; [|split; [exact H2|]].
  - rewrite <- (rev_involutive t), E. reflexivity.
  - destruct rd; [discriminate|]. cbn [rev]. intros H. apply app_eq_nil in H as [_ H]. discriminate.
Qed.

Arguments N.add : simpl never.
Arguments N.div : simpl never.
Arguments N.modulo : simpl never.

Lemma esc_len_app r x k : esc_len r = Some k -> esc_len (r ++ x) = Some k /\ k <= length r.
Proof.
  intros H. destruct r as [|c r]; [discriminate|]. cbn [esc_len app length] in *.
  match type of H with (if ?b then _ else _) = _ => destruct b end; [injection H as <-; split; [reflexivity|lia]|].
  match type of H with (if ?b then _ else _) = _ => destruct b end.
  { destruct r as [|h1 [|h2 r]]; try discriminate. cbn [app length]. destruct (is_hex h1 && is_hex h2); [|discriminate].
    injection H as <-. split; [reflexivity|lia]. }
  match type of H with (if ?b then _ else _) = _ => destruct b end.
  { destruct r as [|h1 [|h2 [|h3 [|h4 r]]]]; try discriminate. cbn [app length].
    destruct (is_hex h1 && is_hex h2 && is_hex h3 && is_hex h4); [|discriminate]. injection H as <-. split; [reflexivity|lia]. }
  match type of H with (if ?b then _ else _) = _ => destruct b end.
  { destruct r as [|h1 [|h2 [|h3 [|h4 [|h5 [|h6 [|h7 [|h8 r]]]]]]]]; try discriminate. cbn [app length].
    match type of H with (if ?b then _ else _) = _ => destruct b end; [|discriminate]. injection H as <-. split; [reflexivity|lia]. }
  match type of H with (if ?b then _ else _) = _ => destruct b end; [|discriminate].
  destruct r as [|o1 [|o2 r]]; try discriminate. cbn [app length]. destruct (is_oct o1 && is_oct o2); [|discriminate].
  injection H as <-. split; [reflexivity|lia].
Qed.

Lemma scan_short_ok f : forall q body n rest f', body_ok f q body = true -> f <= f' ->
  scan_short (S f') q false (body ++ q :: rest) n = Some (S (length body + n)).
Proof.
  induction f as [|f IH]; intros q body n rest f' Hb Hf; [discriminate|].
  destruct body as [|c r].
  - cbn [app scan_short length]. now rewrite N.eqb_refl.
  - cbn [body_ok] in Hb. cbn [app scan_short].
    destruct (c =? q)%N; [discriminate|]. destruct ((c =? 10) || (c =? 13))%N; [discriminate|].
    destruct f' as [|f']; [lia|].
    destruct (c =? 92)%N; cbn [negb andb].
    + destruct (esc_len r) as [k|] eqn:E; [|discriminate].
      destruct (esc_len_app r (q :: rest) k E) as [E' Hk]. rewrite E'.
      rewrite skipn_app. replace (k - length r) with 0 by lia. cbn [skipn].
      rewrite (IH q (skipn k r) (S (k + n)) rest f' Hb ltac:(lia)). rewrite skipn_length. cbn [length]. f_equal. lia.
    + rewrite (IH q r (S n) rest f' Hb ltac:(lia)). cbn [length]. f_equal. lia.
Qed.

Lemma body_ok_mono f : forall q s f', body_ok f q s = true -> f <= f' -> body_ok f' q s = true.
Proof.
  induction f as [|f IH]; intros q s f' H Hf; [discriminate|]. destruct f' as [|f']; [lia|].
  cbn [body_ok] in *. destruct s as [|c r]; [reflexivity|].
  destruct (c =? q)%N; [discriminate|]. destruct ((c =? 10) || (c =? 13))%N; [discriminate|].
  destruct (c =? 92)%N.
  - destruct (esc_len r); [|discriminate]. apply IH; [exact H|lia].
  - apply IH; [exact H|lia].
Qed.

(** the literal  q body q  followed by a space is one STRING token *)
Lemma string_len_lit q body rest : (q = 34 \/ q = 39)%N -> body_ok (S (length body)) q body = true ->
  string_len false (q :: body ++ q :: 32%N :: rest) = Some (S (S (length body))).
Proof.
  intros Hq Hb.
  assert (Hqq : ((q =? 34) || (q =? 39))%N = true) by (destruct Hq as [-> | ->]; reflexivity).
  unfold string_len. rewrite Hqq.
  rewrite (scan_short_ok (S (length body)) q body 0 (32%N :: rest) _ Hb)
    by (cbn [length]; rewrite app_length; cbn [length]; lia).
  cbn [option_map]. rewrite Nat.add_0_r.
  assert (L : match body ++ q :: 32%N :: rest with
              | q2 :: q3 :: r3 => if ((q2 =? q) && (q3 =? q))%N
                                  then option_map (fun k => 3 + k) (scan_long (S (length (q :: body ++ q :: 32%N :: rest))) q false r3 0)
                                  else None
              | _ => None end = None).
  { destruct body as [|c r].
    - cbn [app]. rewrite N.eqb_refl. replace (32 =? q)%N with false by (destruct Hq as [-> | ->]; reflexivity). reflexivity.
    - cbn [app]. cbn [body_ok] in Hb. destruct (c =? q)%N; [discriminate|].
      destruct (r ++ q :: 32%N :: rest); reflexivity. }
  rewrite L. reflexivity.
Qed.

Lemma take_lit (t : str) rest : firstn (length t) (t ++ 32%N :: rest) = t /\ skipn (length t) (t ++ 32%N :: rest) = 32%N :: rest.
Proof.
  rewrite firstn_app, skipn_app, firstn_all, skipn_all, Nat.sub_diag. cbn [firstn skipn app]. now rewrite app_nil_r.
Qed.

Lemma lex_string q body rest : (q = 34 \/ q = 39)%N -> body_ok (S (length body)) q body = true ->
  lex_one ((q :: body ++ [q]) ++ 32%N :: rest) = Some (Some (TString (q :: body ++ [q])), 32%N :: rest).
Proof.
  intros Hq Hb. pose proof (string_len_lit q body rest Hq Hb) as SL.
  assert (Hnb : ((q =? ch "b") || (q =? ch "B"))%N = false) by (destruct Hq as [-> | ->]; reflexivity).
  assert (Hnr : ((q =? ch "r") || (q =? ch "R"))%N = false) by (destruct Hq as [-> | ->]; reflexivity).
  destruct (take_lit (q :: body ++ [q]) rest) as [T1 T2].
  assert (Ln : length (q :: body ++ [q]) = S (S (length body))) by (cbn [length]; rewrite app_length; cbn [length]; lia).
  rewrite Ln in T1, T2.
  assert (Es : (q :: body ++ [q]) ++ 32%N :: rest = q :: body ++ q :: 32%N :: rest) by (cbn [app]; rewrite <- app_assoc; reflexivity).
  rewrite Es in *. unfold lex_one, bytes_tok_len, string_tok_len. rewrite Hnb, Hnr, SL, T1, T2. reflexivity.
Qed.

Lemma lex_bytes p q body rest : (p = ch "b" \/ p = ch "B")%N -> (q = 34 \/ q = 39)%N ->
  body_ok (S (length body)) q body = true ->
  lex_one ((p :: q :: body ++ [q]) ++ 32%N :: rest) = Some (Some (TBytes (p :: q :: body ++ [q])), 32%N :: rest).
Proof.
  intros Hp Hq Hb. pose proof (string_len_lit q body rest Hq Hb) as SL.
  assert (Hpb : ((p =? ch "b") || (p =? ch "B"))%N = true) by (destruct Hp as [-> | ->]; reflexivity).
  assert (Hnr : ((q =? ch "r") || (q =? ch "R"))%N = false) by (destruct Hq as [-> | ->]; reflexivity).
  destruct (take_lit (p :: q :: body ++ [q]) rest) as [T1 T2].
  assert (Ln : length (p :: q :: body ++ [q]) = S (S (S (length body)))) by (cbn [length]; rewrite app_length; cbn [length]; lia).
  rewrite Ln in T1, T2.
  assert (Es : (p :: q :: body ++ [q]) ++ 32%N :: rest = p :: q :: body ++ q :: 32%N :: rest) by (cbn [app]; rewrite <- app_assoc; reflexivity).
  rewrite Es in *. unfold lex_one, bytes_tok_len, string_tok_len. rewrite Hpb, Hnr, SL. cbn [option_map]. rewrite T1, T2. reflexivity.
Qed.

(** every spelling [render] produces is such a body *)
Lemma simple_esc c e r : simple_for c = Some e -> esc_len (e :: r) = Some 1.
Proof.
  unfold simple_for.
  repeat match goal with
         | |- context [(c =? ?k)%N] =>
             let E := fresh in destruct (c =? k)%N eqn:E; [apply N.eqb_eq in E; subst; cbn|cbn [orb]]
         end; try (intros [= <-]; reflexivity); discriminate.
Qed.

Lemma list2 {A} (l : list A) : length l = 2 -> exists a b, l = [a; b].
Proof. destruct l as [|a [|b [|c l]]]; try discriminate. eauto. Qed.
Lemma list3 {A} (l : list A) : length l = 3 -> exists a b c, l = [a; b; c].
Proof. destruct l as [|a [|b [|c [|d l]]]]; try discriminate. eauto. Qed.
Lemma list4 {A} (l : list A) : length l = 4 -> exists a b c d, l = [a; b; c; d].
Proof. destruct l as [|a [|b [|c [|d [|e l]]]]]; try discriminate. eauto 6. Qed.
Lemma list8 {A} (l : list A) : length l = 8 -> exists a b c d e f g h, l = [a; b; c; d; e; f; g; h].
Proof. destruct l as [|a [|b [|c [|d [|e [|f [|g [|h [|i l]]]]]]]]]; try discriminate. eauto 10. Qed.

Lemma hexdigit_hex u d : is_hex (hexdigit u (d mod 16)) = true.
Proof. apply hexdigit_ok. apply N.mod_lt. discriminate. Qed.

Lemma esc_x x a b r : (x = 120 \/ x = 88)%N -> is_hex a = true -> is_hex b = true -> esc_len (x :: a :: b :: r) = Some 3.
Proof. intros [-> | ->] Ha Hb; cbn; now rewrite Ha, Hb. Qed.
Lemma esc_u a b c d r : is_hex a = true -> is_hex b = true -> is_hex c = true -> is_hex d = true ->
  esc_len (117%N :: a :: b :: c :: d :: r) = Some 5.
Proof. intros Ha Hb Hc Hd; cbn; now rewrite Ha, Hb, Hc, Hd. Qed.
Lemma esc_U a b c d e g h i r : is_hex a = true -> is_hex b = true -> is_hex c = true -> is_hex d = true ->
  is_hex e = true -> is_hex g = true -> is_hex h = true -> is_hex i = true ->
  esc_len (85%N :: a :: b :: c :: d :: e :: g :: h :: i :: r) = Some 9.
Proof. intros Ha Hb Hc Hd He Hg Hh Hi; cbn; now rewrite Ha, Hb, Hc, Hd, He, Hg, Hh, Hi. Qed.
Lemma esc_o o1 o2 o3 r : (48 <= o1 <= 51)%N -> is_oct o2 = true -> is_oct o3 = true -> esc_len (o1 :: o2 :: o3 :: r) = Some 3.
Proof.
  intros H1 H2 H3. assert (E : (o1 = 48 \/ o1 = 49 \/ o1 = 50 \/ o1 = 51)%N) by lia.
  destruct E as [->|[->|[->| ->]]]; cbn; now rewrite H2, H3.
Qed.

Lemma render1_ok q c k a : (q = 34 \/ q = 39)%N -> render1 q c k = Some a ->
  forall f r, body_ok f q r = true -> body_ok (S f) q (a ++ r) = true.
Proof.
  intros Hq H f r Hr.
  assert (Q1 : (92 =? q)%N = false) by (destruct Hq as [-> | ->]; reflexivity).
  destruct k; cbn [render1] in H.
  - destruct ((c =? q) || (c =? 92) || (c =? 10) || (c =? 13))%N eqn:E; [discriminate|]. injection H as <-.
    apply Bool.orb_false_iff in E as [E E4]. apply Bool.orb_false_iff in E as [E E3]. apply Bool.orb_false_iff in E as [E1 E2].
    cbn [app body_ok]. now rewrite E1, E3, E4, E2.
  - destruct (simple_for c) as [e|] eqn:E; [|discriminate]. injection H as <-.
    cbn [app body_ok]. rewrite Q1. change ((92 =? 10) || (92 =? 13))%N with false. change (92 =? 92)%N with true. cbv iota. rewrite (simple_esc c e r E). exact Hr.
  - destruct (c <? 256)%N eqn:E; [|discriminate]. injection H as <-.
    cbn [hexd app body_ok]. rewrite Q1. change ((92 =? 10) || (92 =? 13))%N with false. change (92 =? 92)%N with true. cbv iota.
    rewrite esc_x; [exact Hr|now left|apply hexdigit_hex|apply hexdigit_hex].
  - destruct (c <? 256)%N eqn:E; [|discriminate]. injection H as <-.
    cbn [hexd app body_ok]. rewrite Q1. change ((92 =? 10) || (92 =? 13))%N with false. change (92 =? 92)%N with true. cbv iota.
    rewrite esc_x; [exact Hr|now right|apply hexdigit_hex|apply hexdigit_hex].
  - destruct (c <? 256)%N eqn:E; [|discriminate]. injection H as <-. apply N.ltb_lt in E.
    cbn [octd app body_ok]. rewrite Q1. change ((92 =? 10) || (92 =? 13))%N with false. change (92 =? 92)%N with true. cbv iota.
    rewrite esc_o; [exact Hr| | |]; unfold is_oct; lia.
  - destruct (c <? 65536)%N eqn:E; [|discriminate]. injection H as <-.
    cbn [hexd app body_ok]. rewrite Q1. change ((92 =? 10) || (92 =? 13))%N with false. change (92 =? 92)%N with true. cbv iota.
    rewrite esc_u; [exact Hr| | | |]; apply hexdigit_hex.
  - destruct (c <? 4294967296)%N eqn:E; [|discriminate]. injection H as <-.
    cbn [hexd app body_ok]. rewrite Q1. change ((92 =? 10) || (92 =? 13))%N with false. change (92 =? 92)%N with true. cbv iota.
    rewrite esc_U; [exact Hr| | | | | | | |]; apply hexdigit_hex.
Qed.

Lemma render_units q : (q = 34 \/ q = 39)%N -> forall s ks body, render q s ks = Some body ->
  body_ok (S (length s)) q body = true /\ length s <= length body.
Proof.
  intros Hq. induction s as [|c s IH]; intros ks body H; destruct ks as [|k ks]; cbn [render] in H; try discriminate.
  - injection H as <-. split; [reflexivity|cbn; lia].
  - destruct (render1 q c k) as [a|] eqn:E1; [|discriminate]. destruct (render q s ks) as [b|] eqn:E2; [|discriminate].
    injection H as <-. destruct (IH ks b E2) as [Hb Hl]. split.
    + cbn [length]. now apply (render1_ok q c k a Hq E1).
    + rewrite app_length. cbn [length]. assert (1 <= length a); [|lia].
      destruct k; cbn [render1] in E1;
        repeat match type of E1 with (if ?b then _ else _) = _ => destruct b; [|discriminate] | (if ?b then _ else _) = _ => destruct b; [discriminate|] end;
        try (destruct (simple_for c); [|discriminate]); injection E1 as <-; cbn [length]; lia.
Qed.

Lemma render_body_ok q s ks body : (q = 34 \/ q = 39)%N -> render q s ks = Some body ->
  body_ok (S (length body)) q body = true.
Proof.
  intros Hq H. destruct (render_units q Hq s ks body H) as [Hb Hl].
  apply (body_ok_mono _ q body _ Hb). lia.
Qed.

Lemma quoted_shape t : quoted_okb t = true ->
  exists q body, t = q :: body ++ [q] /\ (q = 34 \/ q = 39)%N /\ body_ok (S (length body)) q body = true.
Proof.
  unfold quoted_okb. destruct t as [|q r]; [discriminate|]. intros H. apply andb_prop in H as [Hq H].
  destruct (rev r) as [|q2 rb] eqn:E; [discriminate|]. apply andb_prop in H as [H2 Hb]. apply N.eqb_eq in H2. subst q2.
  exists q, (rev rb). split; [|split].
  - f_equal. rewrite <- (rev_involutive r), E. reflexivity.
  - apply Bool.orb_true_iff in Hq as [Hq|Hq]; apply N.eqb_eq in Hq; auto.
  - now rewrite rev_length.
Qed.

Lemma lex_simple t rest : simple_tok t = true -> lex_one (tok_text t ++ 32%N :: rest) = Some (Some t, 32%N :: rest).
Proof.
  destruct t; try discriminate; intros H; try reflexivity.
  - cbn [simple_tok tok_text] in *. apply andb_prop in H as [H1 H2]. apply lex_int; [exact H1|]. now destruct text0.
  - destruct (uint_text _ H) as (ds & -> & Hd & Hne). cbn [tok_text]. now apply lex_uint.
  - cbn [simple_tok tok_text] in *. destruct (quoted_shape _ H) as (q & body & -> & Hq & Hb). now apply lex_string.
  - cbn [simple_tok tok_text] in *. destruct text0 as [|p t']; [discriminate|]. apply andb_prop in H as [Hp H].
    destruct (quoted_shape _ H) as (q & body & -> & Hq & Hb).
    apply lex_bytes; auto. apply Bool.orb_true_iff in Hp as [Hp|Hp]; apply N.eqb_eq in Hp; auto.
  - now apply lex_ident.
Qed.

Lemma lex_space rest : (match rest with c :: _ => is_ws c = false | [] => True end) ->
  lex_one (32%N :: rest) = Some (None, rest).
Proof.
  intros H. unfold lex_one. cbn [bytes_tok_len string_tok_len string_len N.eqb orb option_map].
  change (is_ws 32) with true. cbv iota. cbn [span]. change (is_ws 32) with true. cbv iota.
  destruct rest as [|c r]; [reflexivity|]. cbn [span]. now rewrite H.
Qed.

Lemma tok_text_head t : simple_tok t = true -> exists c r, tok_text t = c :: r /\ is_ws c = false.
Proof.
  destruct t; try discriminate; intros H; try (eexists; eexists; split; reflexivity).
  - cbn [tok_text simple_tok] in *. apply andb_prop in H as [H1 H2]. destruct text0 as [|c r]; [discriminate|].
    exists c, r. split; [reflexivity|]. cbn [all_digits forallb] in H1. apply andb_prop in H1 as [H1 _].
    unfold is_digit, is_ws in *. lia.
  - destruct (uint_text _ H) as (ds & -> & Hd & Hne). cbn [tok_text]. destruct ds as [|c r]; [congruence|].
    exists c, (r ++ [ch "u"]). split; [reflexivity|]. cbn [all_digits forallb] in Hd. apply andb_prop in Hd as [Hd _].
    unfold is_digit, is_ws in *. lia.
  - cbn [simple_tok tok_text] in *. destruct (quoted_shape _ H) as (q & body & -> & Hq & Hb).
    exists q, (body ++ [q]). split; [reflexivity|]. destruct Hq as [-> | ->]; reflexivity.
  - cbn [simple_tok tok_text] in *. destruct text0 as [|p t']; [discriminate|]. apply andb_prop in H as [Hp H].
    exists p, t'. split; [reflexivity|]. apply Bool.orb_true_iff in Hp as [Hp|Hp]; apply N.eqb_eq in Hp; subst p; reflexivity.
  - cbn [tok_text]. unfold simple_tok, ident_okb in H. destruct text0 as [|c r]; [discriminate|].
    exists c, r. split; [reflexivity|]. repeat (apply andb_prop in H as [H ?]).
    unfold is_ident_start, is_letter, is_ws in *. lia.
Qed.

(** ** Triple-quoted literals:  qqq body qqq  *)
Lemma u_scan_long f q raw s n : scan_long (S f) q raw s n =
  match s with
  | a :: b :: c :: _ =>
      if ((a =? q) && (b =? q) && (c =? q))%N then Some (3 + n)%nat
      else if (a =? 92)%N && negb raw then
        match esc_len (tl s) with
        | Some k => scan_long f q raw (skipn k (tl s)) (S (k + n))
        | None => None
        end
      else if raw && ((a =? 0) || (a =? 1114111))%N then None
      else scan_long f q raw (tl s) (S n)
  | _ => None
  end.
Proof. reflexivity. Qed.

Lemma scan_long_ok f : forall q body n rest f', body_ok f q body = true -> f <= f' ->
  scan_long (S f') q false (body ++ q :: q :: q :: rest) n = Some (3 + (length body + n)).
Proof.
  induction f as [|f IH]; intros q body n rest f' Hb Hf; [discriminate|].
  destruct body as [|c r].
  - cbn [app length]. rewrite u_scan_long. now rewrite !N.eqb_refl.
  - cbn [body_ok] in Hb. destruct (c =? q)%N eqn:Ecq; [discriminate|].
    destruct ((c =? 10) || (c =? 13))%N; [discriminate|].
    destruct f' as [|f']; [lia|].
    (* expose three elements for the scanner's lookahead *)
    assert (E3 : exists b d t, r ++ q :: q :: q :: rest = b :: d :: t).
    { destruct r as [|b [|d t]]; cbn [app]; eauto. }
    destruct E3 as (b & d & t & E3).
    cbn [app]. rewrite u_scan_long, E3. rewrite Ecq. cbn [andb negb tl]. rewrite <- E3.
    destruct (c =? 92)%N; cbn [andb].
    + destruct (esc_len r) as [k|] eqn:E; [|discriminate].
      destruct (esc_len_app r (q :: q :: q :: rest) k E) as [E' Hk]. rewrite E'.
      rewrite skipn_app. replace (k - length r) with 0 by lia. cbn [skipn].
      rewrite (IH q (skipn k r) (S (k + n)) rest f' Hb ltac:(lia)). rewrite skipn_length. cbn [length]. f_equal. lia.
    + rewrite (IH q r (S n) rest f' Hb ltac:(lia)). cbn [length]. f_equal. lia.
Qed.

Lemma string_len_lit3 q body rest : (q = 34 \/ q = 39)%N -> body_ok (S (length body)) q body = true ->
  string_len false ((q :: q :: q :: body ++ [q; q; q]) ++ 32%N :: rest) = Some (length (q :: q :: q :: body ++ [q; q; q])).
Proof.
  intros Hq Hb.
  assert (Hqq : ((q =? 34) || (q =? 39))%N = true) by (destruct Hq as [-> | ->]; reflexivity).
  assert (Es : (q :: q :: q :: body ++ [q; q; q]) ++ 32%N :: rest = q :: q :: q :: body ++ q :: q :: q :: 32%N :: rest)
    by (cbn [app]; rewrite <- app_assoc; reflexivity).
  rewrite Es. unfold string_len. rewrite Hqq.
  cbn [scan_short]. rewrite !N.eqb_refl. cbn [andb option_map].
  rewrite (scan_long_ok (S (length body)) q body 0 (32%N :: rest) _ Hb)
    by (cbn [length]; rewrite app_length; cbn [length]; lia).
  cbn [option_map length]. rewrite app_length. cbn [length]. f_equal. lia.
Qed.

Lemma lex_quoted q t' rest : (q = 34 \/ q = 39)%N ->
  string_len false ((q :: t') ++ 32%N :: rest) = Some (length (q :: t')) ->
  lex_one ((q :: t') ++ 32%N :: rest) = Some (Some (TString (q :: t')), 32%N :: rest).
Proof.
  intros Hq SL.
  assert (Hnb : ((q =? ch "b") || (q =? ch "B"))%N = false) by (destruct Hq as [-> | ->]; reflexivity).
  assert (Hnr : ((q =? ch "r") || (q =? ch "R"))%N = false) by (destruct Hq as [-> | ->]; reflexivity).
  destruct (take_lit (q :: t') rest) as [T1 T2].
  cbn [app] in *. unfold lex_one, bytes_tok_len, string_tok_len. rewrite Hnb, Hnr, SL, T1, T2. reflexivity.
Qed.

Lemma lex_string3 q body rest : (q = 34 \/ q = 39)%N -> body_ok (S (length body)) q body = true ->
  lex_one ((q :: q :: q :: body ++ [q; q; q]) ++ 32%N :: rest) =
  Some (Some (TString (q :: q :: q :: body ++ [q; q; q])), 32%N :: rest).
Proof. intros Hq Hb. apply lex_quoted; [exact Hq|]. now apply string_len_lit3. Qed.

Lemma lex_bytes_quoted p q t' rest : (p = ch "b" \/ p = ch "B")%N -> (q = 34 \/ q = 39)%N ->
  string_len false ((q :: t') ++ 32%N :: rest) = Some (length (q :: t')) ->
  lex_one ((p :: q :: t') ++ 32%N :: rest) = Some (Some (TBytes (p :: q :: t')), 32%N :: rest).
Proof.
  intros Hp Hq SL.
  assert (Hpb : ((p =? ch "b") || (p =? ch "B"))%N = true) by (destruct Hp as [-> | ->]; reflexivity).
  assert (Hnr : ((q =? ch "r") || (q =? ch "R"))%N = false) by (destruct Hq as [-> | ->]; reflexivity).
  destruct (take_lit (p :: q :: t') rest) as [T1 T2].
  cbn [app] in *. unfold lex_one, bytes_tok_len, string_tok_len. rewrite Hpb, Hnr, SL. cbn [option_map length] in *. rewrite T1, T2. reflexivity.
Qed.

(** ** Raw literals:  r q body q  and  r qqq body qqq  *)
Definition raw_ok1 (q : N) (s : str) : bool :=
  forallb (fun c => negb ((c =? q) || (c =? 10) || (c =? 13))%N) s.
Definition raw_ok3 (q : N) (s : str) : bool :=
  forallb (fun c => negb ((c =? q) || (c =? 0) || (c =? 1114111))%N) s.

Lemma scan_short_raw q body rest : forall n f, raw_ok1 q body = true -> length body <= f ->
  scan_short (S f) q true (body ++ q :: rest) n = Some (S (length body + n)).
Proof.
  induction body as [|c r IH]; intros n f Hb Hf.
  - cbn [app scan_short length]. now rewrite N.eqb_refl.
  - cbn [raw_ok1 forallb] in Hb. apply andb_prop in Hb as [Hc Hr]. apply Bool.negb_true_iff in Hc.
    apply Bool.orb_false_iff in Hc as [Hc H13]. apply Bool.orb_false_iff in Hc as [Hcq H10].
    cbn [length] in Hf. destruct f as [|f]; [lia|].
    cbn [app]. change (scan_short (S (S f)) q true (c :: r ++ q :: rest) n) with
      (if (c =? q)%N then Some (S n)
       else if ((c =? 10) || (c =? 13))%N then None
       else if (c =? 92)%N && negb true then
              match esc_len (r ++ q :: rest) with
              | Some k => scan_short (S f) q true (skipn k (r ++ q :: rest)) (S (k + n))
              | None => None end
       else scan_short (S f) q true (r ++ q :: rest) (S n)).
    rewrite Hcq, H10, H13. cbn [orb negb]. rewrite Bool.andb_false_r.
    rewrite (IH (S n) f Hr ltac:(lia)). cbn [length]. f_equal. lia.
Qed.

Lemma scan_long_raw q body rest : forall n f, raw_ok3 q body = true -> length body <= f ->
  scan_long (S f) q true (body ++ q :: q :: q :: rest) n = Some (3 + (length body + n)).
Proof.
  induction body as [|c r IH]; intros n f Hb Hf.
  - cbn [app length]. rewrite u_scan_long. now rewrite !N.eqb_refl.
  - cbn [raw_ok3 forallb] in Hb. apply andb_prop in Hb as [Hc Hr]. apply Bool.negb_true_iff in Hc.
    apply Bool.orb_false_iff in Hc as [Hc Hmax]. apply Bool.orb_false_iff in Hc as [Hcq H0].
    cbn [length] in Hf. destruct f as [|f]; [lia|].
    assert (E3 : exists b d t, r ++ q :: q :: q :: rest = b :: d :: t).
    { destruct r as [|b [|d t]]; cbn [app]; eauto. }
    destruct E3 as (b & d & t & E3).
    cbn [app]. rewrite u_scan_long, E3. rewrite Hcq. cbn [andb negb tl]. rewrite Bool.andb_false_r, H0, Hmax. cbn [orb].
    rewrite <- E3. rewrite (IH (S n) f Hr ltac:(lia)). cbn [length]. f_equal. lia.
Qed.

Lemma string_len_raw1 q body rest : (q = 34 \/ q = 39)%N -> raw_ok1 q body = true ->
  string_len true ((q :: body ++ [q]) ++ 32%N :: rest) = Some (length (q :: body ++ [q])).
Proof.
  intros Hq Hb.
  assert (Hqq : ((q =? 34) || (q =? 39))%N = true) by (destruct Hq as [-> | ->]; reflexivity).
  assert (Es : (q :: body ++ [q]) ++ 32%N :: rest = q :: body ++ q :: 32%N :: rest)
    by (cbn [app]; rewrite <- app_assoc; reflexivity).
  rewrite Es. unfold string_len. rewrite Hqq.
  rewrite (scan_short_raw q body (32%N :: rest) 0 _ Hb) by (cbn [length]; rewrite app_length; cbn [length]; lia).
  cbn [option_map]. rewrite Nat.add_0_r.
  assert (L : match body ++ q :: 32%N :: rest with
              | q2 :: q3 :: r3 => if ((q2 =? q) && (q3 =? q))%N
                                  then option_map (fun k => 3 + k) (scan_long (S (length (q :: body ++ q :: 32%N :: rest))) q true r3 0)
                                  else None
              | _ => None end = None).
  { destruct body as [|c r].
    - cbn [app]. rewrite N.eqb_refl. replace (32 =? q)%N with false by (destruct Hq as [-> | ->]; reflexivity). reflexivity.
    - cbn [app]. cbn [raw_ok1 forallb] in Hb. apply andb_prop in Hb as [Hc _]. apply Bool.negb_true_iff in Hc.
      apply Bool.orb_false_iff in Hc as [Hc _]. apply Bool.orb_false_iff in Hc as [Hcq _]. rewrite Hcq.
      destruct (r ++ q :: 32%N :: rest); reflexivity. }
  rewrite L. cbn [length]. rewrite app_length. cbn [length]. f_equal. lia.
Qed.

Lemma string_len_raw3 q body rest : (q = 34 \/ q = 39)%N -> raw_ok3 q body = true ->
  string_len true ((q :: q :: q :: body ++ [q; q; q]) ++ 32%N :: rest) = Some (length (q :: q :: q :: body ++ [q; q; q])).
Proof.
  intros Hq Hb.
  assert (Hqq : ((q =? 34) || (q =? 39))%N = true) by (destruct Hq as [-> | ->]; reflexivity).
  assert (Es : (q :: q :: q :: body ++ [q; q; q]) ++ 32%N :: rest = q :: q :: q :: body ++ q :: q :: q :: 32%N :: rest)
    by (cbn [app]; rewrite <- app_assoc; reflexivity).
  rewrite Es. unfold string_len. rewrite Hqq.
  cbn [scan_short]. rewrite !N.eqb_refl. cbn [andb option_map].
  rewrite (scan_long_raw q body (32%N :: rest) 0 _ Hb) by (cbn [length]; rewrite app_length; cbn [length]; lia).
  cbn [option_map length]. rewrite app_length. cbn [length]. f_equal. lia.
Qed.

Lemma lex_raw p q t' rest : (p = ch "r" \/ p = ch "R")%N -> (q = 34 \/ q = 39)%N ->
  string_len true ((q :: t') ++ 32%N :: rest) = Some (length (q :: t')) ->
  lex_one ((p :: q :: t') ++ 32%N :: rest) = Some (Some (TString (p :: q :: t')), 32%N :: rest).
Proof.
  intros Hp Hq SL.
  assert (Hnb : ((p =? ch "b") || (p =? ch "B"))%N = false) by (destruct Hp as [-> | ->]; reflexivity).
  assert (Hpr : ((p =? ch "r") || (p =? ch "R"))%N = true) by (destruct Hp as [-> | ->]; reflexivity).
  destruct (take_lit (p :: q :: t') rest) as [T1 T2].
  cbn [app] in *. unfold lex_one, bytes_tok_len, string_tok_len. rewrite Hnb, Hpr, SL. cbn [option_map length] in *. rewrite T1, T2. reflexivity.
Qed.

(** what the text round trip needs of a token: its text starts with a non-blank character and,
    followed by a space, lexes back as exactly that token *)
Definition lexable (t : tk) : Prop :=
  (exists c r, tok_text t = c :: r /\ is_ws c = false) /\
  forall rest, lex_one (tok_text t ++ 32%N :: rest) = Some (Some t, 32%N :: rest).
Lemma simple_lexable t : simple_tok t = true -> lexable t.
Proof. intros H. split; [now apply tok_text_head|intros rest; now apply lex_simple]. Qed.

Lemma text_head ts : Forall lexable ts ->
  match text ts with c :: _ => is_ws c = false | [] => True end.
Proof.
  intros H. destruct H as [|t ts Ht _]; [exact I|]. cbn [text flat_map].
  destruct Ht as [(c & r & -> & Hc) _]. exact Hc.
Qed.

Lemma lex_text ts : Forall lexable ts -> forall f acc, 2 * length ts <= f ->
  lex_fuel f (text ts) acc = Some (rev' acc ++ ts).
Proof.
  induction 1 as [|t ts Ht Hts IH]; intros f acc Hf.
  - cbn [text flat_map]. destruct f; cbn [lex_fuel]; now rewrite app_nil_r.
  - cbn [length] in Hf. destruct f as [|[|f]]; try lia.
    change (text (t :: ts)) with ((tok_text t ++ [32%N]) ++ text ts). rewrite <- app_assoc. cbn [app].
    destruct Ht as [(c & r & Et & _) Hlex].
    assert (Hl : lex_fuel (S (S f)) (tok_text t ++ 32%N :: text ts) acc = lex_fuel (S f) (32%N :: text ts) (t :: acc)).
    { rewrite Et. cbn [app lex_fuel]. change (c :: r ++ 32%N :: text ts) with ((c :: r) ++ 32%N :: text ts).
      rewrite <- Et, (Hlex (text ts)). reflexivity. }
    rewrite Hl. cbn [lex_fuel]. rewrite (lex_space (text ts) (text_head ts Hts)).
    rewrite IH by lia. unfold rev'. rewrite <- !rev_alt. cbn [rev]. now rewrite <- app_assoc.
Qed.

Lemma text_len ts : Forall lexable ts -> 2 * length ts <= length (text ts).
Proof.
  induction 1 as [|t ts Ht _ IH]; [cbn; lia|]. cbn [text flat_map length]. rewrite !app_length.
  destruct Ht as [(c & r & -> & _) _]. cbn [length]. fold (text ts). lia.
Qed.

Theorem lex_roundtrip ts : Forall lexable ts -> lex (text ts) = Some ts.
Proof.
  intros H. unfold lex. rewrite (lex_text ts H); [reflexivity|]. pose proof (text_len ts H). lia.
Qed.

(** ** The tokens of a rendered tree are simple *)
Fixpoint ids_ok (t : st) : Prop :=
  let all := (fix go (l : list st) : Prop := match l with [] => True | r :: l' => ids_ok r /\ go l' end) in
  match t with
  | SId x => ident_okb x = true
  | SLit (LStr t _) => lexable (TString t)
  | SLit (LBytes t _) => lexable (TBytes t)
  | SLit (LDbl t) => lexable (TFloat t)
  | SNegDbl t => lexable (TFloat t)
  | SLit _ => True
  | SNegLit _ => True
  | SSel a f => ids_ok a /\ ident_okb f = true
  | SIdx a i => ids_ok a /\ ids_ok i
  | SMCall a f args => ident_okb f = true /\ ids_ok a /\ all args
  | SCall f args => ident_okb f = true /\ all args
  | SLst es => all es
  | SMap kvs => (fix go (l : list (st * st)) : Prop :=
                   match l with [] => True | (k, v) :: l' => ids_ok k /\ ids_ok v /\ go l' end) kvs
  | SMsg _ names fields =>
      Forall (fun n => ident_okb n = true) names /\
      (fix go (l : list (str * st)) : Prop :=
         match l with [] => True | (n, v) :: l' => ident_okb n = true /\ ids_ok v /\ go l' end) fields
  | SLstT es => all es
  | SMapT kvs => (fix go (l : list (st * st)) : Prop :=
                    match l with [] => True | (k, v) :: l' => ids_ok k /\ ids_ok v /\ go l' end) kvs
  | SMsgT _ names fields =>
      Forall (fun n => ident_okb n = true) names /\
      (fix go (l : list (str * st)) : Prop :=
         match l with [] => True | (n, v) :: l' => ident_okb n = true /\ ids_ok v /\ go l' end) fields
  | SDotId x => ident_okb x = true
  | SDotCall f args => ident_okb f = true /\ all args
  | SSelEsc a f => ids_ok a /\ lexable (TEscIdent f)
  | SNot _ a | SNeg _ a | SParen a => ids_ok a
  | SMul _ a b | SAdd _ a b | SRel _ a b => ids_ok a /\ ids_ok b
  | SAnd a rs | SOr a rs =>
      ids_ok a /\ (fix go (l : list st) : Prop := match l with [] => True | r :: l' => ids_ok r /\ go l' end) rs
  | SCond c a b => ids_ok c /\ ids_ok a /\ ids_ok b
  end.

Definition Simple (ts : list tk) : Prop := Forall lexable ts.

Lemma simple_app a b : Simple a -> Simple b -> Simple (a ++ b).
Proof. intros Ha Hb. apply Forall_app. split; assumption. Qed.
Lemma simple_tk_at l t : Simple (raw t) -> Simple (tk_at l t).
Proof.
  intros H. unfold tk_at. destruct (l <=? prec t); [exact H|].
  constructor; [now apply simple_lexable|]. apply simple_app; [exact H|]. constructor; [now apply simple_lexable|constructor].
Qed.
Lemma simple_repeat t n : simple_tok t = true -> Simple (repeat t n).
Proof. intros H. apply simple_lexable in H. induction n; cbn [repeat]; constructor; auto. Qed.

Lemma simple_one t : simple_tok t = true -> Simple [t].
Proof. intros H. constructor; [now apply simple_lexable|constructor]. Qed.
Lemma lexable_one t : lexable t -> Simple [t].
Proof. intros H. constructor; [exact H|constructor]. Qed.
Lemma simple_cons t ts : simple_tok t = true -> Simple ts -> Simple (t :: ts).
Proof. intros H Hs. constructor; [now apply simple_lexable|assumption]. Qed.

Lemma simple_commas l : Forall (fun a => Simple (raw a)) l -> Simple (commas l).
Proof.
  induction 1 as [|a l Ha Hl IH]; [constructor|]. cbn [commas]. apply simple_app; [exact Ha|].
  destruct l; [constructor|]. apply simple_cons; [reflexivity|exact IH].
Qed.
Lemma simple_entries l : Forall (fun kv => Simple (raw (fst kv)) /\ Simple (raw (snd kv))) l -> Simple (entries_tk l).
Proof.
  induction 1 as [|[k v] l [Hk Hv] Hl IH]; [constructor|]. cbn [entries_tk fst snd] in *.
  apply simple_app; [exact Hk|]. apply simple_app; [now apply simple_one|]. apply simple_app; [exact Hv|].
  destruct l; [constructor|]. apply simple_cons; [reflexivity|exact IH].
Qed.

Lemma simple_lit l : wf_lit l = true -> ids_ok (SLit l) -> lexable (lit_tk l).
Proof.
  destruct l as [z|z|[]| |t s|t b|t]; cbn [wf_lit lit_tk ids_ok]; intros W I; try exact I;
    apply simple_lexable; try reflexivity; cbn [simple_tok].
  - apply andb_prop in W as [W0 _]. destruct (nat_digits_ok z ltac:(lia)) as (_ & H2 & H3).
    rewrite H2. now destruct (nat_digits z).
  - assert (Hz : (0 <= z)%Z) by (unfold in_u64 in W; lia).
    destruct (nat_digits_ok z Hz) as (_ & H2 & H3).
    rewrite rev_app_distr. cbn [rev app]. rewrite rev_involutive, H2, N.eqb_refl. cbn [andb].
    destruct (nat_digits z) as [|c r] eqn:E; [congruence|]. cbn [rev]. now destruct (rev r).
Qed.

Lemma raw_simple t : wf_st t -> ids_ok t -> Simple (raw t).
Proof.
  induction t using st_ind'; cbn [wf_st ids_ok]; intros W I.
  - constructor; [now apply simple_lexable|constructor].
  - cbn [raw]. apply lexable_one. now apply simple_lit.
  - cbn [raw]. apply andb_prop in W as [W0 _]. apply simple_cons; [reflexivity|]. apply simple_one. cbn [simple_tok].
    destruct (nat_digits_ok (- z) ltac:(lia)) as (_ & H2 & H3). rewrite H2. now destruct (nat_digits (- z)).
  - cbn [raw]. apply simple_cons; [reflexivity|]. now apply lexable_one.
  - destruct I as [Ia If]. cbn [raw]. fold (tk_at 7 t). apply simple_app; [apply simple_tk_at; auto|].
    apply simple_cons; [reflexivity|]. now apply simple_one.
  - destruct W as [Wa Wi]. destruct I as [Ia Ii]. cbn [raw]. fold (tk_at 7 t1).
    apply simple_app; [apply simple_tk_at; auto|]. apply simple_app; [now apply simple_one|].
    apply simple_app; [auto|now apply simple_one].
  - destruct W as (_ & Wa & Wargs). destruct I as (If & Ia & Iargs). rewrite raw_mcall.
    apply simple_app; [apply simple_tk_at; auto|].
    apply simple_cons; [reflexivity|]. apply simple_cons; [exact If|]. apply simple_cons; [reflexivity|].
    apply simple_app; [|now apply simple_one]. apply simple_commas.
    induction H as [|r rs Hr _ IH]; [constructor|]. destruct Wargs as [Wr Wrs]. destruct Iargs as [Ir Irs].
    constructor; [now apply Hr|now apply IH].
  - destruct W as (_ & Wargs). destruct I as (If & Iargs). rewrite raw_call.
    apply simple_cons; [exact If|]. apply simple_cons; [reflexivity|].
    apply simple_app; [|now apply simple_one]. apply simple_commas.
    induction H as [|r rs Hr _ IH]; [constructor|]. destruct Wargs as [Wr Wrs]. destruct Iargs as [Ir Irs].
    constructor; [now apply Hr|now apply IH].
  - rewrite raw_list. apply simple_cons; [reflexivity|]. apply simple_app; [|now apply simple_one]. apply simple_commas.
    induction H as [|r rs Hr _ IH]; [constructor|]. destruct W as [Wr Wrs]. destruct I as [Ir Irs].
    constructor; [now apply Hr|now apply IH].
  - rewrite raw_map. apply simple_cons; [reflexivity|]. apply simple_app; [|now apply simple_one]. apply simple_entries.
    induction H as [|[k v] l [Hk Hv] _ IH]; [constructor|]. destruct W as (Wk & Wv & Wl). destruct I as (Ik & Iv & Il).
    constructor; [split; [now apply Hk|now apply Hv]|now apply IH].
  - (* message literal *)
    destruct W as [_ Wf]. destruct I as [In If]. rewrite raw_msg.
    apply simple_app; [destruct lead; [now apply simple_one|constructor]|].
    apply simple_app.
    { clear -In. induction In as [|a names Ha Hn IH]; [constructor|]. destruct names as [|b names'].
      - now apply simple_one.
      - change (ids_tk (a :: b :: names')) with (TIdent a :: TDot :: ids_tk (b :: names')).
        apply simple_cons; [exact Ha|]. apply simple_cons; [reflexivity|exact IH]. }
    apply simple_cons; [reflexivity|]. apply simple_app; [|now apply simple_one].
    induction H as [|[n v] l Hv _ IH]; [constructor|]. destruct Wf as [Wv Wl]. destruct If as (In0 & Iv & Il).
    cbn [fields_tk snd] in *. apply simple_cons; [exact In0|]. apply simple_cons; [reflexivity|].
    apply simple_app; [now apply Hv|]. destruct l; [constructor|]. apply simple_cons; [reflexivity|now apply IH].
  - cbn [raw]. fold (tk_at 7 t). apply simple_app; [now apply (simple_repeat TBang)|]. apply simple_tk_at. now apply IHt.
  - destruct W as [W _]. cbn [raw]. fold (tk_at 7 t). apply simple_app; [now apply (simple_repeat TMinus)|]. apply simple_tk_at. now apply IHt.
  - destruct W as (Wo & Wa & Wb). destruct I as [Ia Ib]. cbn [raw]. fold (tk_at 5 t1). fold (tk_at 6 t2).
    apply simple_app; [apply simple_tk_at; auto|]. apply simple_app; [|apply simple_tk_at; auto].
    apply simple_one. destruct op; cbn in Wo; try congruence; reflexivity.
  - destruct W as (Wo & Wa & Wb). destruct I as [Ia Ib]. cbn [raw]. fold (tk_at 4 t1). fold (tk_at 5 t2).
    apply simple_app; [apply simple_tk_at; auto|]. apply simple_app; [|apply simple_tk_at; auto].
    apply simple_one. destruct op; cbn in Wo; try congruence; reflexivity.
  - destruct W as (Wo & Wa & Wb). destruct I as [Ia Ib]. cbn [raw]. fold (tk_at 3 t1). fold (tk_at 4 t2).
    apply simple_app; [apply simple_tk_at; auto|]. apply simple_app; [|apply simple_tk_at; auto].
    apply simple_one. destruct op; cbn in Wo; try congruence; reflexivity.
  - destruct W as (Wa & _ & Wrs). destruct I as [Ia Irs]. rewrite raw_and.
    apply simple_app; [apply simple_tk_at; auto|].
    induction H as [|r rs Hr _ IH]; [constructor|]. destruct Wrs as [Wr Wrs]. destruct Irs as [Ir Irs].
    cbn [flat_map]. apply simple_app; [|now apply IH]. apply simple_cons; [reflexivity|]. apply simple_tk_at. auto.
  - destruct W as (Wa & _ & Wrs). destruct I as [Ia Irs]. rewrite raw_or.
    apply simple_app; [apply simple_tk_at; auto|].
    induction H as [|r rs Hr _ IH]; [constructor|]. destruct Wrs as [Wr Wrs]. destruct Irs as [Ir Irs].
    cbn [flat_map]. apply simple_app; [|now apply IH]. apply simple_cons; [reflexivity|]. apply simple_tk_at. auto.
  - destruct W as (Wc & Wa & Wb). destruct I as (Ic & Ia & Ib). cbn [raw]. fold (tk_at 1 t1). fold (tk_at 1 t2).
    apply simple_app; [apply simple_tk_at; auto|]. apply simple_app; [now apply simple_one|].
    apply simple_app; [apply simple_tk_at; auto|]. apply simple_app; [now apply simple_one|auto].
  - cbn [raw]. apply simple_cons; [reflexivity|]. apply simple_app; [auto|now apply simple_one].
  - (* list literal with a trailing comma *)
    rewrite raw_listt. apply simple_cons; [reflexivity|]. apply simple_app; [|apply simple_cons; [reflexivity|now apply simple_one]]. apply simple_commas.
    induction H as [|r rs Hr _ IH]; [constructor|]. destruct W as [Wr Wrs]. destruct I as [Ir Irs].
    constructor; [now apply Hr|now apply IH].
  - (* map literal with a trailing comma *)
    rewrite raw_mapt. apply simple_cons; [reflexivity|]. apply simple_app; [|apply simple_cons; [reflexivity|now apply simple_one]]. apply simple_entries.
    induction H as [|[k v] l [Hk Hv] _ IH]; [constructor|]. destruct W as (Wk & Wv & Wl). destruct I as (Ik & Iv & Il).
    constructor; [split; [now apply Hk|now apply Hv]|now apply IH].
  - (* message literal with a trailing comma *)
    destruct W as [_ Wf]. destruct I as [In If]. rewrite raw_msgt.
    apply simple_app; [destruct lead; [now apply simple_one|constructor]|].
    apply simple_app.
    { clear -In. induction In as [|a names Ha Hn IH]; [constructor|]. destruct names as [|b names'].
      - now apply simple_one.
      - change (ids_tk (a :: b :: names')) with (TIdent a :: TDot :: ids_tk (b :: names')).
        apply simple_cons; [exact Ha|]. apply simple_cons; [reflexivity|exact IH]. }
    apply simple_cons; [reflexivity|]. apply simple_app; [|apply simple_cons; [reflexivity|now apply simple_one]].
    induction H as [|[n v] l Hv _ IH]; [constructor|]. destruct Wf as [Wv Wl]. destruct If as (In0 & Iv & Il).
    cbn [fields_tk snd] in *. apply simple_cons; [exact In0|]. apply simple_cons; [reflexivity|].
    apply simple_app; [now apply Hv|]. destruct l; [constructor|]. apply simple_cons; [reflexivity|now apply IH].
  - (* .x *)
    cbn [raw]. apply simple_cons; [reflexivity|]. now apply simple_one.
  - (* .f(args) *)
    destruct W as (_ & Wargs). destruct I as (If & Iargs). rewrite raw_dotcall.
    apply simple_cons; [reflexivity|]. apply simple_cons; [exact If|]. apply simple_cons; [reflexivity|].
    apply simple_app; [|now apply simple_one]. apply simple_commas.
    induction H as [|r rs Hr _ IH]; [constructor|]. destruct Wargs as [Wr Wrs]. destruct Iargs as [Ir Irs].
    constructor; [now apply Hr|now apply IH].
  - (* a.`f` *)
    destruct I as [Ia If]. cbn [raw]. fold (tk_at 7 t). apply simple_app; [apply simple_tk_at; auto|].
    apply simple_cons; [reflexivity|]. now apply lexable_one.
Qed.

(** ** From source text to the tree *)
Theorem compile_roundtrip t : wf_st t -> ids_ok t -> compile (text (raw t)) = CExpr (ast t).
Proof.
  intros W I. unfold compile. rewrite (lex_roundtrip (raw t) (raw_simple t W I)).
  now apply parse_tokens_roundtrip.
Qed.

(** The rendering determines what it denotes: two well-formed surface trees with the same token
    rendering have the same AST (the minimal-parenthesis rendering is unambiguous). *)
Lemma raw_unambiguous t1 t2 : wf_st t1 -> wf_st t2 -> raw t1 = raw t2 -> ast t1 = ast t2.
Proof.
  intros W1 W2 E. pose proof (parse_tokens_roundtrip t1 W1) as H1. pose proof (parse_tokens_roundtrip t2 W2) as H2.
  rewrite E in H1. rewrite H1 in H2. now injection H2.
Qed.

(** ** C12: a spelled string / bytes literal compiles to the literal value *)
Lemma quoted_lit q body : (q = 34 \/ q = 39)%N -> body_ok (S (length body)) q body = true ->
  quoted_okb (q :: body ++ [q]) = true.
Proof.
  intros Hq Hb. unfold quoted_okb. rewrite rev_app_distr. cbn [rev app].
  rewrite N.eqb_refl, rev_length, rev_involutive, Hb.
  destruct Hq as [-> | ->]; reflexivity.
Qed.

Lemma quote_not_ws q : (q = 34 \/ q = 39)%N -> is_ws q = false.
Proof. intros [-> | ->]; reflexivity. Qed.

(** every quoting style gives a lexable token *)
Lemma lexable_str1 q body : (q = 34 \/ q = 39)%N -> body_ok (S (length body)) q body = true ->
  lexable (TString (q :: body ++ [q])).
Proof. intros Hq Hb. apply simple_lexable. cbn [simple_tok]. now apply quoted_lit. Qed.
Lemma lexable_str3 q body : (q = 34 \/ q = 39)%N -> body_ok (S (length body)) q body = true ->
  lexable (TString (q :: q :: q :: body ++ [q; q; q])).
Proof.
  intros Hq Hb. split; [eexists; eexists; split; [reflexivity|now apply quote_not_ws]|].
  intros rest. now apply lex_string3.
Qed.
Lemma lexable_bytes1 p q body : (p = ch "b" \/ p = ch "B")%N -> (q = 34 \/ q = 39)%N ->
  body_ok (S (length body)) q body = true -> lexable (TBytes (p :: q :: body ++ [q])).
Proof.
  intros Hp Hq Hb. split; [eexists; eexists; split; [reflexivity|destruct Hp as [-> | ->]; reflexivity]|].
  intros rest. apply (lex_bytes_quoted p q (body ++ [q]) rest Hp Hq).
  replace ((q :: body ++ [q]) ++ 32%N :: rest) with (q :: body ++ q :: 32%N :: rest) by (cbn [app]; now rewrite <- app_assoc).
  rewrite (string_len_lit q body rest Hq Hb). cbn [length]. rewrite app_length. cbn [length]. f_equal. lia.
Qed.
Lemma lexable_bytes3 p q body : (p = ch "b" \/ p = ch "B")%N -> (q = 34 \/ q = 39)%N ->
  body_ok (S (length body)) q body = true -> lexable (TBytes (p :: q :: q :: q :: body ++ [q; q; q])).
Proof.
  intros Hp Hq Hb. split; [eexists; eexists; split; [reflexivity|destruct Hp as [-> | ->]; reflexivity]|].
  intros rest. apply (lex_bytes_quoted p q (q :: q :: body ++ [q; q; q]) rest Hp Hq). now apply string_len_lit3.
Qed.
Lemma lexable_raw1 p q body : (p = ch "r" \/ p = ch "R")%N -> (q = 34 \/ q = 39)%N ->
  raw_ok1 q body = true -> lexable (TString (p :: q :: body ++ [q])).
Proof.
  intros Hp Hq Hb. split; [eexists; eexists; split; [reflexivity|destruct Hp as [-> | ->]; reflexivity]|].
  intros rest. apply (lex_raw p q (body ++ [q]) rest Hp Hq). now apply string_len_raw1.
Qed.
Lemma lexable_raw3 p q body : (p = ch "r" \/ p = ch "R")%N -> (q = 34 \/ q = 39)%N ->
  raw_ok3 q body = true -> lexable (TString (p :: q :: q :: q :: body ++ [q; q; q])).
Proof.
  intros Hp Hq Hb. split; [eexists; eexists; split; [reflexivity|destruct Hp as [-> | ->]; reflexivity]|].
  intros rest. apply (lex_raw p q (q :: q :: body ++ [q; q; q]) rest Hp Hq). now apply string_len_raw3.
Qed.

(** a back-quoted identifier:  ` body `  with a non-empty body of the characters the rule allows *)
Lemma span_esc body rest : forallb is_esc_ident_char body = true ->
  span is_esc_ident_char (body ++ 96%N :: rest) = (body, 96%N :: rest).
Proof.
  induction body as [|c r IH]; intros H; [reflexivity|].
  cbn [forallb] in H. apply andb_prop in H as [Hc Hr]. cbn [app span]. rewrite Hc, (IH Hr). reflexivity.
Qed.

Lemma lexable_escident body : body <> [] -> forallb is_esc_ident_char body = true ->
  lexable (TEscIdent (96%N :: body ++ [96%N])).
Proof.
  intros Hne Hb. split; [eexists; eexists; split; [reflexivity|reflexivity]|].
  intros rest. cbn [tok_text]. 
  replace ((96%N :: body ++ [96%N]) ++ 32%N :: rest) with (96%N :: body ++ 96%N :: 32%N :: rest)
    by (cbn [app]; now rewrite <- app_assoc).
  unfold lex_one. cbn [bytes_tok_len string_tok_len string_len]. 
  change ((96 =? ch "b") || (96 =? ch "B"))%N with false.
  change ((96 =? ch "r") || (96 =? ch "R"))%N with false.
  change ((96 =? 34) || (96 =? 39))%N with false. cbv beta iota.
  change (is_ws 96) with false. change (is_ident_start 96) with false. cbv beta iota.
  assert (NT : num_tok (96%N :: body ++ 96%N :: 32%N :: rest) = None).
  { unfold num_tok. reflexivity. }
  rewrite NT. rewrite N.eqb_refl. rewrite (span_esc body (32%N :: rest) Hb).
  destruct body as [|c r]; [congruence|]. rewrite N.eqb_refl. reflexivity.
Qed.

Lemma compile_str_token tok s : decode_string tok = Some s -> lexable (TString tok) ->
  compile (text [TString tok]) = CExpr (ELit (VStr s)).
Proof.
  intros D L. apply (compile_roundtrip (SLit (LStr tok s))).
  - cbn [wf_st wf_lit]. rewrite D. now apply str_eqb_eq.
  - exact L.
Qed.
Lemma compile_bytes_token tok b : decode_bytes tok = Some b -> lexable (TBytes tok) ->
  compile (text [TBytes tok]) = CExpr (ELit (VBytes b)).
Proof.
  intros D L. apply (compile_roundtrip (SLit (LBytes tok b))).
  - cbn [wf_st wf_lit]. rewrite D. now apply str_eqb_eq.
  - exact L.
Qed.

Theorem string_literal_compiles q s ks body :
  (q = 34 \/ q = 39)%N -> forallb is_scalar s = true -> render q s ks = Some body ->
  compile (text [TString (q :: body ++ [q])]) = CExpr (ELit (VStr s)) /\
  compile (text [TString (q :: q :: q :: body ++ [q; q; q])]) = CExpr (ELit (VStr s)).
Proof.
  intros Hq Hs Hr. pose proof (render_body_ok q s ks body Hq Hr) as Hb. split.
  - apply compile_str_token; [now apply (string_roundtrip_short q s ks)|now apply lexable_str1].
  - apply compile_str_token; [now apply (string_roundtrip_long q s ks)|now apply lexable_str3].
Qed.

Theorem bytes_literal_compiles p q s ks body :
  (p = ch "b" \/ p = ch "B")%N -> (q = 34 \/ q = 39)%N -> forallb is_scalar s = true -> render q s ks = Some body ->
  (exists us, map unit_cp us = s /\
     compile (text [TBytes (p :: q :: body ++ [q])]) = CExpr (ELit (VBytes (flat_map unit_bytes us)))) /\
  (exists us, map unit_cp us = s /\
     compile (text [TBytes (p :: q :: q :: q :: body ++ [q; q; q])]) = CExpr (ELit (VBytes (flat_map unit_bytes us)))).
Proof.
  intros Hp Hq Hs Hr. pose proof (render_body_ok q s ks body Hq Hr) as Hb.
  destruct (bytes_decode_short p q s ks body Hp Hq Hs Hr) as (us & D & Hu).
  destruct (bytes_decode_long p q s ks body Hp Hq Hs Hr) as (us' & D' & Hu').
  split; [exists us|exists us']; (split; [assumption|]).
  - apply compile_bytes_token; [exact D|now apply lexable_bytes1].
  - apply compile_bytes_token; [exact D'|now apply lexable_bytes3].
Qed.

(** raw literals: the body verbatim *)
Theorem raw_literal_compiles p q s :
  (p = ch "r" \/ p = ch "R")%N -> (q = 34 \/ q = 39)%N ->
  (raw_ok1 q s = true -> compile (text [TString (p :: q :: s ++ [q])]) = CExpr (ELit (VStr s))) /\
  (raw_ok3 q s = true -> compile (text [TString (p :: q :: q :: q :: s ++ [q; q; q])]) = CExpr (ELit (VStr s))).
Proof.
  intros Hp Hq. split; intros Hb.
  - apply compile_str_token; [|now apply lexable_raw1].
    apply raw_verbatim_short; auto. destruct s as [|c r]; [exact I|].
    cbn [raw_ok1 forallb] in Hb. apply andb_prop in Hb as [Hc _]. apply Bool.negb_true_iff in Hc.
    apply Bool.orb_false_iff in Hc as [Hc _]. apply Bool.orb_false_iff in Hc as [Hc _]. now apply N.eqb_neq.
  - apply compile_str_token; [|now apply lexable_raw3]. now apply raw_verbatim_long.
Qed.
