From Coq Require Import String Ascii ZArith Lia.
From Cel.Model Require Import Surface.
From Cel.Model Require Import Grammar.
Open Scope Z_scope.

(** ** What every derivable token list looks like: brackets of each kind balance, and the last
    token closes something (an operator, an opening bracket, a dot or a comma cannot end an
    expression). *)
Definition wparen (t : tk) : Z := match t with TLParen => 1 | TRParen => -1 | _ => 0 end.
Definition wbrack (t : tk) : Z := match t with TLBracket => 1 | TRBracket => -1 | _ => 0 end.
Definition wbrace (t : tk) : Z := match t with TLBrace => 1 | TRBrace => -1 | _ => 0 end.
Fixpoint sumw (w : tk -> Z) (ts : list tk) : Z :=
  match ts with [] => 0 | t :: r => w t + sumw w r end.
Lemma sumw_app w a b : sumw w (a ++ b) = sumw w a + sumw w b.
Proof. induction a as [|x a IH]; cbn [sumw app]; [reflexivity|]. rewrite IH. lia. Qed.

Definition closer (t : tk) : bool :=
  match t with
  | TRBracket | TRBrace | TRParen | TTrue | TFalse | TNull
  | TFloat _ | TInt _ | TUint _ | TString _ | TBytes _ | TIdent _ | TEscIdent _ => true
  | _ => false
  end.
Definition ends (ts : list tk) : Prop := exists pre t, ts = pre ++ [t] /\ closer t = true.
Lemma ends_app a b : ends b -> ends (a ++ b).
Proof. intros (pre & t & -> & C). exists (a ++ pre), t. split; [now rewrite app_assoc|exact C]. Qed.
Lemma ends_cons x b : ends b -> ends (x :: b).
Proof. apply (ends_app [x]). Qed.
Lemma ends_one t : closer t = true -> ends [t].
Proof. intros C. exists [], t. now split. Qed.

Definition balanced (ts : list tk) : Prop :=
  sumw wparen ts = 0 /\ sumw wbrack ts = 0 /\ sumw wbrace ts = 0.
Definition shape (ts : list tk) : Prop := balanced ts /\ ends ts.
(** separators inside a bracket pair: balanced only *)

Scheme Gexpr_m := Minimality for Gexpr Sort Prop
  with Gor_m := Minimality for Gor Sort Prop
  with Gand_m := Minimality for Gand Sort Prop
  with Grel_m := Minimality for Grel Sort Prop
  with Gcalc_m := Minimality for Gcalc Sort Prop
  with Gunary_m := Minimality for Gunary Sort Prop
  with Gmember_m := Minimality for Gmember Sort Prop
  with Gprimary_m := Minimality for Gprimary Sort Prop
  with GexprList_m := Minimality for GexprList Sort Prop
  with GlistInit_m := Minimality for GlistInit Sort Prop
  with GmapInit_m := Minimality for GmapInit Sort Prop
  with GfieldInit_m := Minimality for GfieldInit Sort Prop.
Combined Scheme G_mutind from Gexpr_m, Gor_m, Gand_m, Grel_m, Gcalc_m, Gunary_m, Gmember_m,
  Gprimary_m, GexprList_m, GlistInit_m, GmapInit_m, GfieldInit_m.

Lemma sumw_repeat w t n : w t = 0 -> sumw w (repeat t n) = 0.
Proof. intros H. induction n as [|n IH]; cbn [repeat sumw]; lia. Qed.

Lemma Gids_shape ids : Gids ids -> shape ids.
Proof.
  induction 1 as [id|id l G [(B1 & B2 & B3) E]].
  - split; [repeat split; reflexivity|now apply ends_one].
  - split; [repeat split; cbn [sumw wparen wbrack wbrace]; lia|now do 2 apply ends_cons].
Qed.
Lemma Gliteral_shape l : Gliteral l -> shape l.
Proof.
  intros G. destruct G; (split; [repeat split; reflexivity|]);
  try (apply ends_one; reflexivity); apply ends_cons, ends_one; reflexivity.
Qed.

Ltac opts :=
  repeat match goal with
  | H : optq _ |- _ => destruct H as [-> | ->]
  | H : optdot _ |- _ => destruct H as [-> | ->]
  | H : optcomma _ |- _ => destruct H as [-> | ->]
  | H : Gesc _ |- _ => destruct H
  | H : shape _ |- _ => destruct H as [(? & ? & ?) ?]
  | H : Gids _ |- _ => apply Gids_shape in H
  | H : Gliteral _ |- _ => apply Gliteral_shape in H
  end.
Ltac bal := repeat split; rewrite ?sumw_app; cbn [sumw wparen wbrack wbrace app];
            rewrite ?sumw_app; cbn [sumw wparen wbrack wbrace app]; rewrite ?sumw_repeat by reflexivity; try lia.
Ltac en := repeat first [ assumption | apply ends_one; reflexivity | apply ends_cons | apply ends_app ].

Lemma relop_w op n : relop_name op = Some n -> wparen op = 0 /\ wbrack op = 0 /\ wbrace op = 0.
Proof. destruct op; try discriminate; now repeat split. Qed.
Lemma mulop_w op n : mulop_name op = Some n -> wparen op = 0 /\ wbrack op = 0 /\ wbrace op = 0.
Proof. destruct op; try discriminate; now repeat split. Qed.
Lemma addop_w op n : addop_name op = Some n -> wparen op = 0 /\ wbrack op = 0 /\ wbrace op = 0.
Proof. destruct op; try discriminate; now repeat split. Qed.

Lemma G_shape :
  (forall ts, Gexpr ts -> shape ts) /\ (forall ts, Gor ts -> shape ts) /\ (forall ts, Gand ts -> shape ts) /\
  (forall ts, Grel ts -> shape ts) /\ (forall ts, Gcalc ts -> shape ts) /\ (forall ts, Gunary ts -> shape ts) /\
  (forall ts, Gmember ts -> shape ts) /\ (forall ts, Gprimary ts -> shape ts) /\
  (forall ts, GexprList ts -> shape ts) /\ (forall ts, GlistInit ts -> shape ts) /\
  (forall ts, GmapInit ts -> shape ts) /\ (forall ts, GfieldInit ts -> shape ts).
Proof.
  apply G_mutind; intros; opts; try assumption;
  try match goal with H : relop_name _ = Some _ |- _ => apply relop_w in H as (? & ? & ?) end;
  try match goal with H : mulop_name _ = Some _ |- _ => apply mulop_w in H as (? & ? & ?) end;
  try match goal with H : addop_name _ = Some _ |- _ => apply addop_w in H as (? & ? & ?) end;
  (split; [bal|en]).
Qed.

Theorem derivable_shape ts : Gstart ts -> balanced ts /\ ends ts /\ ts <> [].
Proof.
  intros G. apply (proj1 G_shape) in G as [B E]. split; [exact B|]. split; [exact E|].
  destruct E as (pre & t & -> & _). now destruct pre.
Qed.

(** ** Proper nesting: the brackets of a derivable token list form a well-nested word over the
    three bracket kinds (every closer matches the most recent open bracket, none is left open). *)
Fixpoint nested (ts : list tk) (stack : list tk) : bool :=
  match ts with
  | [] => match stack with [] => true | _ => false end
  | t :: r =>
      match t with
      | TLParen | TLBracket | TLBrace => nested r (t :: stack)
      | TRParen => match stack with TLParen :: s => nested r s | _ => false end
      | TRBracket => match stack with TLBracket :: s => nested r s | _ => false end
      | TRBrace => match stack with TLBrace :: s => nested r s | _ => false end
      | _ => nested r stack
      end
  end.

(** a piece is neutral when reading it leaves any stack as it was *)
Definition neutral (ts : list tk) : Prop := forall rest stack, nested (ts ++ rest) stack = nested rest stack.

Lemma neutral_nil : neutral []. Proof. intros r s. reflexivity. Qed.
Lemma neutral_app a b : neutral a -> neutral b -> neutral (a ++ b).
Proof. intros Ha Hb r s. rewrite <- app_assoc, Ha, Hb. reflexivity. Qed.
Definition plain (t : tk) : bool :=
  match t with TLParen | TLBracket | TLBrace | TRParen | TRBracket | TRBrace => false | _ => true end.
Lemma neutral_plain t : plain t = true -> neutral [t].
Proof. intros H r s. destruct t; try discriminate; reflexivity. Qed.
Lemma neutral_cons t a : plain t = true -> neutral a -> neutral (t :: a).
Proof. intros H Ha. apply (neutral_app [t] a); [now apply neutral_plain|exact Ha]. Qed.
Lemma neutral_paren a : neutral a -> neutral (TLParen :: a ++ [TRParen]).
Proof. intros Ha r s. cbn [app nested]. rewrite <- app_assoc, Ha. reflexivity. Qed.
Lemma neutral_brack a : neutral a -> neutral (TLBracket :: a ++ [TRBracket]).
Proof. intros Ha r s. cbn [app nested]. rewrite <- app_assoc, Ha. reflexivity. Qed.
Lemma neutral_brace a : neutral a -> neutral (TLBrace :: a ++ [TRBrace]).
Proof. intros Ha r s. cbn [app nested]. rewrite <- app_assoc, Ha. reflexivity. Qed.
Lemma neutral_repeat t n : plain t = true -> neutral (repeat t n).
Proof. intros H. induction n; cbn [repeat]; [apply neutral_nil|now apply neutral_cons]. Qed.

Lemma Gids_neutral ids : Gids ids -> neutral ids.
Proof. induction 1; [now apply neutral_plain|]. apply neutral_cons; [reflexivity|]. now apply neutral_cons. Qed.
Lemma Gliteral_neutral l : Gliteral l -> neutral l.
Proof. destruct 1; repeat (apply neutral_cons; [reflexivity|]); apply neutral_nil. Qed.

Ltac nopts :=
  repeat match goal with
  | H : optq _ |- _ => destruct H as [-> | ->]
  | H : optdot _ |- _ => destruct H as [-> | ->]
  | H : optcomma _ |- _ => destruct H as [-> | ->]
  | H : Gesc _ |- _ => destruct H
  | H : Gids _ |- _ => apply Gids_neutral in H
  | H : Gliteral _ |- _ => apply Gliteral_neutral in H
  end.
Lemma op_plain_rel op n : relop_name op = Some n -> plain op = true.
Proof. destruct op; try discriminate; reflexivity. Qed.
Lemma op_plain_mul op n : mulop_name op = Some n -> plain op = true.
Proof. destruct op; try discriminate; reflexivity. Qed.
Lemma op_plain_add op n : addop_name op = Some n -> plain op = true.
Proof. destruct op; try discriminate; reflexivity. Qed.

Lemma neutral_brack_q a : neutral a -> neutral (TLBracket :: TQuestion :: a ++ [TRBracket]).
Proof. intros Ha. apply (neutral_brack (TQuestion :: a)). now apply neutral_cons. Qed.
Lemma neutral_brack_c a : neutral a -> neutral (TLBracket :: a ++ [TComma; TRBracket]).
Proof.
  intros Ha. replace (a ++ [TComma; TRBracket]) with ((a ++ [TComma]) ++ [TRBracket]) by (now rewrite <- app_assoc).
  apply neutral_brack. apply neutral_app; [exact Ha|now apply neutral_plain].
Qed.
Lemma neutral_brace_c a : neutral a -> neutral (TLBrace :: a ++ [TComma; TRBrace]).
Proof.
  intros Ha. replace (a ++ [TComma; TRBrace]) with ((a ++ [TComma]) ++ [TRBrace]) by (now rewrite <- app_assoc).
  apply neutral_brace. apply neutral_app; [exact Ha|now apply neutral_plain].
Qed.

(** bring a goal [neutral (...)] into pieces *)
Ltac neu :=
  repeat first
    [ assumption
    | apply neutral_nil
    | apply neutral_repeat; reflexivity
    | match goal with |- neutral (TLBracket :: TQuestion :: ?a ++ [TRBracket]) => apply neutral_brack_q end
    | match goal with |- neutral (TLBracket :: ?a ++ [TComma; TRBracket]) => apply neutral_brack_c end
    | match goal with |- neutral (TLBrace :: ?a ++ [TComma; TRBrace]) => apply neutral_brace_c end
    | match goal with |- neutral (TLParen :: ?a ++ [TRParen]) => apply neutral_paren end
    | match goal with |- neutral (TLBracket :: ?a ++ [TRBracket]) => apply neutral_brack end
    | match goal with |- neutral (TLBrace :: ?a ++ [TRBrace]) => apply neutral_brace end
    | apply neutral_app
    | apply neutral_cons; [first [reflexivity | eassumption]|] ].

Lemma G_neutral :
  (forall ts, Gexpr ts -> neutral ts) /\ (forall ts, Gor ts -> neutral ts) /\ (forall ts, Gand ts -> neutral ts) /\
  (forall ts, Grel ts -> neutral ts) /\ (forall ts, Gcalc ts -> neutral ts) /\ (forall ts, Gunary ts -> neutral ts) /\
  (forall ts, Gmember ts -> neutral ts) /\ (forall ts, Gprimary ts -> neutral ts) /\
  (forall ts, GexprList ts -> neutral ts) /\ (forall ts, GlistInit ts -> neutral ts) /\
  (forall ts, GmapInit ts -> neutral ts) /\ (forall ts, GfieldInit ts -> neutral ts).
Proof.
  apply G_mutind; intros; nopts;
  try match goal with H : relop_name _ = Some _ |- _ => apply op_plain_rel in H end;
  try match goal with H : mulop_name _ = Some _ |- _ => apply op_plain_mul in H end;
  try match goal with H : addop_name _ = Some _ |- _ => apply op_plain_add in H end;
  cbn [app]; try assumption.
  all: try (neu; fail).
Qed.

Theorem derivable_nested ts : Gstart ts -> nested ts [] = true.
Proof. intros G. apply (proj1 G_neutral) in G. specialize (G [] []). now rewrite app_nil_r in G. Qed.
