(** C07: a bound on host-function invocations for programs WITH macros: the size of the program
    times the product of the sizes of the collections its nested comprehensions range over. *)
From Coq Require Import String Lia Arith.
From Cel.Model Require Import Eval.
From Cel.Proofs Require Import EvalBase OrderProofs.
Open Scope nat_scope.

(** cost with every comprehension range holding at most [B] items: condition and step are
    evaluated at most once per item, range, initial value and result once *)
Fixpoint cost (B : nat) (e : expr) : nat :=
  match e with
  | EUnspec | ELit _ | EIdent _ => 0
  | ECall _ t args =>
      1 + match t with Some t' => cost B t' | None => 0 end +
      (fix go (l : list expr) : nat := match l with [] => 0 | a :: l' => cost B a + go l' end) args
  | ESelect o _ _ => cost B o
  | EList es => (fix go (l : list expr) : nat := match l with [] => 0 | a :: l' => cost B a + go l' end) es
  | EMap es => (fix go (l : list (expr * expr)) : nat :=
                  match l with [] => 0 | (k, v) :: l' => cost B k + cost B v + go l' end) es
  | EStruct _ _ => 0
  | EComp r _ _ i c s res => cost B i + cost B r + B * (cost B c + cost B s) + cost B res
  end.

Section Bound.
  (** [P]: an invariant of the contexts the program runs in, kept by opening a scope and by
      binding the names [N] (the iteration and accumulator variables of the program) *)
  Variable P : ctx -> Prop.
  Variable N : str -> Prop.
  Variable B : nat.
  Hypothesis P_push : forall c, P c -> P (push c).
  Hypothesis P_define : forall c x v, P c -> N x -> P (define c x v).
  Hypothesis P_once : forall c, P c -> once_ctx c.

  (** every comprehension binds names of [N] and ranges, in every context of [P], over at most
      [B] items *)
  Fixpoint ranges_le (e : expr) : Prop :=
    match e with
    | EUnspec | ELit _ | EIdent _ | EStruct _ _ => True
    | ECall _ t args =>
        match t with Some t' => ranges_le t' | None => True end /\
        (fix go (l : list expr) : Prop := match l with [] => True | a :: l' => ranges_le a /\ go l' end) args
    | ESelect o _ _ => ranges_le o
    | EList es => (fix go (l : list expr) : Prop := match l with [] => True | a :: l' => ranges_le a /\ go l' end) es
    | EMap es => (fix go (l : list (expr * expr)) : Prop :=
                    match l with [] => True | (k, v) :: l' => ranges_le k /\ ranges_le v /\ go l' end) es
    | EComp r iv av i c s res =>
        N iv /\ N av /\
        (forall d, P d -> match fst (eval d r) with
                          | Ok v => match range_items v with Some its => length its <= B | None => True end
                          | _ => True
                          end) /\
        ranges_le r /\ ranges_le i /\ ranges_le c /\ ranges_le s /\ ranges_le res
    end.

  Lemma loop_loglen iv av cond step res Mc Ms Mr : N iv -> N av ->
    (forall d, P d -> loglen (eval d cond) <= Mc) -> (forall d, P d -> loglen (eval d step) <= Ms) ->
    (forall d, P d -> loglen (eval d res) <= Mr) ->
    forall its c' log, P c' ->
    loglen (comp_loop eval iv av cond step res its c' log) <= length log + length its * (Mc + Ms) + Mr.
  Proof.
    intros Hiv Hav Hc Hs Hr. induction its as [|it rest IH]; intros c' log Pc; cbn [comp_loop length].
    - specialize (Hr c' Pc). unfold loglen in *. destruct (eval c' res) as [o l]. cbn [snd] in *. rewrite app_length. lia.
    - pose proof (Hc c' Pc) as H1. unfold loglen in H1 |- *. destruct (eval c' cond) as [[vc|x|s] lc]; cbn [snd] in *.
      + destruct (to_bool vc).
        * assert (P2 : P (define c' iv it)) by now apply P_define.
          pose proof (Hs _ P2) as H2. unfold loglen in H2. destruct (eval (define c' iv it) step) as [[va|x|s] ls]; cbn [snd] in *.
          -- assert (P3 : P (define (define c' iv it) av va)) by now apply P_define.
             specialize (IH (define (define c' iv it) av va) (log ++ lc ++ ls) P3). unfold loglen in IH.
             rewrite !app_length in IH. lia.
          -- rewrite !app_length. lia.
          -- rewrite !app_length. lia.
        * specialize (Hr c' Pc). unfold loglen in Hr. destruct (eval c' res) as [o l]. cbn [snd] in *. rewrite !app_length. lia.
      + rewrite app_length. lia.
      + rewrite app_length. lia.
  Qed.

  Theorem cost_bound e : ranges_le e -> forall c, P c -> loglen (eval c e) <= cost B e.
  Proof.
    induction e using expr_ind'; intros Hn c Pc.
    - unfold loglen; cbn; lia.
    - unfold loglen; cbn; lia.
    - unfold loglen; cbn; lia.
    - rewrite eval_call. cbn [ranges_le] in Hn. destruct Hn as [Ht Ha].
      pose proof (call_dispatch_loglen c f (option_map (eval c) target) (map (eval c) args) args (P_once c Pc)) as HD.
      assert (HT : match option_map (eval c) target with Some r => loglen r | None => 0 end <=
                   match target with Some t' => cost B t' | None => 0 end).
      { destruct target as [t|]; cbn [option_map]; [now apply (H t)|lia]. }
      assert (HA : length (logs_of (map (eval c) args)) <=
                   (fix go (l : list expr) : nat := match l with [] => 0 | a :: l' => cost B a + go l' end) args).
      { clear HD HT Ht H. induction args as [|a args IHa]; [cbn; lia|].
        cbn [map]. rewrite logs_of_cons. destruct Ha as [Ha1 Ha2]. inversion H0 as [|? ? P1 P2]; subst.
        specialize (P1 Ha1 c Pc). specialize (IHa P2 Ha2). lia. }
      cbn [cost]. lia.
    - rewrite eval_select. cbn [cost].
      pose proof (rbind_loglen (eval c e)
                    (fun v => if t then ret (Ok (VBool (has_field v f))) else ret (member c v f))
                    (cost B e) 0 (IHe Hn c Pc)
                    ltac:(intros v; destruct t; unfold loglen; cbn; lia)). lia.
    - rewrite eval_list. pose proof (list_go_loglen (eval c) es [] []) as HL. cbn [length] in HL.
      cbn [cost ranges_le] in *.
      assert (list_sum (map (fun a => loglen (eval c a)) es) <=
              (fix go (l : list expr) : nat := match l with [] => 0 | a :: l' => cost B a + go l' end) es).
      { clear HL. induction es as [|a es IHes]; [cbn; lia|]. destruct Hn as [Hn1 Hn2].
        inversion H as [|? ? P1 P2]; subst. cbn [map]. rewrite list_sum_cons. specialize (P1 Hn1 c Pc). specialize (IHes P2 Hn2). lia. }
      lia.
    - rewrite eval_map. pose proof (map_go_loglen (eval c) es [] []) as HL. cbn [length] in HL.
      cbn [cost ranges_le] in *.
      assert (list_sum (map (fun kv => loglen (eval c (fst kv)) + loglen (eval c (snd kv))) es) <=
              (fix go (l : list (expr * expr)) : nat :=
                 match l with [] => 0 | (k, v) :: l' => cost B k + cost B v + go l' end) es).
      { clear HL. induction es as [|[k v] es IHes]; [cbn; lia|]. destruct Hn as (Hn1 & Hn2 & Hn3).
        inversion H as [|? ? [P1 P1'] P2]; subst. cbn [map fst snd] in *. rewrite list_sum_cons.
        specialize (P1 Hn1 c Pc). specialize (P1' Hn2 c Pc). specialize (IHes P2 Hn3). lia. }
      lia.
    - unfold loglen; cbn; lia.
    - (* comprehension *)
      cbn [ranges_le] in Hn. destruct Hn as (Niv & Nav & HB & Hr & Hi & Hc & Hs & Hres).
      rewrite eval_comp. cbn [cost].
      pose proof (IHe2 Hi c Pc) as Li. pose proof (IHe1 Hr c Pc) as Lr. specialize (HB c Pc).
      unfold loglen in *. destruct (eval c e2) as [[vinit|x|s] li]; cbn [rbind snd] in *; try lia.
      destruct (eval c e1) as [[vr|x|s] lr]; cbn [rbind snd fst] in *; try (rewrite app_length; lia).
      destruct (range_items vr) as [its|]; [|cbn [ret snd]; rewrite !app_length; cbn [length]; lia].
      assert (Pc' : P (define (push c) av vinit)) by (apply P_define; [apply P_push; exact Pc|exact Nav]).
      pose proof (loop_loglen iv av e3 e4 e5 (cost B e3) (cost B e4) (cost B e5) Niv Nav
                    (fun d Pd => IHe3 Hc d Pd) (fun d Pd => IHe4 Hs d Pd) (fun d Pd => IHe5 Hres d Pd) its _ [] Pc') as HL.
      unfold loglen in HL. destruct (comp_loop eval iv av e3 e4 e5 its (define (push c) av vinit) []) as [o l].
      cbn [snd length] in *. rewrite !app_length.
      assert (length its * (cost B e3 + cost B e4) <= B * (cost B e3 + cost B e4)) by (apply Nat.mul_le_mono_r; exact HB).
      lia.
  Qed.
End Bound.


(** ** Ranges written as list literals: the bound needs no assumption about the context *)
Fixpoint lit_ranges (B : nat) (e : expr) : Prop :=
  match e with
  | EUnspec | ELit _ | EIdent _ | EStruct _ _ => True
  | ECall _ t args =>
      match t with Some t' => lit_ranges B t' | None => True end /\
      (fix go (l : list expr) : Prop := match l with [] => True | a :: l' => lit_ranges B a /\ go l' end) args
  | ESelect o _ _ => lit_ranges B o
  | EList es => (fix go (l : list expr) : Prop := match l with [] => True | a :: l' => lit_ranges B a /\ go l' end) es
  | EMap es => (fix go (l : list (expr * expr)) : Prop :=
                  match l with [] => True | (k, v) :: l' => lit_ranges B k /\ lit_ranges B v /\ go l' end) es
  | EComp r iv av i c s res =>
      (exists es, r = EList es /\ length es <= B) /\
      lit_ranges B r /\ lit_ranges B i /\ lit_ranges B c /\ lit_ranges B s /\ lit_ranges B res
  end.

Lemma list_go_items ev l : forall acc log v lg,
  list_go ev l acc log = (Ok v, lg) -> exists its, v = VList its /\ length its = length acc + length l.
Proof.
  induction l as [|a l IH]; intros acc log v lg; cbn [list_go].
  - intros [= <- <-]. eexists. split; [reflexivity|]. unfold rev'. rewrite <- rev_alt, rev_length. cbn. lia.
  - destruct (ev a) as [[x|x|s] la]; try discriminate. intros H. apply IH in H as (its & -> & L).
    exists its. split; [reflexivity|]. cbn [length] in *. lia.
Qed.

Lemma lit_ranges_le B e : lit_ranges B e -> ranges_le once_ctx (fun _ => True) B e.
Proof.
  induction e using expr_ind'; cbn [lit_ranges ranges_le]; auto.
  - intros [Ht Ha]. split; [destruct target; auto|].
    induction args as [|a args IHa]; [exact I|]. destruct Ha as [Ha1 Ha2]. inversion H0 as [|? ? P1 P2]; subst.
    split; [now apply P1|now apply IHa].
  - intros Ha. induction es as [|a es IHa]; [exact I|]. destruct Ha as [Ha1 Ha2]. inversion H as [|? ? P1 P2]; subst.
    split; [now apply P1|now apply IHa].
  - intros Ha. induction es as [|[k v] es IHa]; [exact I|]. destruct Ha as (Ha1 & Ha2 & Ha3).
    inversion H as [|? ? [P1 P1'] P2]; subst. cbn [fst snd] in *.
    split; [now apply P1|split; [now apply P1'|now apply IHa]].
  - intros ((es & -> & Hl) & H1 & H2 & H3 & H4 & H5). repeat split; auto.
    intros d _. rewrite eval_list. destruct (list_go (eval d) es [] []) as [[v|x|s] lg] eqn:E; cbn [fst]; auto.
    apply list_go_items in E as (its & -> & L). cbn [range_items length] in *. lia.
Qed.

Theorem cost_bound_literal B e c : once_ctx c -> lit_ranges B e -> loglen (eval c e) <= cost B e.
Proof.
  intros Hc Hl.
  exact (cost_bound once_ctx (fun _ => True) B (fun c0 H => H) (fun c0 x v H _ => H) (fun c0 H => H) e
           (lit_ranges_le B e Hl) c Hc).
Qed.

