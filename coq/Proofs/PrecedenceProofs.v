(** C04: && / || chains keep their operands in source order (balanced trees), prefix-operator
    runs cancel in pairs, macros expand around their receiver and arguments. *)
From Coq Require Import String Ascii.
From Cel.Model Require Import Parser.
From Coq Require Import Lia ZArith ZifyBool ZifyNat ZifyN.
Ltac Zify.zify_post_hook ::= Z.div_mod_to_equations.

Inductive itree := ILeaf (i : nat) | INode (l r : itree).

Fixpoint interp (fn : str) (terms : list expr) (t : itree) : expr :=
  match t with
  | ILeaf i => nth i terms EUnspec
  | INode l r => ECall fn None [interp fn terms l; interp fn terms r]
  end.

Fixpoint inorder (t : itree) : list nat :=
  match t with
  | ILeaf i => [i]
  | INode l r => inorder l ++ inorder r
  end.

Lemma balanced_shape fuel : forall fn terms lo hi,
  (hi - lo < fuel)%nat -> (lo <= hi)%nat ->
  exists t, balanced fuel fn terms lo hi = interp fn terms t /\
            inorder t = seq lo (hi - lo + 2).
Proof.
  induction fuel as [|f IH]; intros fn terms lo hi Hf Hle; [lia|].
  cbn [balanced]. set (mid := Nat.div (lo + hi + 1) 2).
  assert (Hmid : (lo <= mid <= hi)%nat) by (subst mid; lia).
  assert (Hml : (mid = lo <-> lo = hi)%nat) by (subst mid; lia).
  destruct (Nat.eqb_spec mid lo) as [E1|E1]; destruct (Nat.eqb_spec mid hi) as [E2|E2].
  - exists (INode (ILeaf mid) (ILeaf (mid + 1))). split; [reflexivity|].
    cbn [inorder app]. replace (hi - lo + 2)%nat with 2%nat by lia.
    rewrite E1. replace (lo + 1)%nat with (S lo) by lia. reflexivity.
  - exfalso. lia.
  - destruct (IH fn terms lo (mid - 1)%nat ltac:(lia) ltac:(lia)) as (tl & Hl & Il).
    exists (INode tl (ILeaf (mid + 1))). split; [cbn [interp]; now rewrite Hl|].
    cbn [inorder]. rewrite Il.
    replace (hi - lo + 2)%nat with ((mid - 1 - lo + 2) + 1)%nat by lia.
    rewrite (seq_app (mid - 1 - lo + 2) 1 lo). f_equal. cbn [seq]. f_equal. lia.
  - destruct (IH fn terms lo (mid - 1)%nat ltac:(lia) ltac:(lia)) as (tl & Hl & Il).
    destruct (IH fn terms (mid + 1)%nat hi ltac:(lia) ltac:(lia)) as (tr & Hr & Ir).
    exists (INode tl tr). split; [cbn [interp]; now rewrite Hl, Hr|].
    cbn [inorder]. rewrite Il, Ir.
    replace (hi - lo + 2)%nat with ((mid - 1 - lo + 2) + (hi - (mid + 1) + 2))%nat by lia.
    rewrite (seq_app (mid - 1 - lo + 2) (hi - (mid + 1) + 2) lo). f_equal. f_equal. lia.
Qed.

(** The tree built for a chain t0 op t1 op ... tn has exactly the operands t0..tn as leaves,
    in source order, under nodes of that operator only. *)
Lemma logic_tree_order fn terms : (2 <= length terms)%nat ->
  exists t, logic_tree fn terms = interp fn terms t /\ inorder t = seq 0 (length terms).
Proof.
  intros H. unfold logic_tree.
  destruct terms as [|a [|b rest]]; [cbn in H; lia|cbn in H; lia|].
  destruct (balanced_shape (length (a :: b :: rest)) fn (a :: b :: rest) 0 (length (a :: b :: rest) - 2))
    as (t & Ht & It); [cbn [length]; lia|lia|].
  exists t. split; [exact Ht|]. rewrite It. f_equal. cbn [length]. lia.
Qed.

(** Prefix runs. *)
Lemma count_prefix_repeat (p : tk -> bool) (t : tk) n ts :
  p t = true -> match ts with x :: _ => p x = false | [] => True end ->
  count_prefix p (repeat t n ++ ts) = (n, ts).
Proof.
  intros Ht Hts. induction n as [|n IH]; cbn [repeat app count_prefix].
  - destruct ts as [|x r]; [reflexivity|]. cbn [count_prefix]. now rewrite Hts.
  - now rewrite Ht, IH.
Qed.

Definition not_bang (ts : list tk) : Prop := match ts with x :: _ => is_bang x = false | [] => True end.
Definition not_minus (ts : list tk) : Prop := match ts with x :: _ => is_minus x = false | [] => True end.

Lemma bang_run n f ts : not_bang ts ->
  p_unary (S f) (repeat TBang (S n) ++ ts) =
  match p_member f ts with
  | POk m r => POk (if Nat.odd (S n) then ECall $"!_" None [m] else m) r
  | PFail => PFail
  | PFuel => PFuel
  end.
Proof.
  intros H. cbn [p_unary repeat app].
  change (TBang :: repeat TBang n ++ ts) with (repeat TBang (S n) ++ ts).
  rewrite (count_prefix_repeat is_bang TBang (S n) ts eq_refl H).
  destruct (p_member f ts); reflexivity.
Qed.

Lemma minus_run n f ts : not_minus ts -> (n = O -> is_number_tok ts = false) ->
  p_unary (S f) (repeat TMinus (S n) ++ ts) =
  match p_member f ts with
  | POk m r => POk (if Nat.odd (S n) then ECall $"-_" None [m] else m) r
  | PFail => PFail
  | PFuel => PFuel
  end.
Proof.
  intros H Hn. cbn [p_unary repeat app].
  assert (E : is_number_tok (repeat TMinus n ++ ts) = false).
  { destruct n as [|n]; [cbn; now apply Hn|reflexivity]. }
  rewrite E.
  change (TMinus :: repeat TMinus n ++ ts) with (repeat TMinus (S n) ++ ts).
  rewrite (count_prefix_repeat is_minus TMinus (S n) ts eq_refl H).
  destruct (p_member f ts); reflexivity.
Qed.

(** Macros expand around their receiver and arguments: the receiver becomes the range and
    each argument is placed, intact, inside the loop step ([expand_*] in Model/Macros.v never
    inspect them). *)
Lemma macro_around r x p q :
  expand_call $"all" (Some r) [EIdent x; p] = Some (expand_all r x p) /\
  expand_call $"exists" (Some r) [EIdent x; p] = Some (expand_exists r x p) /\
  expand_call $"exists_one" (Some r) [EIdent x; p] = Some (expand_exists_one r x p) /\
  expand_call $"existsOne" (Some r) [EIdent x; p] = Some (expand_exists_one r x p) /\
  expand_call $"map" (Some r) [EIdent x; p] = Some (expand_map r x None p) /\
  expand_call $"map" (Some r) [EIdent x; q; p] = Some (expand_map r x (Some q) p) /\
  expand_call $"filter" (Some r) [EIdent x; p] = Some (expand_filter r x p).
Proof. repeat split. Qed.
