(** C15: durations parse, print, add and compare exactly. *)
From Coq Require Import String Ascii.
From Cel.Model Require Import Builtins.
From Cel.Proofs Require Import NumericProofs CompareProofs.
From Coq Require Import Lia ZArith.
Open Scope Z_scope.

(** ** Arithmetic and comparison act on the exact nanosecond counts *)
Lemma dur_arith a b :
  v_add (VDur a) (VDur b) = (if in_i64 (a + b) then Ok (VDur (a + b)) else Err EOverflow) /\
  v_sub (VDur a) (VDur b) = (if in_i64 (a - b) then Ok (VDur (a - b)) else Err EOverflow) /\
  v_cmp (VDur a) (VDur b) = Some (Z.compare a b) /\
  v_eq (VDur a) (VDur b) = (a =? b).
Proof. repeat split. Qed.

(** ** Printing is symmetric in the sign *)
Lemma format_neg d : 0 < d -> in_i64 d = true ->
  format_duration (- d) = 45%N :: format_duration d.
Proof.
  intros Hd Hi. assert (Hr : in_i64 (- d) = true) by (unfold in_i64, i64_min, i64_max in *; lia).
  unfold format_duration. rewrite Hr, Hi.
  replace (- d <? 0) with true by lia. replace (d <? 0) with false by lia.
  now rewrite Z.abs_opp.
Qed.

(** ** The language accepted by [parse_duration] *)
Lemma span_spec (p : N -> bool) s : forall a b, span p s = (a, b) ->
  s = a ++ b /\ forallb p a = true /\ match b with c :: _ => p c = false | [] => True end.
Proof.
  induction s as [|c s IH]; intros a b; cbn [span].
  - intros [= <- <-]. repeat split.
  - destruct (p c) eqn:E.
    + destruct (span p s) as [a' b'] eqn:Es. intros [= <- <-].
      destruct (IH a' b' eq_refl) as (-> & H2 & H3). repeat split; [cbn; now rewrite E, H2|exact H3].
    + intros [= <- <-]. repeat split. exact E.
Qed.

(** A term: decimal number (digits, optionally '.' and digits; or '.' and digits - at least one
    digit in all) immediately followed by one of the units. *)
Definition is_unit (u : str) : Prop := exists ns, unit_ns u = Some ns.
Definition is_term (t : str) : Prop :=
  exists ip dot fp u, t = ip ++ dot ++ fp ++ u /\
    forallb is_digit ip = true /\ forallb is_digit fp = true /\
    (dot = [] /\ fp = [] \/ dot = [46%N]) /\ ip ++ fp <> [] /\ is_unit u /\
    forallb (fun c => negb (is_num_char c)) u = true.

Lemma parse_term_spec s v rest : parse_term s = Some (v, rest) ->
  exists t, s = t ++ rest /\ is_term t /\ match rest with c :: _ => is_num_char c = true | [] => True end.
Proof.
  unfold parse_term. destruct (span is_digit s) as [ip r] eqn:E1.
  destruct (span_spec _ _ _ _ E1) as (-> & Hip & Hr).
  set (fr := match r with
             | d :: r' => if (d =? 46)%N then span is_digit r' else ([], r)
             | [] => ([], r)
             end). destruct fr as [fp r1] eqn:E2. subst fr.
  destruct (ip ++ fp) eqn:Eip; [discriminate|].
  assert (Hne : ip ++ fp <> []) by (rewrite Eip; discriminate). clear Eip.
  destruct (span (fun c => negb (is_num_char c)) r1) as [u rest'] eqn:E3.
  destruct (span_spec _ _ _ _ E3) as (-> & Hu & Hrest).
  destruct (unit_ns u) as [ns|] eqn:Eu; [|discriminate].
  destruct (limit63 <? dec_num ip 0 * ns); [discriminate|]. intros [= <- <-].
  assert (D : exists dot, r = dot ++ fp ++ u ++ rest' /\ forallb is_digit fp = true /\
                          (dot = [] /\ fp = [] \/ dot = [46%N])).
  { destruct r as [|d r']; [injection E2 as <- <-; exists []; cbn; auto|].
    destruct (d =? 46)%N eqn:Ed.
    - apply N.eqb_eq in Ed. subst d. destruct (span_spec _ _ _ _ E2) as (-> & Hfp & _).
      exists [46%N]. cbn. auto.
    - injection E2 as <- <-. exists []. cbn. auto. }
  destruct D as (dot & -> & Hfp & Hdot).
  exists (ip ++ dot ++ fp ++ u). split; [now rewrite <- !app_assoc|]. split.
  - exists ip, dot, fp, u.
    split; [reflexivity|split; [exact Hip|split; [exact Hfp|split; [exact Hdot|split; [exact Hne|split; [now exists ns|exact Hu]]]]]].
  - destruct rest' as [|c ?]; [exact I|]. now apply negb_false_iff in Hrest.
Qed.

Lemma parse_terms_spec fuel : forall s total d, parse_terms fuel s total = Some d ->
  exists terms, s = concat terms /\ Forall is_term terms.
Proof.
  induction fuel as [|f IH]; intros s total d; cbn [parse_terms].
  - destruct s; [intros _; exists []; split; [reflexivity|constructor]|discriminate].
  - destruct s as [|c s]; [intros _; exists []; split; [reflexivity|constructor]|].
    destruct (parse_term (c :: s)) as [[t rest]|] eqn:E; [|discriminate].
    destruct (limit63 <? total + t); [discriminate|]. intros H.
    destruct (parse_term_spec _ _ _ E) as (tm & Es & Ht & _).
    destruct (IH _ _ _ H) as (terms & -> & Hts).
    exists (tm :: terms). split; [exact Es|now constructor].
Qed.

(** Accepted strings: optional sign, then "0" or a non-empty sequence of terms - the whole
    string, nothing else. *)
Theorem parse_language s d : parse_duration s = Some d ->
  exists sign body, s = sign ++ body /\ (sign = [] \/ sign = [45%N] \/ sign = [43%N]) /\
    (body = $"0" \/ exists terms, terms <> [] /\ body = concat terms /\ Forall is_term terms).
Proof.
  unfold parse_duration.
  set (sr := match s with
             | c :: r' => if (c =? 45)%N then (true, r') else if (c =? 43)%N then (false, r') else (false, s)
             | [] => (false, s)
             end). destruct sr as [neg r] eqn:E.
  assert (S : exists sign, s = sign ++ r /\ (sign = [] \/ sign = [45%N] \/ sign = [43%N])).
  { subst sr. destruct s as [|c s']; [injection E as _ <-; exists []; auto|].
    destruct (c =? 45)%N eqn:E1; [apply N.eqb_eq in E1; subst; injection E as _ <-; exists [45%N]; auto|].
    destruct (c =? 43)%N eqn:E2; [apply N.eqb_eq in E2; subst; injection E as _ <-; exists [43%N]; auto|].
    injection E as _ <-. exists []. auto. }
  destruct S as (sign & -> & Hsign). intros H. exists sign, r. split; [reflexivity|split; [exact Hsign|]].
  destruct (str_eqb r $"0") eqn:E0.
  - left. now apply str_eqb_eq.
  - right. destruct r as [|c r']; [discriminate|].
    destruct (parse_terms (S (length (c :: r'))) (c :: r') 0) as [t|] eqn:Et; [|discriminate].
    destruct (parse_terms_spec _ _ _ _ Et) as (terms & Ec & Hts).
    exists terms. repeat split; auto. intros ->. discriminate.
Qed.

(** Rejected spellings named by the property (computed). *)
Lemma rejected_spellings :
  map parse_duration [$"1h30mjunk"; $"1e3s"; $"infs"; $"nans"; $"--1s"; $"1h-30m"; $"1s "; $" 1s"; $"1";
                      $""; $"-"; $"1.5"; $"s"; $"9223372036854775808ns"] =
  repeat None 14.
Proof. reflexivity. Qed.

(** Round trip on evaluated durations (a test of the model; the unbounded statement is not
    proved here). *)
Definition dur_rt (d : Z) : bool :=
  match parse_duration (format_duration_str d) with Some d' => d' =? d | None => false end.
Lemma roundtrip_samples :
  forallb dur_rt [0; 1; -1; 999; 1000; 1001; -1500; 999999; 1000000; 1500000; 999999999; 1000000000;
                  1000000001; 59999999999; 60000000000; 3600000000000; 5400000000000; 4265176228;
                  629493380207408; 9223372036854775807; -9223372036854775808; -9223372036854775807;
                  86400000000000; -2000000000; 1100; 2200000; 3300000000] = true.
Proof. vm_compute. reflexivity. Qed.
