(** C05: an execution depends on the context only through the function registry and the
    lookups of the identifiers that occur in the program (frame property). *)
From Coq Require Import String.
From Cel.Model Require Import Eval.
From Cel.Proofs Require Import EvalBase CtxEquiv.

(** every identifier occurrence (macro-internal ones included) *)
Fixpoint occ_vars (e : expr) : list str :=
  match e with
  | EUnspec | ELit _ => []
  | EIdent x => [x]
  | ECall _ t args =>
      match t with Some t' => occ_vars t' | None => [] end ++
      (fix go (l : list expr) : list str := match l with [] => [] | a :: l' => occ_vars a ++ go l' end) args
  | ESelect o _ _ => occ_vars o
  | EList es => (fix go (l : list expr) : list str := match l with [] => [] | a :: l' => occ_vars a ++ go l' end) es
  | EMap es => (fix go (l : list (expr * expr)) : list str :=
                  match l with [] => [] | (k, v) :: l' => occ_vars k ++ occ_vars v ++ go l' end) es
  | EStruct _ fs => []
  | EComp r _ _ i c s res => occ_vars r ++ occ_vars i ++ occ_vars c ++ occ_vars s ++ occ_vars res
  end.

Definition agree (S : str -> Prop) (c1 c2 : ctx) : Prop :=
  funs c1 = funs c2 /\ forall x, S x -> lookup c1 x = lookup c2 x.

Lemma agree_define S c1 c2 x v : agree S c1 c2 -> agree S (define c1 x v) (define c2 x v).
Proof. intros [Hf Hl]. split; [exact Hf|]. intros y Hy. rewrite !lookup_define. now rewrite (Hl y Hy). Qed.
Lemma agree_push S c1 c2 : agree S c1 c2 -> agree S (push c1) (push c2).
Proof. intros [Hf Hl]. split; [exact Hf|]. intros y Hy. rewrite !lookup_push. now apply Hl. Qed.
Lemma agree_sub (S S' : str -> Prop) c1 c2 : (forall x, S' x -> S x) -> agree S c1 c2 -> agree S' c1 c2.
Proof. intros H [Hf Hl]. split; auto. Qed.

Lemma occ_args_in (a : expr) args x : In a args -> In x (occ_vars a) ->
  In x ((fix go (l : list expr) : list str := match l with [] => [] | a :: l' => occ_vars a ++ go l' end) args).
Proof.
  induction args as [|b args IH]; [intros []|]. intros [->|Hin] Hx; apply in_or_app; [now left|right; now apply IH].
Qed.
Lemma occ_entries_in (k v : expr) es x : In (k, v) es -> In x (occ_vars k) \/ In x (occ_vars v) ->
  In x ((fix go (l : list (expr * expr)) : list str :=
           match l with [] => [] | (k, v) :: l' => occ_vars k ++ occ_vars v ++ go l' end) es).
Proof.
  induction es as [|[k2 v2] es IH]; [intros []|]. intros [[= -> ->]|Hin] Hx.
  - destruct Hx; apply in_or_app; [now left|right; apply in_or_app; now left].
  - apply in_or_app; right; apply in_or_app; right. now apply IH.
Qed.

Lemma comp_loop_agree S iv av cond step res :
  (forall c1 c2, agree S c1 c2 -> eval c1 cond = eval c2 cond) ->
  (forall c1 c2, agree S c1 c2 -> eval c1 step = eval c2 step) ->
  (forall c1 c2, agree S c1 c2 -> eval c1 res = eval c2 res) ->
  forall its c1 c2 log, agree S c1 c2 ->
  comp_loop eval iv av cond step res its c1 log = comp_loop eval iv av cond step res its c2 log.
Proof.
  intros Hc Hs Hr. induction its as [|it rest IH]; intros c1 c2 log E; cbn [comp_loop].
  - now rewrite (Hr c1 c2 E).
  - rewrite (Hc c1 c2 E). destruct (eval c2 cond) as [[vc|x|s] lc]; auto.
    destruct (to_bool vc).
    + rewrite (Hs (define c1 iv it) (define c2 iv it)) by now apply agree_define.
      destruct (eval (define c2 iv it) step) as [[va|x|s] ls]; auto.
      apply IH. now repeat apply agree_define.
    + now rewrite (Hr c1 c2 E).
Qed.

Theorem eval_frame e : forall (S : str -> Prop), (forall x, In x (occ_vars e) -> S x) ->
  forall c1 c2, agree S c1 c2 -> eval c1 e = eval c2 e.
Proof.
  induction e using expr_ind'; intros S HS c1 c2 E; pose proof E as [Hf Hl].
  - reflexivity.
  - reflexivity.
  - rewrite !eval_ident. rewrite Hl; [reflexivity|]. apply HS. now left.
  - rewrite !eval_call.
    assert (Ha : map (eval c1) args = map (eval c2) args).
    { apply map_ext_in. intros a Ha. rewrite Forall_forall in H0. apply (H0 a Ha S); [|exact E].
      intros x Hx. apply HS. cbn [occ_vars]. apply in_or_app. right. now apply (occ_args_in a). }
    assert (Ht : option_map (eval c1) target = option_map (eval c2) target).
    { destruct target as [t|]; cbn [option_map]; [|reflexivity]. f_equal. apply (H t eq_refl S); [|exact E].
      intros x Hx. apply HS. cbn [occ_vars]. apply in_or_app. now left. }
    rewrite Ha, Ht. now apply call_dispatch_equiv.
  - rewrite !eval_select. rewrite (IHe S HS c1 c2 E).
    destruct (eval c2 e) as [[v|x|s] l]; cbn [rbind]; auto.
    destruct t; [reflexivity|]. unfold member, has_function, get_function. now rewrite Hf.
  - rewrite !eval_list. apply list_go_ext. rewrite Forall_forall in *. intros a Ha.
    apply (H a Ha S); [|exact E]. intros x Hx. apply HS. cbn [occ_vars]. now apply (occ_args_in a).
  - rewrite !eval_map. apply map_go_ext. rewrite Forall_forall in *. intros [k v] Hkv.
    destruct (H (k, v) Hkv) as [H1 H2]. cbn [fst snd] in *. split.
    + apply (H1 S); [|exact E]. intros x Hx. apply HS. cbn [occ_vars]. apply (occ_entries_in k v); auto.
    + apply (H2 S); [|exact E]. intros x Hx. apply HS. cbn [occ_vars]. apply (occ_entries_in k v); auto.
  - reflexivity.
  - cbn [occ_vars] in HS.
    assert (S1 : forall x, In x (occ_vars e1) -> S x) by (intros; apply HS; apply in_or_app; now left).
    assert (S2 : forall x, In x (occ_vars e2) -> S x)
      by (intros; apply HS; apply in_or_app; right; apply in_or_app; now left).
    assert (S3 : forall x, In x (occ_vars e3) -> S x)
      by (intros; apply HS; do 2 (apply in_or_app; right); apply in_or_app; now left).
    assert (S4 : forall x, In x (occ_vars e4) -> S x)
      by (intros; apply HS; do 3 (apply in_or_app; right); apply in_or_app; now left).
    assert (S5 : forall x, In x (occ_vars e5) -> S x)
      by (intros; apply HS; do 4 (apply in_or_app; right); assumption).
    rewrite !eval_comp. rewrite (IHe2 S S2 c1 c2 E).
    destruct (eval c2 e2) as [[vi|x|s] li]; cbn [rbind]; auto.
    rewrite (IHe1 S S1 c1 c2 E). destruct (eval c2 e1) as [[vr|x|s] lr]; cbn [rbind]; auto.
    destruct (range_items vr) as [items|]; [|reflexivity].
    rewrite (comp_loop_agree S iv av e3 e4 e5 (IHe3 S S3) (IHe4 S S4) (IHe5 S S5) items
               (define (push c1) av vi) (define (push c2) av vi) []); [reflexivity|].
    apply agree_define. now apply agree_push.
Qed.

(** A variable the program does not mention - a thread's private variable, say - does not
    matter, nor does executing in an inner scope. *)
Corollary unrelated_variable e c x v : ~ In x (occ_vars e) -> eval (define (push c) x v) e = eval c e.
Proof.
  intros Hx. apply (eval_frame e (fun y => In y (occ_vars e))); [auto|].
  split; [reflexivity|]. intros y Hy. rewrite lookup_define, lookup_push.
  destruct (str_eqb y x) eqn:E; [|reflexivity].
  exfalso. apply Hx. assert (y = x); [|now subst].
  clear -E. revert x E; induction y as [|a y IH]; intros [|b x]; cbn; try discriminate; auto.
  rewrite Bool.andb_true_iff, N.eqb_eq. intros [-> H]. f_equal. auto.
Qed.

Corollary inner_scope e c : eval (push c) e = eval c e.
Proof. apply eval_equiv. split; [reflexivity|]. intros x. apply lookup_push. Qed.
